"""Adapters and generators for the P1 (IEC 62056-21 mode D) reader and readout."""
from __future__ import annotations

import logging

import lib


def crc16(b: bytes) -> int:
    c = 0
    for x in b:
        c ^= x
        for _ in range(8):
            c = (c >> 1) ^ 0xA001 if c & 1 else c >> 1
    return c


def _exc(fn):
    try:
        return fn()
    except Exception as ex:  # noqa
        n = type(ex).__name__
        return n


def render_readout(ro) -> str:
    def valid():
        return "1" if ro.is_valid else "0"
    def expected():
        v = ro.expected_checksum
        return "N" if v is None else str(v)
    def ident():
        i = ro.identification_line
        idv = i.identification
        return lib.hexs(i.manufacturer_id.encode("latin-1")) + "/" + ("N" if idv is None else lib.hexs(idv.encode("latin-1")))
    # every accessor is read twice, the second time in the opposite order (identification before is_valid, ...):
    # what a readout reports must not depend on which accessor was called first (no stale cache)
    acc = [lambda: lib.hexs(ro.as_bytes), lambda: _exc(valid), lambda: lib.hexs(ro.payload), lambda: _exc(expected),
           lambda: str(ro._calculated_crc), lambda: _exc(ident)]
    first = [a() for a in acc]
    second = [a() for a in reversed(acc)][::-1]
    if first != second:
        return "UNSTABLE(" + ":".join(first) + "|" + ":".join(second) + ")"
    return ":".join(first)


def render_readouts(rs) -> str:
    return " ".join(render_readout(r) for r in rs) if rs else "."


def render_state(r) -> str:
    try:
        return ",".join([str(len(r._buffer._buffer)), str(r._buffer._buffer_pos), str(len(r._raw_data)),
                         "1" if r._is_int_hunt_mode else "0"])
    except AttributeError:
        return "?"


def impl_read(chunks, with_state=True):
    from han.dlde import ModeDReader
    logging.disable(logging.CRITICAL)
    r = ModeDReader()
    calls = []
    for ch in chunks:
        try:
            out = r.read(bytes(ch))
        except Exception as ex:  # noqa
            calls.append("EXC " + type(ex).__name__)
            return calls
        calls.append(render_readouts(out) + (" @" + render_state(r) if with_state else ""))
    return calls


def model_read(cases):
    reqs = [f"p1.read {lib.chunks_arg(chs)}" for chs in cases]
    return [a.split(" ; ") if a else [] for a in lib.drive(reqs)]


def impl_readout(b: bytes) -> str:
    from han.dlde import DataReadout
    logging.disable(logging.CRITICAL)
    try:
        ro = DataReadout(b)
    except Exception as ex:  # noqa
        return "EXC " + type(ex).__name__
    return render_readout(ro)


def strip_state(calls):
    return [c.split(" @")[0] for c in calls]


def readouts_of(calls):
    res = []
    for c in strip_state(calls):
        if c != "." and not c.startswith("EXC"):
            res.extend(c.split(" "))
    return res


# ------------------------------------------------------------------ generators
MANIDS = [b"ABC", b"ADN", b"KFM", b"KAM", b"LGF", b"ISk", b"XXz"]


def gen_ident(rng) -> bytes:
    man = rng.choice(MANIDS)
    baud = bytes([rng.choice(b"0123456789")])
    esc = b"".join(b"\\" + bytes([rng.choice(b"2W@_a9")]) if False else b"\\" + bytes([rng.choice(b"2Wa9_")]) for _ in range(rng.choice([0, 0, 0, 1, 2])))
    n = rng.choice([0, 1, 3, 8, 16])
    alpha = b"ABCDEFGHIJKLMNOPQRSTUVWXYZabcdefghijklmnopqrstuvwxyz0123456789 -_.:;,#+*=?"
    ident = bytes(rng.choice(alpha) for _ in range(n))
    if ident[:1] == b"\\":
        ident = b"X" + ident[1:]
    ident = ident.rstrip(b" ")
    return b"/" + man + baud + esc + ident + b"\r\n"


def gen_data_lines(rng, nlines=None):
    n = rng.choice([0, 1, 2, 5, 12, 30]) if nlines is None else nlines
    lines = []
    for _ in range(n):
        code = rng.choice([b"1-0:1.7.0", b"1-0:1.8.0", b"0-0:1.0.0", b"1-0:32.7.0", b"1-0:31.7.0", b"0-0:96.1.1", b"1-0:2.8.0"])
        if code == b"0-0:1.0.0":
            val = b"%02d%02d%02d%02d%02d%02dW" % (rng.randint(0, 99), rng.randint(1, 12), rng.randint(1, 28), rng.randint(0, 23), rng.randint(0, 59), rng.randint(0, 59))
        elif code == b"0-0:96.1.1":
            val = bytes(rng.choice(b"0123456789ABCDEF") for _ in range(rng.choice([4, 16, 32])))
        else:
            val = b"%08.3f*%s" % (rng.random() * 9999, rng.choice([b"kW", b"kWh", b"V", b"A", b"kvar"]))
        lines.append(code + b"(" + val + b")\r\n")
    return lines


def gen_readout(rng, with_crc=None, nlines=None, big=False) -> bytes:
    ident = gen_ident(rng)
    lines = gen_data_lines(rng, nlines)
    if big:
        while sum(map(len, lines)) < rng.choice([2000, 5000, 7000]):
            lines += gen_data_lines(rng, 30)
    body = ident + (b"\r\n" if rng.random() < 0.8 else b"") + b"".join(lines) + b"!"
    with_crc = rng.random() < 0.75 if with_crc is None else with_crc
    if with_crc:
        c = crc16(body)
        fmt = rng.choice(["%04X", "%04X", "%04x"])
        return body + (fmt % c).encode() + b"\r\n"
    return body + b"\r\n"


NOISE_ALPHA = b"/!\n\r~}\x7e\x7d\x80\xff\x00 0123456789abcdefABCDEFxyz(*)\\_+-"


def gen_noise(rng, n=None) -> bytes:
    n = rng.choice([1, 3, 10, 40, 120]) if n is None else n
    mode = rng.randrange(4)
    if mode == 0:
        return bytes(rng.randrange(256) for _ in range(n))
    if mode == 1:
        return bytes(rng.choice(NOISE_ALPHA) for _ in range(n))
    if mode == 2:  # looks like a readout start, then garbage after '!'
        return b"/" + bytes(rng.choice(b"ABCabc5\\ \x80") for _ in range(rng.randrange(8))) + rng.choice([b"\n", b"\r\n", b""]) + \
            bytes(rng.choice(NOISE_ALPHA) for _ in range(n)) + b"\n!" + bytes(rng.choice(b"0123456789abcdefxyz_+- \x80\xff\r") for _ in range(rng.randrange(7))) + rng.choice([b"\n", b"\r\n", b""])
    ro = bytearray(gen_readout(rng))
    for _ in range(rng.choice([1, 1, 2, 4])):
        pos = rng.randrange(len(ro))
        ro[pos] = rng.choice(NOISE_ALPHA)
    return bytes(ro)


# ------------------------------------------------------------------ descriptors for the Lean spec encoder
DATA_ALPHA = bytes(c for c in range(32, 127) if c not in (33, 47))
WORD = b"ABCXYZabcxyz0189_"


def gen_desc(rng, big=False, chk=None):
    man = bytes([rng.choice(b"ABKLXZ"), rng.choice(b"ADFMSZ"), rng.choice(b"CMNkz")])
    baud = rng.choice(b"0123456789")
    escs = bytes(rng.choice(WORD) for _ in range(rng.choice([0, 0, 0, 1, 2, 3])))
    n = rng.choice([0, 1, 3, 8, 15, 16])
    ident = bytearray(rng.choice(DATA_ALPHA) for _ in range(n))
    if len(ident) >= 2 and ident[0] == 92 and (chr(ident[1]).isalnum() or ident[1] == 95):
        ident[0] = 88
    while ident and ident[-1] == 32:
        ident.pop()
    nl = rng.choice([0, 1, 2, 5, 12, 25])
    lines = []
    if rng.random() < 0.7:
        lines.append(b"")
    for ln in gen_data_lines(rng, nl):
        lines.append(ln[:-2])
    if rng.random() < 0.2:
        lines.append(bytes(rng.choice(DATA_ALPHA) for _ in range(rng.choice([1, 10, 70]))))
    if big:
        target = rng.choice([2000, 5000, 7900])
        while sum(len(l) + 2 for l in lines) < target:
            lines += [l[:-2] for l in gen_data_lines(rng, 20)]
        while sum(len(l) + 2 for l in lines) + 40 > 8100:
            lines.pop()
    c = chk if chk is not None else rng.choice(["U", "U", "L", "N"])
    return (man, baud, escs, bytes(ident), lines, c)


def desc_arg(d) -> str:
    man, baud, escs, ident, lines, c = d
    ls = "/".join(lib.hexs(l) for l in lines) if lines else "."
    return f"{man.hex()},{baud},{lib.hexs(escs)},{lib.hexs(ident)},{ls},{c}"


def clean_request(pre: bytes, descs, cuts) -> str:
    ds = ";".join(desc_arg(d) for d in descs) if descs else "."
    ct = ",".join(map(str, cuts)) if cuts else "."
    return f"p1.clean {lib.hexs(pre)} {ds} {ct}"


def parse_clean_answer(a: str):
    parts = a.split(" | ")
    if len(parts) != 5:
        raise lib.ToolFailure(f"driver: {a[:200]}")
    wire_hex, model, spec, dom, chunks_s = parts
    chunks = [bytes.fromhex(c) if c != "-" else b"" for c in chunks_s.split(",")]
    lst = lambda s: [] if s == "." else s.split(" ")
    return wire_hex, (model if model.startswith("EXC") else lst(model)), lst(spec), dom == "1", chunks
