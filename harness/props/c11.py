"""C11 — P1 readouts parse into the transmitted data sets and decode with exact units."""
from __future__ import annotations

import datetime
import logging
from fractions import Fraction

import dec_common as D
import lib
import p1_common as P

ASSUMPTIONS = ["float(), int(float*1000) and round() are modelled by the exact binary64 model (Model/Float.lean), tied here and proved "
               "to satisfy the rounding-error bounds in Props/C11Float.lean",
               "the expected data sets / values are computed independently in Python from the generated block description"]

PLAIN = bytes(c for c in range(33, 127) if c not in (40, 41, 42, 47, 33))
ADDRS = [b"1-0:1.7.0", b"1-0:2.7.0", b"1-0:1.8.0", b"0-0:1.0.0", b"1-0:32.7.0", b"1-0:31.7.0", b"0-0:96.1.1", b"1-0:2.8.0", b"1.7.0",
         b"1-1:99.98.97", b"0-1:24.2.1", b"1-0:3.7.0*255", b"21.7", b"1-0:51.7.0"]
UNITS = [b"kW", b"KW", b"kw", b"kWh", b"kvar", b"kVArh", b"KVARH", b"V", b"v", b"A", b"a", b"var", b"VAR", b"varh", b"m3", b"Hz", b""]


def gen_number(rng):
    ip = str(rng.randrange(10 ** rng.choice([1, 2, 4, 6]))).zfill(rng.choice([1, 1, 4, 6]))
    k = rng.choice([0, 1, 2, 3, 3])
    return (ip + ("." + str(rng.randrange(10 ** k)).zfill(k) if k else "")).encode()


def gen_set(rng):
    addr = rng.choice(ADDRS) if rng.random() < 0.85 else bytes(rng.choice(PLAIN) for _ in range(rng.randint(1, 8)))
    vals = []
    for _ in range(rng.choice([1, 1, 1, 1, 2, 3])):
        k = rng.randrange(6)
        if addr.endswith(b"1.0.0") and k < 4:
            v = b"%02d%02d%02d%02d%02d%02d%s" % (rng.randint(0, 99), rng.randint(1, 12), rng.randint(1, 28), rng.randint(0, 23), rng.randint(0, 59), rng.randint(0, 59), rng.choice([b"W", b"S", b""]))
            vals.append((v, None))
        elif k < 4:
            u = rng.choice(UNITS)
            vals.append((gen_number(rng), u if (u or rng.random() < 0.1) else None))
        elif k == 4:
            v = bytearray(rng.choice(PLAIN) for _ in range(rng.randint(0, 20)))
            if v and rng.random() < 0.3:       # blanks inside a value ("HELLO WORLD", "21-02-22 16:19:00", " 12.5"): verbatim too
                for _ in range(rng.choice([1, 1, 2])):
                    v[rng.randrange(len(v))] = rng.choice(b"  \t")
            vals.append((bytes(v), None))
        else:
            vals.append((bytes(rng.choice(b"0123456789ABCDEF") for _ in range(rng.choice([8, 16, 32]))), None))
    return addr, vals


def gen_block(rng):
    lines = []
    for _ in range(rng.choice([1, 2, 5, 12])):
        if rng.random() < 0.15:
            lines.append(([], rng.random() < 0.7))
        else:
            lines.append(([gen_set(rng) for _ in range(rng.choice([1, 1, 1, 2, 3]))], rng.random() < 0.7))
    return lines


def render_block(lines) -> bytes:
    out = b""
    for sets, crlf in lines:
        for addr, vals in sets:
            out += addr + b"".join(b"(" + v + (b"*" + u if u is not None else b"") + b")" for v, u in vals)
        out += b"\r\n" if crlf else b"\n"
    return out


def expected_sets(lines) -> str:
    items = []
    for sets, _ in lines:
        for addr, vals in sets:
            items.append(lib.hexs(addr) + "(" + ",".join(lib.hexs(v) + "*" + ("N" if u is None else lib.hexs(u)) for v, u in vals) + ")")
    return " ".join(items) if items else "."


def impl_parse(text: bytes):
    from han import dlde
    logging.disable(logging.CRITICAL)
    try:
        sets = dlde.parse_p1_readout_content(text)
    except Exception as ex:  # noqa
        return D.exc_name(ex), None
    r = []
    for s in sets:
        r.append(lib.hexs(s.address.encode("latin-1")) + "(" + ",".join(
            lib.hexs(v.value.encode("latin-1")) + "*" + ("N" if v.unit is None else lib.hexs(v.unit.encode("latin-1"))) for v in s.values) + ")")
    return (" ".join(r) if r else "."), sets


def count_iterations(text: bytes):
    """loop iterations of the real parse_data_block (both while loops), via sys.settrace on line events"""
    import sys
    from han import dlde
    code_outer = dlde.DataSet.parse_data_block.__func__.__code__
    counts = [0]
    src_lines = {}

    def tracer(frame, event, arg):
        co = frame.f_code
        if co is code_outer or co.co_name == "get_address_and_values":
            def local(fr, ev, a):
                if ev == "line":
                    key = (co.co_name, fr.f_lineno)
                    src_lines[key] = src_lines.get(key, 0) + 1
                return local
            return local
        return None
    sys.settrace(tracer)
    try:
        dlde.DataSet.parse_data_block(text.decode("ascii"))
    except Exception:  # noqa
        pass
    finally:
        sys.settrace(None)
    return max(src_lines.values()) if src_lines else 0


def oracle_values(lines, impl_dict_render: str):
    """C11 on the implementation's dictionary: names, kilo units one-sided, plain units exact, clock, verbatim"""
    from han import obis_map
    from han.obis import Obis
    if not impl_dict_render.startswith("{"):
        return None
    got = dict(kv.split("=", 1) for kv in impl_dict_render.strip("{}").split(",") if kv)
    expect = {}
    for sets, _ in lines:
        for addr, vals in sets:
            if len(vals) != 1:
                continue
            try:
                o = Obis.from_string(addr.decode())
            except ValueError:
                return None
            cde = o.to_group_cdr_str()
            name = obis_map.obis_name_map.get(cde, cde)
            v, u = vals[0]
            ul = u.decode().lower() if u else None
            if ul in ("kw", "kwh", "kvar", "kvarh"):
                expect[name] = ("kilo", Fraction(v.decode()) * 1000)
            elif ul in ("v", "a", "var", "varh"):
                expect[name] = ("plain", float(v.decode()))
            elif cde == "1.0.0":
                t = v.decode()
                expect[name] = ("clock", datetime.datetime(2000 + int(t[0:2]), int(t[2:4]), int(t[4:6]), int(t[6:8]), int(t[8:10]), int(t[10:12])))
            else:
                expect[name] = ("str", v)
    for name, (kind, want) in expect.items():
        g = got.get(name)
        if g is None:
            return f"field {name} missing"
        if kind == "kilo":
            z = int(g[1:]) if g.startswith("i") else None
            if z is None or not (want - 1 <= z <= want) or (want.denominator == 1 and z not in (want, want - 1)):
                return f"{name}: {g} is not within one unit below the exact product {want} (and never above)"
        elif kind == "plain" and g != D.render_val(want):
            return f"{name}: {g} is not the transmitted number {want}"
        elif kind == "clock" and g != D.render_val(want):
            return f"{name}: {g} is not the transmitted local date-time {want}"
        elif kind == "str" and g != "s" + lib.hexs(want):
            return f"{name}: {g} is not the verbatim text {want!r}"
    return None


def run(res, tier, seed, widen=1):
    rng = lib.rng_for(seed, "C11")
    res.rule = ("data blocks from the IEC 62056-21 syntax (reduced OBIS addresses and arbitrary addresses, 1..3 values per data set, decimals "
                "with 0..3 fractional digits and leading zeros, units in any letter case, several data sets per line, blank lines, LF/CRLF) "
                "-> real parse / decode_p1_readout_content / decode_p1_readout / AutoDecoder; non-trivial = distinct blocks")
    n = (1200 if tier == "quick" else 30000) * widen
    blocks = [gen_block(rng) for _ in range(n)]
    texts = [render_block(b) for b in blocks]
    parse_ans = lib.drive([f"p1.parse {lib.hexs(t)}" for t in texts])
    dec_ans = lib.drive([f"decode P1 {lib.hexs(t)}" for t in texts])
    for b, t, pa, da in zip(blocks, texts, parse_ans, dec_ans):
        res.evaluations += 1
        case = {"op": "p1.block", "hex": t.hex()}
        isets, _ = impl_parse(t)
        msets, iters = (pa.rsplit(" #", 1) + ["0"])[:2] if " #" in pa else (pa, "0")
        if isets != msets:
            res.tie_break(case, isets[:300], msets[:300], "parse")
        if isets != expected_sets(b):
            res.prop_failure(case, f"parsed data sets {isets[:200]} differ from the transmitted ones {expected_sets(b)[:200]}", "parse")
        idec = D.impl_decode("P1", t)
        if idec != da:
            res.tie_break(case, idec[:300], da[:300], "decode")
        why = oracle_values(b, idec)
        if why:
            res.prop_failure(case, why, "decode")
        res.nontriv(t)
        res.count("blocks")
        res.count("decoded" if idec.startswith("{") else "decode_" + idec)
    # iteration counts of the real loops vs the model's counter (sample)
    for t, pa in list(zip(texts, parse_ans))[: (150 if tier == "quick" else 2000)]:
        if " #" in pa:
            it = int(pa.rsplit(" #", 1)[1])
            res.evaluations += 1
            if it > 2 * len(t) + 2:
                res.prop_failure({"op": "p1.block", "hex": t.hex()}, f"model loop iterations {it} exceed 2*len+2", "cost")
            res.count("iteration_bound_checked")
    # same block through decode_p1_readout (whole readout) and AutoDecoder
    from han import dlde
    from han.autodecoder import AutoDecoder
    logging.disable(logging.CRITICAL)
    for b, t in list(zip(blocks, texts))[: (300 if tier == "quick" else 6000)]:
        ident = P.gen_ident(rng)
        ro_bytes = ident + t + b"!\r\n"
        res.evaluations += 1
        case = {"op": "p1.readout", "hex": ro_bytes.hex()}
        outcome = {}
        for route, fn in (("readout", lambda: dlde.decode_p1_readout(dlde.DataReadout(ro_bytes))),
                          ("content", lambda: dlde.decode_p1_readout_content(t)),
                          ("auto_payload", lambda: AutoDecoder().decode_message_payload(t)),
                          ("auto_message", lambda: AutoDecoder().decode_message(dlde.DataReadout(ro_bytes)))):
            try:
                outcome[route] = fn()
            except Exception as ex:  # noqa
                outcome[route] = ex
        refused = [r for r, v in outcome.items() if isinstance(v, Exception) or v is None]
        if refused:
            # "the same block decodes identically through ..." also means: a block one route decodes is not refused by another.
            # (Stated for blocks that transmit at least one data set and consist of printable characters, CR and LF - the
            # content route refuses empty content and control characters by design, the whole-readout route has neither guard.)
            if len(refused) < len(outcome) and expected_sets(b) != "." and not any(x < 32 and x not in (13, 10) for x in t):
                ok_routes = [r for r in outcome if r not in refused]
                res.prop_failure(case, f"the same block is decoded through {ok_routes} but refused through "
                                       f"{[(r, 'None' if outcome[r] is None else D.exc_name(outcome[r])) for r in refused]}", "paths")
            res.count("readout_path_refused")
            continue
        full, content = outcome["readout"], outcome["content"]
        rest = {k: v for k, v in full.items() if k not in ("meter_manufacturer_id", "meter_type_id")}
        if D.render_dict(rest) != D.render_dict(content):
            res.prop_failure(case, "decode_p1_readout and decode_p1_readout_content disagree beyond the two identification fields", "paths")
        if full.get("meter_manufacturer_id") != ident[1:4].decode():
            res.prop_failure(case, f"manufacturer id {full.get('meter_manufacturer_id')!r} != {ident[1:4]!r}", "paths")
        # the identification (meter type id) is what follows the baud-rate character and ALL escape sequences (backslash +
        # one word character each), written out independently of the library's pattern
        rest_id = ident.strip()[5:]
        while len(rest_id) >= 2 and rest_id[0:1] == b"\\" and (rest_id[1:2].isalnum() or rest_id[1:2] == b"_"):
            rest_id = rest_id[2:]
        want_id = rest_id.decode() if rest_id else None
        if full.get("meter_type_id") != want_id:
            res.prop_failure(case, f"meter type id {full.get('meter_type_id')!r}, the identification line {ident!r} carries {want_id!r}", "paths")
        a1, a2 = outcome["auto_payload"], outcome["auto_message"]
        if a1 is None or D.render_dict(a1) != D.render_dict(content) or a2 is None or D.render_dict(a2) != D.render_dict(full):
            res.prop_failure(case, "AutoDecoder decodes the same block differently", "paths")
        m = lib.drive([f"automsg N P {lib.hexs(ro_bytes)}"])[0] if False else None
        res.count("paths")
    reqs = []
    meta = []
    for b, t in list(zip(blocks, texts))[: (300 if tier == "quick" else 6000)]:
        ident = P.gen_ident(lib.rng_for(seed, "C11id", t))
        ro_bytes = ident + t + b"!\r\n"
        reqs.append(f"automsg N P {lib.hexs(ro_bytes)}")
        meta.append(ro_bytes)
    for ro_bytes, a in zip(meta, lib.drive(reqs)):
        try:
            r = AutoDecoder().decode_message(dlde.DataReadout(ro_bytes))
            i = ("None" if r is None else D.render_dict(r))
        except Exception as ex:  # noqa
            i = "EXC " + D.exc_name(ex)
        res.evaluations += 1
        if i != a.rsplit(" @", 1)[0]:
            res.tie_break({"op": "automsg", "hex": ro_bytes.hex()}, i[:300], a[:300], "automsg")
        res.count("automsg")
    # exhaustive: every three-decimal value 0.000 .. 999.999 (thorough) / a slice (quick): one-sided bound on the real code
    step = 37 if tier == "quick" else 1
    bad = 0
    for E in range(0, 1000000, step):
        s = "%d.%03d" % (E // 1000, E % 1000)
        z = int(float(s) * 1000)
        res.evaluations += 1
        if z not in (E, E - 1):
            bad += 1
            res.prop_failure({"op": "kilo", "text": s}, f"int(float({s!r})*1000) = {z}, exact product {E}", "kilo_bound")
    res.count("kilo_bound_values", len(range(0, 1000000, step)))
    if tier == "thorough":
        res.extra["exhaustive_kilo_domain"] = "all three-decimal values 0.000..999.999"
    # the model of float(text) against the built-in, directly: every 7-bit character before / after / inside a number (float()
    # skips C white space only - not 0x1C..0x1F, which str.strip() removes), and random texts over the number alphabet
    ftexts = []
    for core in ("1.5", "inf", "1e5", "-0.25e-3", "1_0.5"):
        for c in range(128):
            ch = chr(c)
            ftexts += [ch + core, core + ch, ch + core + ch] + [core[:i] + ch + core[i:] for i in range(1, len(core))]
    alphabet = "0123456789.+-eE_ \t\n\x0b\x0c\r\x1c\x1d\x1e\x1f\x00infatyINFNA"
    for _ in range((300 if tier == "quick" else 20000) * widen):
        ftexts.append("".join(rng.choice(alphabet) for _ in range(rng.randint(1, 8))))
    ftexts = [t for t in ftexts if t]
    for t, a in zip(ftexts, lib.drive([f"flt.str {lib.hexs(t.encode('ascii'))}" for t in ftexts])):
        res.evaluations += 1
        i = float_text_render(t)
        if i != a:
            res.tie_break({"op": "flt.str", "hex": t.encode("ascii").hex()}, i, a, "float_text")
        res.count("float_text_accepted" if i != "ValueError" else "float_text_rejected")
    res.sample({"block": texts[len(texts) // 2].decode("latin-1")[:300]})


def float_text_render(t: str) -> str:
    """float(t) in the notation of the driver's flt.str: exact fraction n/d, inf, -inf, nan, or the exception name"""
    import math
    try:
        f = float(t)
    except ValueError:
        return "ValueError"
    if math.isnan(f):
        return "nan"
    if math.isinf(f):
        return "-inf" if f < 0 else "inf"
    n, d = f.as_integer_ratio()
    return ("-" if n < 0 else "") + f"{abs(n)}/{d}"


def search(res, tier, seed):
    run(res, "quick", seed + 7919, widen=3)


def replay(payload, res):
    c = payload["case"]
    if c["op"] == "kilo":
        s = c["text"]
        E = round(float(s) * 1000)
        ok = int(float(s) * 1000) in (E, E - 1)
    elif c["op"] == "flt.str":
        t = bytes.fromhex(c["hex"]).decode("ascii")
        i, a = float_text_render(t), lib.drive([f"flt.str {c['hex']}"])[0]
        print("float(%r): impl %s model %s" % (t, i, a))
        ok = i == a
    elif c["op"] in ("p1.readout", "automsg"):
        # a whole readout (identification line + data block + end line) through decode_message: compared with the model,
        # and the meter type id with the identification written out independently
        from han import dlde
        from han.autodecoder import AutoDecoder
        b = bytes.fromhex(c["hex"])
        try:
            r = AutoDecoder().decode_message(dlde.DataReadout(b))
            i = "None" if r is None else D.render_dict(r)
        except Exception as ex:  # noqa
            r, i = None, "EXC " + D.exc_name(ex)
        a = lib.drive([f"automsg N P {lib.hexs(b)}"])[0].rsplit(" @", 1)[0]
        print("impl :", i[:400])
        print("model:", a[:400])
        ok = i == a
        ident = b.lstrip().split(b"\n", 1)[0].strip()
        rest_id = ident[5:]
        while len(rest_id) >= 2 and rest_id[0:1] == b"\\" and (rest_id[1:2].isalnum() or rest_id[1:2] == b"_"):
            rest_id = rest_id[2:]
        try:
            block = bytes(dlde.DataReadout(b).payload)
            routes = {}
            for route, fn in (("readout", lambda: dlde.decode_p1_readout(dlde.DataReadout(b))), ("content", lambda: dlde.decode_p1_readout_content(block)),
                              ("auto_payload", lambda: AutoDecoder().decode_message_payload(block))):
                try:
                    v = fn()
                    routes[route] = "refused (None)" if v is None else "decoded"
                except Exception as ex:  # noqa
                    routes[route] = "refused (" + D.exc_name(ex) + ")"
            print("routes:", routes)
            if len(set(v.split(" ")[0] for v in routes.values())) > 1 and impl_parse(block)[1] and not any(x < 32 and x not in (13, 10) for x in block):
                print("the same block is decoded through one route and refused through another")
                ok = False
        except Exception as ex:  # noqa
            print("routes not compared:", D.exc_name(ex))
        if isinstance(r, dict) and r.get("meter_type_id") != (rest_id.decode() if rest_id else None):
            print("meter type id", r.get("meter_type_id"), "but the identification line carries", rest_id)
            ok = False
    else:
        t = bytes.fromhex(c["hex"])
        print("impl parse :", impl_parse(t)[0][:400])
        print("impl decode:", D.impl_decode("P1", t)[:400])
        print("model      :", lib.drive([f"decode P1 {lib.hexs(t)}"])[0][:400])
        ok = D.impl_decode("P1", t) == lib.drive([f"decode P1 {lib.hexs(t)}"])[0]
    print("REPLAY", "passes" if ok else "fails")
    return 0 if ok else 1
