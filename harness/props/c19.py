"""C19 — reader memory stays bounded on endless streams (HDLC and P1 readers)."""
from __future__ import annotations

import logging
import sys

import hdlc_common as H
import lib
import p1_common as P

ASSUMPTIONS = ["the theorems bound LOGICAL octet counts (buffer + raw history + frame / collected lines); CPython's allocator is not "
               "modelled: the soak also measures sys.getsizeof of the reader's containers against the affine envelope "
               "1.25 x logical bound + 4 KiB (bytearray over-allocation is at most 12.5 %)"]

HDLC_BOUND = 3 * 2047 + 1


def hdlc_patterns(rng, n):
    f = H.make_frame(rng, info=bytes(rng.randrange(256) for _ in range(40)))
    yield "all_flags", b"\x7e" * n
    yield "flag_short_junk", (b"\x7e\x01\x02") * (n // 3)
    yield "valid_frames", (b"\x7e" + f) * (n // (len(f) + 1)) + b"\x7e"
    yield "valid_frames_stuffed", (b"\x7e" + H.stuff(f)) * (n // (len(f) + 1)) + b"\x7e"
    yield "never_ending_frame", b"\x7e\xa0\x10\x03\x21\x13" + b"\x55" * n
    yield "flag_lone_escape", b"\x7e\x7d" * (n // 2)
    yield "flag_escape_escape", b"\x7e\x7d\x7d" * (n // 3)
    yield "short_frames_discarded", b"\x7e\xa0\x07\x7d" * (n // 4)
    yield "never_ending_escapes", b"\x7e" + b"\x7d" * n
    yield "overlong_then_flags", b"\x7e\xa0\x10\x03\x21\x13" + b"\x55" * 30 + b"\x7e" * n
    yield "random", bytes(rng.randrange(256) for _ in range(n))
    yield "escape_flag_mix", bytes(rng.choice([0x7D, 0x7E, 0x7D, 0x5E]) for _ in range(n))


def p1_patterns(rng, n):
    ro = P.gen_readout(rng, with_crc=True, nlines=12)
    yield "slash_lines_without_end", (b"/ABC5xyz\r\n" + b"1-0:1.7.0(1*kW)\r\n" * 3) * (n // 60)
    yield "slash_then_no_lf", b"/" + b"x" * n
    yield "ident_then_endless_lines", b"/ABC5xyz\r\n" + b"1-0:1.7.0(00.100*kW)\r\n" * (n // 22)
    yield "valid_readouts", ro * (n // len(ro))
    yield "random_ascii", bytes(rng.choice(b"/!\n\r 0123456789abcdef().*:-") for _ in range(n))
    yield "random_bytes", bytes(rng.randrange(256) for _ in range(n))
    yield "all_slashes", b"/" * n
    yield "no_lf_at_all", b"abc" * (n // 3)
    yield "ident_line_very_long_data_line", b"/ABC5xyz\r\n" + b"y" * n


def retained(obj):
    """(total length, total sys.getsizeof) of every bytes / bytearray reachable from obj through the attributes of
    objects whose class is defined in the library, and through lists / tuples / dicts / sets - what the reader keeps
    alive, measured without naming any private attribute"""
    seen = set()
    total_len = total_size = 0
    stack = [obj]
    while stack:
        o = stack.pop()
        if id(o) in seen:
            continue
        seen.add(id(o))
        if isinstance(o, (bytes, bytearray, memoryview)):
            total_len += len(o)
            total_size += sys.getsizeof(o)
        elif isinstance(o, (list, tuple, set, frozenset)):
            stack.extend(o)
        elif isinstance(o, dict):
            stack.extend(o.values())
        elif type(o).__module__.startswith("han."):
            d = getattr(o, "__dict__", None)
            if d:
                stack.extend(d.values())
            for name in getattr(type(o), "__slots__", ()):
                if hasattr(o, name):
                    stack.append(getattr(o, name))
    return total_len, total_size


def _model_vs_impl(res, tier, rng):
    """logical sizes after every call: real reader vs model (the `@state` part of the renderings)"""
    n = 6000 if tier == "quick" else 40000
    cases, meta = [], []
    for cfg in H.CFGS:
        for name, data in hdlc_patterns(rng, n):
            for cs in (1, 64, 1500):
                if cs == 1 and len(data) > 3000:
                    d = data[:3000]
                else:
                    d = data
                cases.append((cfg, [d[i:i + cs] for i in range(0, len(d), cs)]))
                meta.append(name)
    for (cfg, chs), name, (mcalls, runeq) in zip(cases, meta, H.model_read(cases)):
        icalls, exc = H.impl_read(cfg, chs)
        res.evaluations += 1
        case = {"op": "hdlc.read", "cfg": list(cfg), "pattern": name, "chunk": len(chs[0]), "calls": len(chs)}
        if exc:
            res.prop_failure(case, f"read() raised {exc}", "hdlc_model_vs_impl")
        elif "?" not in "".join(icalls) and icalls != mcalls:
            k = next(i for i, (x, y) in enumerate(zip(icalls, mcalls)) if x != y)
            res.tie_break(case, icalls[k][-80:], mcalls[k][-80:], "hdlc_model_vs_impl")
        res.nontriv(("h", cfg, name, len(chs[0])))
        res.count("hdlc_model_vs_impl")
    cases, meta = [], []
    for name, data in p1_patterns(rng, n):
        for cs in (1, 100, 5000):
            d = data[:3000] if cs == 1 else data
            cases.append([d[i:i + cs] for i in range(0, len(d), cs)])
            meta.append(name)
    for chs, name, mcalls in zip(cases, meta, P.model_read(cases)):
        icalls = P.impl_read(chs)
        res.evaluations += 1
        case = {"op": "p1.read", "pattern": name, "chunk": len(chs[0]), "calls": len(chs)}
        if icalls and icalls[-1].startswith("EXC"):
            res.prop_failure(case, f"read() raised {icalls[-1]}", "p1_model_vs_impl")
        elif "?" not in "".join(icalls) and icalls != mcalls:
            k = next((i for i, (x, y) in enumerate(zip(icalls, mcalls)) if x != y), 0)
            res.tie_break(case, icalls[k][-80:], mcalls[k][-80:], "p1_model_vs_impl")
        res.nontriv(("p", name, len(chs[0])))
        res.count("p1_model_vs_impl")


def _soak(res, tier, rng):
    from han.dlde import ModeDReader
    from han.hdlc import HdlcFrameReader
    logging.disable(logging.CRITICAL)
    total = (1 << 20) if tier == "quick" else (8 << 20)
    worst_h = worst_p = 0
    for cfg in H.CFGS:
        for name, data in hdlc_patterns(rng, total // 4 if tier == "quick" else total):
            for cs in ((64, 4096) if tier == "quick" else (1, 64, 4096, 65536)):
                if cs == 1:
                    data = data[:200000]
                r = HdlcFrameReader(bool(cfg[0]), bool(cfg[1]))
                ncalls = (len(data) + cs - 1) // cs
                every = max(1, ncalls // 300)
                for k, i in enumerate(range(0, len(data), cs)):
                    r.read(data[i:i + cs])
                    if k % every == 0 or k == ncalls - 1:
                        logical, deep = retained(r)
                        worst_h = max(worst_h, logical)
                        res.evaluations += 1
                        case = {"op": "soak.hdlc", "cfg": list(cfg), "pattern": name, "chunk": cs, "fed": i + cs}
                        if logical > HDLC_BOUND:
                            res.prop_failure(case, f"reader retains {logical} octets (> {HDLC_BOUND}) after {i + cs} bytes", "soak_hdlc")
                            break
                        if deep > 1.25 * HDLC_BOUND + 4096:
                            res.prop_failure(case, f"reader containers occupy {deep} bytes after {i + cs} bytes", "soak_hdlc")
                            break
                res.nontriv(("sh", cfg, name, cs))
                res.count("soak_hdlc_runs")
    for name, data in p1_patterns(rng, total):
        for cs in ((1, 64, 4096) if tier == "quick" else (1, 64, 4096, 65536)):
            d = data[:100000] if cs == 1 else data
            r = ModeDReader()
            ncalls = (len(d) + cs - 1) // cs
            every = max(1, ncalls // 300)
            for k, i in enumerate(range(0, len(d), cs)):
                chunk = d[i:i + cs]
                r.read(chunk)
                if k % every == 0 or k == ncalls - 1:
                    logical, deep = retained(r)
                    bound = 2 * 8191 + 2 * len(chunk)
                    worst_p = max(worst_p, logical - 2 * len(chunk))
                    res.evaluations += 1
                    case = {"op": "soak.p1", "pattern": name, "chunk": cs, "fed": i + cs}
                    if logical > bound:
                        res.prop_failure(case, f"reader retains {logical} octets (> 2*8191 + 2*chunk = {bound}) after {i + cs} bytes", "soak_p1")
                        break
                    if deep > 1.25 * bound + 4096:
                        res.prop_failure(case, f"reader containers occupy {deep} bytes after {i + cs} bytes", "soak_p1")
                        break
            res.nontriv(("sp", name, cs))
            res.count("soak_p1_runs")
    res.extra["worst_logical_hdlc"] = worst_h
    res.extra["worst_logical_p1_minus_2chunk"] = worst_p
    res.extra["soak_bytes_per_pattern"] = total


def run(res, tier, seed, widen=1):
    rng = lib.rng_for(seed, "C19")
    res.rule = ("stream patterns of the quantifier (all flags, flag+junk, valid frames, never-ending frame/escapes, over-long frame then "
                "flags, random; '/' lines without '!', '/' without LF, identification + endless lines, valid readouts, random ASCII) x chunk "
                "sizes; (a) logical sizes after every call: real reader vs model; (b) soak: logical size vs the theorem's bound and container "
                "sizes vs the affine envelope; non-trivial = distinct (reader, cfg, pattern, chunk size)")
    _model_vs_impl(res, tier, rng)
    _soak(res, tier, rng)
    res.sample({"patterns_hdlc": [n for n, _ in hdlc_patterns(rng, 10)], "patterns_p1": [n for n, _ in p1_patterns(rng, 100)]})


def search(res, tier, seed):
    pass  # the soak already evaluates the property on the implementation


def replay(payload, res):
    from han.dlde import ModeDReader
    from han.hdlc import HdlcFrameReader
    c = payload["case"]
    rng = lib.rng_for(payload.get("seed", 0), "C19")
    print("replay: re-run the check with the same seed; case:", c)
    run(res, payload.get("tier", "quick"), payload.get("seed", 0))
    print("REPLAY", "fails" if res.prop_failures else "passes")
    return 1 if res.prop_failures else 0
