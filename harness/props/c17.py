"""C17 — ConnectionManager: one connection at a time, and close() really stops it.
The real manager runs on a deterministic virtual-time event loop with a scripted fake factory;
its observable trace is (a) judged directly against the statement and (b) checked for inclusion
in the runs of the Lean transition system (driver op `connmgr`)."""
from __future__ import annotations

import lib
import vloop

ASSUMPTIONS = ["asyncio is modelled as a cooperative scheduler whose atomic unit is one task step; the one-iteration latency between "
               "cancelling a task and its disappearance is not modelled (the harness tolerates one extra pending task)",
               "threads, real sockets, cancellation delivered inside third-party factories and wall-clock time are outside the model"]


def tokens(events):
    ids = {}
    out = []
    for t, _it, kind, arg in events:
        t = int(round(t))
        if kind == "attempt":
            out.append(f"{t}:A")
        elif kind == "failed":
            out.append(f"{t}:F")
        elif kind == "obtained":
            ids[arg] = len(ids)
            out.append(f"{t}:O{ids[arg]}")
        elif kind == "closed":
            out.append(f"{t}:C{ids.get(arg, 99)}")
        elif kind == "lost":
            out.append(f"{t}:L{ids.get(arg, 99)}")
        elif kind == "close_called":
            out.append(f"{t}:X")
        elif kind == "loop_done":
            out.append(f"{t}:D")
    return out


def oracle(script, r, closed_run, threshold, sleep_sec, max_delay):
    """C17/C18 judged directly on the implementation's trace; returns why-not or None"""
    ev = r["events"]
    live = set()
    tclose = None
    last_fail_time = None
    nfail = 0
    losses = []
    for t, it, kind, arg in ev:
        if kind == "attempt":
            if live:
                return f"attempt {arg} started at t={t} while connection {sorted(live)} is still live"
            if tclose is not None:      # events are recorded in execution order
                return f"connection attempt started at t={t} (loop iteration {it}) after close() at t={tclose[0]} (iteration {tclose[1]})"
            if last_fail_time is not None and nfail > 0:
                need = min(2 ** (nfail - 1), max_delay)
                if t < last_fail_time + need:
                    return f"attempt at t={t} sooner than {need}s after the {nfail}-th consecutive failure at t={last_fail_time}"
                upper = max(need, sleep_sec)
                if t > last_fail_time + upper:
                    return f"attempt at t={t} later than max(back-off, breaker sleep)={upper}s after the failure at t={last_fail_time}"
        elif kind == "failed":
            nfail += 1
            last_fail_time = t
        elif kind == "obtained":
            live.add(arg)
            if len(live) > 1:
                return f"two live connections {sorted(live)} at t={t}"
            nfail = 0
            last_fail_time = None
        elif kind in ("closed", "lost"):
            live.discard(arg)
            if kind == "lost":
                losses.append(t)
        elif kind == "close_called":
            tclose = (t, it)
    if closed_run:
        ld = [e for e in ev if e[2] == "loop_done"]
        if not ld:
            return "connect_loop did not return after close()"
        if tclose is not None and ld[0][0] != tclose[0]:
            return f"connect_loop returned at t={ld[0][0]}, close() was called at t={tclose[0]} (waited out a back-off or attempt)"
        if live:
            return f"transport(s) {sorted(live)} obtained by the manager were never closed"
        if r["pending_end"] > 0:
            return f"{r['pending_end']} tasks still pending after close()"
    else:
        # keeps reconnecting: every failure and every loss is followed by another attempt (until the script ends)
        n_att = sum(1 for e in ev if e[2] == "attempt")
        n_end = sum(1 for e in ev if e[2] in ("failed", "lost"))
        if n_att < min(len(script), n_end + 1):
            return f"only {n_att} attempts for {n_end} failures/losses"
    if r["max_pending"] > 4:
        return f"{r['max_pending']} pending tasks (bounded number expected)"
    if r["exception"]:
        return f"connect_loop raised {r['exception']}"
    return None


def gen_script(rng, n=None):
    n = rng.randint(1, 5) if n is None else n
    s = []
    for _ in range(n):
        s.append((rng.choice(["ok", "fail", "fail"]), rng.choice([0, 0, 2, 3]), rng.choice([None, 1, 2, 7, 20])))
    s.append(("ok", rng.choice([0, 1]), None))
    return s


def run(res, tier, seed, widen=1):
    rng = lib.rng_for(seed, "C17")
    res.rule = ("scenarios: per-attempt outcome in {succeed, fail, succeed slowly, fail slowly} for up to 5 attempts x connection lifetime in "
                "{stays up, lost after t} x configured threshold/sleep/max_delay; close() injected at EVERY event-loop iteration of the run; "
                "plus runs of thousands of reconnect cycles; executed on a deterministic virtual-time loop; non-trivial = distinct (script, close iteration)")
    nscripts = (25 if tier == "quick" else 400) * widen
    traces = []
    for si in range(nscripts):
        script = gen_script(rng)
        thr, slp, md = rng.choice([(5, 5, 60), (5, 5, 60), (2, 9, 4), (10, 1, 3)])
        base = vloop.run_scenario(script, threshold=thr, sleep_sec=slp, max_delay=md)
        res.evaluations += 1
        case = {"op": "connmgr", "script": script, "close_at": None, "cfg": [thr, slp, md]}
        why = oracle(script, base, False, thr, slp, md)
        if why:
            res.prop_failure(case, why, "no_close")
        traces.append((case, base, (md, thr, slp)))
        res.nontriv((tuple(script), None))
        iters = list(range(1, base["iters"] + 1))
        if tier == "quick" and len(iters) > 45:
            iters = sorted(rng.sample(iters, 45))
        for k in iters:
            r = vloop.run_scenario(script, close_at=k, threshold=thr, sleep_sec=slp, max_delay=md)
            res.evaluations += 1
            case = {"op": "connmgr", "script": script, "close_at": k, "cfg": [thr, slp, md]}
            if not any(e[2] == "close_called" for e in r["events"]):
                continue
            why = oracle(script, r, True, thr, slp, md)
            if why:
                res.prop_failure(case, why, "close_every_iteration")
            traces.append((case, r, (md, thr, slp)))
            res.nontriv((tuple(script), k))
            res.count("close_injected")
    # the library's own protocol object between transport and manager: losses signalled through connection_lost(), also
    # before the factory has returned and in the loop iteration right after it (before the manager waits for `done`)
    for _ in range((60 if tier == "quick" else 1500) * widen):
        n = rng.randint(1, 5)
        script = []
        for _ in range(n):
            if rng.random() < 0.3:
                script.append(("fail", rng.choice([0, 0, 1, 3]), None))
            else:
                script.append(("ok", rng.choice([0, 0, 1, 2]), rng.choice([0, "soon", "soon", 1, 3, 7])))
        script.append(("ok", 0, None))
        thr, slp, md = rng.choice([(5, 5, 60), (10, 2, 60), (1, 1, 4)])
        r = vloop.run_scenario(script, threshold=thr, sleep_sec=slp, max_delay=md, real_protocol=True)
        res.evaluations += 1
        case = {"op": "connmgr", "script": [list(x) for x in script], "close_at": None, "cfg": [thr, slp, md], "real_protocol": True}
        why = oracle(script, r, False, thr, slp, md)
        if why:
            res.prop_failure(case, why, "real_protocol")
        res.nontriv((tuple(script), "real"))
        k = rng.randint(1, max(1, r["iters"]))
        r2 = vloop.run_scenario(script, close_at=k, threshold=thr, sleep_sec=slp, max_delay=md, real_protocol=True)
        res.evaluations += 1
        if any(e[2] == "close_called" for e in r2["events"]):
            case2 = dict(case, close_at=k)
            why = oracle(script, r2, True, thr, slp, md)
            if why:
                res.prop_failure(case2, why, "real_protocol")
        res.count("real_protocol")
    # trace inclusion in the Lean transition system
    reqs = [f"connmgr {md} {thr} {slp} {','.join(tokens(r['events'])) or '.'}" for _, r, (md, thr, slp) in traces]
    for (case, r, _), rq, a in zip(traces, reqs, lib.drive(reqs)):
        if a != "1":
            res.tie_break(case, rq[:400], "trace not accepted by the model", "trace_inclusion")
        res.count("traces_validated_against_model")
    res.extra["traces_validated_against_impl"] = len(traces)
    # thousands of reconnect cycles: bounded pending tasks
    for cycles, outcome in ((3000 if tier == "quick" else 20000, "fail"), (1500 if tier == "quick" else 8000, "ok")):
        script = [(outcome, 0, 1 if outcome == "ok" else None)] * cycles + [("ok", 0, None)]
        r = vloop.run_scenario(script, threshold=1, sleep_sec=1, max_delay=1, max_iters=cycles * 60 + 2000)
        res.evaluations += 1
        case = {"op": "connmgr", "script": f"{cycles} x {outcome}", "close_at": None, "cfg": [1, 1, 1]}
        n_att = sum(1 for e in r["events"] if e[2] == "attempt")
        if r["max_pending"] > 4:
            res.prop_failure(case, f"{r['max_pending']} pending tasks after {n_att} reconnect cycles", "many_cycles")
        if n_att < cycles:
            res.prop_failure(case, f"stopped reconnecting after {n_att} attempts", "many_cycles")
        res.extra[f"max_pending_{cycles}_{outcome}"] = r["max_pending"]
        res.count("many_cycles")
    if traces:
        res.sample({"script": traces[0][0]["script"], "trace": tokens(traces[0][1]["events"])[:20]})
        res.sample({"script": traces[-1][0]["script"], "close_at": traces[-1][0]["close_at"], "trace": tokens(traces[-1][1]["events"])[:20]})


def search(res, tier, seed):
    run(res, "quick", seed + 7919, widen=2)


def replay(payload, res):
    c = payload["case"]
    if isinstance(c["script"], str):       # "<n> x fail" / "<n> x ok": thousands of reconnect cycles, bounded pending tasks
        n, outcome = c["script"].split(" x ")
        cycles = int(n)
        script = [(outcome, 0, 1 if outcome == "ok" else None)] * cycles + [("ok", 0, None)]
        r = vloop.run_scenario(script, threshold=1, sleep_sec=1, max_delay=1, max_iters=cycles * 60 + 2000)
        n_att = sum(1 for e in r["events"] if e[2] == "attempt")
        why = []
        if r["max_pending"] > 4:
            why.append(f"{r['max_pending']} pending tasks after {n_att} reconnect cycles")
        if n_att < cycles:
            why.append(f"stopped reconnecting after {n_att} attempts")
        print("REPLAY", "fails: " + "; ".join(why) if why else "passes")
        return 1 if why else 0
    script = [tuple(x) for x in c["script"]]
    thr, slp, md = c["cfg"]
    r = vloop.run_scenario(script, close_at=c["close_at"], threshold=thr, sleep_sec=slp, max_delay=md, real_protocol=bool(c.get("real_protocol")))
    print("trace:", tokens(r["events"]), {k: v for k, v in r.items() if k != "events"})
    why = oracle(script, r, c["close_at"] is not None, thr, slp, md)
    print("REPLAY", "fails: " + why if why else "passes")
    return 1 if why else 0
