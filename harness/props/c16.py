"""C16 — readers resynchronise after noise with bounded loss (HDLC with/without stuffing, P1)."""
from __future__ import annotations

import hdlc_common as H
import lib
import p1_common as P
from props import c02 as C02

ASSUMPTIONS = ["clean messages are produced by the Lean spec encoders; noise prefixes come from the families named in the quantifier",
               "without octet stuffing the clean frames are generated flag-free (domain of the statement)"]


def hdlc_pre(rng, cfg):
    k = rng.randrange(8)
    if k == 0:
        return b""
    if k == 1:
        return bytes(rng.randrange(256) for _ in range(rng.choice([1, 5, 40, 300])))
    if k == 2:   # looks like a frame start
        f = H.make_frame(rng)
        return b"\x7e" + f[:rng.randrange(1, len(f))]
    if k == 3:   # ends in an escape octet
        return bytes(rng.choice([0x7E, 0xA0, 0x01, 0x7D]) for _ in range(rng.randrange(6))) + b"\x7d"
    if k == 4:   # abort sequences
        return b"\x7e" + H.make_frame(rng)[:8] + b"\x7d\x7e" + bytes(rng.randrange(256) for _ in range(rng.randrange(4)))
    if k == 5:   # > 2047 octets of garbage inside a frame
        return b"\x7e\xa0\x20\x03\x21\x13" + bytes(rng.choice([1, 2, 3, 0x55]) for _ in range(rng.choice([2041, 2045, 2100])))
    if k == 6:   # lone escape after a flag (regression: pending escape across an empty frame)
        return b"\x7e\x7d"
    return b"\x7e" + H.stuff(H.make_frame(rng)) + bytes(rng.choice([0x7E, 0x7D]) for _ in range(rng.randrange(3)))


def _hdlc_cases(res, cases, family):
    """cases: (cfg, pre, descs, closing, cuts)"""
    reqs = []
    for cfg, pre, descs, closing, cuts in cases:
        fr = ";".join(C02.desc_arg(d) for d in descs)
        ct = ",".join(map(str, cuts)) if cuts else "."
        reqs.append(f"hdlc.clean {cfg[0]} {cfg[1]} {lib.hexs(pre)} {fr} {closing} {ct}")
    for (cfg, pre, descs, closing, cuts), req, a in zip(cases, reqs, lib.drive(reqs)):
        parts = a.split(" | ")
        if len(parts) != 5:
            raise lib.ToolFailure(f"driver: {a[:200]}")
        wire_hex, model, spec, dom, chunks_s = parts
        chunks = [bytes.fromhex(c) if c != "-" else b"" for c in chunks_s.split(",")]
        icalls, exc = H.impl_read(cfg, chunks, with_state=False)
        res.evaluations += 1
        case = {"op": "hdlc.clean", "request": req}
        if exc:
            res.prop_failure(case, f"read() raised {exc}", family)
            continue
        impl = H.frames_of(icalls)
        if impl != (model.split(" ") if model != "." else []):
            res.tie_break(case, impl[-3:], model[-300:], family)
        want = spec.split(" ")
        valid = [f for f in impl if f.split(":")[1] == "1"]
        # longest suffix of the sent frames that is a suffix of the valid frames delivered
        k = len(want)
        while k > 0 and valid[len(valid) - k:] != want[len(want) - k:]:
            k -= 1
        lost = len(want) - k
        if cfg[0] == 1:
            if lost > 1:
                res.prop_failure(case, f"stuffing on: {lost} of {len(want)} clean frames after the noise were not delivered (at most the first may be lost)", family)
        else:
            sizes = [d[6] + len(bytes.fromhex(w.split(':')[0])) for d, w in zip(descs, want)]
            L = max(sizes)
            if sum(sizes[:lost]) > 2047 + 2 * L:
                res.prop_failure(case, f"stuffing off: first {lost} clean frames ({sum(sizes[:lost])} octets) lost, more than 2047 + one frame", family)
        res.count("hdlc_lost_%d" % min(lost, 3))
        res.nontriv((cfg, wire_hex, tuple(cuts)))
        res.count(family)
    if cases:
        res.sample({"family": family, "request": reqs[len(reqs) // 2][:240]})


def p1_pre(rng):
    k = rng.randrange(9)
    if k == 0:
        return b""
    if k >= 7:   # a COMPLETE readout with line noise in a data line or the end line (bit 7 set, or any octet), ident line intact
        r = bytearray(P.gen_readout(rng, nlines=rng.choice([1, 3, 5])))
        lf = r.find(b"\n") + 1
        for _ in range(rng.choice([1, 1, 2])):
            pos = rng.randrange(lf, len(r) - 2)
            if r[pos] not in (0x21, 0x0A, 0x0D):
                r[pos] = (r[pos] | 0x80) if rng.random() < 0.7 else rng.randrange(256)
        return bytes(r)
    if k == 1:
        return P.gen_noise(rng)
    if k == 2:   # truncated readout
        r = P.gen_readout(rng)
        return r[:rng.randrange(1, len(r))]
    if k == 3:   # identification line never followed by an end line, then a partial line
        return P.gen_ident(rng) + b"".join(P.gen_data_lines(rng, 3)) + b"1-0:1.7"
    if k == 4:   # huge unterminated readout (guard)
        return P.gen_ident(rng) + b"x" * rng.choice([8100, 8192, 9000]) + rng.choice([b"", b"\r\n"])
    if k == 5:
        return b"/" + bytes(rng.choice(b"ABC5\\x \xff") for _ in range(rng.randrange(10)))
    return bytes(rng.randrange(256) for _ in range(rng.choice([3, 30, 300])))


def _p1_cases(res, cases, family):
    reqs = [P.clean_request(pre, ds, cuts) for pre, ds, cuts in cases]
    for (pre, ds, cuts), req, a in zip(cases, reqs, lib.drive(reqs)):
        wire_hex, model, spec, dom, chunks = P.parse_clean_answer(a)
        calls = P.impl_read(chunks, with_state=False)
        res.evaluations += 1
        case = {"op": "p1.clean", "request": req}
        if calls and calls[-1].startswith("EXC"):
            res.prop_failure(case, f"read() raised {calls[-1]}", family)
            continue
        impl = P.readouts_of(calls)
        if impl != model:
            res.tie_break(case, impl[-2:], model[-2:] if isinstance(model, list) else model, family)
        valid = [r for r in impl if r.split(":")[1] == "1"]
        k = len(spec)
        while k > 0 and valid[len(valid) - k:] != spec[len(spec) - k:]:
            k -= 1
        lost = len(spec) - k
        if lost > 1:
            res.prop_failure(case, f"{lost} of {len(spec)} clean readouts after the noise were not delivered (at most the first may be lost)", family)
        res.count("p1_lost_%d" % min(lost, 3))
        res.nontriv((wire_hex, tuple(cuts)))
        res.count(family)
    if cases:
        res.sample({"family": family, "request": reqs[len(reqs) // 2][:240]})


def run(res, tier, seed, widen=1):
    rng = lib.rng_for(seed, "C16")
    res.rule = ("noise prefix (random bytes, look-alike starts, ending in an escape octet, truncated messages, abort sequences, > 2047 garbage, "
                "over-long unterminated readouts) followed by 2..40 clean messages from the Lean spec encoders x random chunkings x 4 HDLC "
                "configurations / the P1 reader; non-trivial = distinct (stream, cuts)")
    n = (1200 if tier == "quick" else 40000) * widen
    cases = []
    for i in range(n):
        cfg = H.CFGS[i % 4]
        nfr = rng.choice([2, 2, 3, 5, 12, 40]) if rng.random() < 0.9 else 40
        descs = []
        for _ in range(nfr):
            d = C02.gen_desc(rng, cfg, boundary=rng.random() < 0.06)    # now and then a frame near the 11-bit maximum
            if cfg[0] == 0:
                # domain of the statement without stuffing: the encoded frame contains no flag octet and,
                # with abort detection, does not end in an escape octet
                for _ in range(200):
                    enc = H.encode_desc(d)
                    if 0x7E not in enc and not (cfg[1] == 1 and enc[-1] == 0x7D):
                        break
                    d = C02.gen_desc(rng, cfg)
                    d = (d[0], d[1], d[2], d[3], d[4], bytes(b if b != 0x7E else 0x41 for b in d[5]), d[6])
                else:
                    continue
            descs.append(d)
        if len(descs) < 2:
            continue
        pre = hdlc_pre(rng, cfg)
        est = len(pre) + sum(2 * (len(d[5]) + 14) for d in descs)
        cuts = sorted(set(rng.randrange(1, max(2, est // 2)) for _ in range(rng.choice([0, 1, 3, 8]))))
        cases.append((cfg, pre, descs, rng.choice([1, 2]), cuts))
    for i in range(0, len(cases), 1500):
        _hdlc_cases(res, cases[i:i + 1500], "hdlc")
    n = (400 if tier == "quick" else 12000) * widen
    cases = []
    for i in range(n):
        ds = [P.gen_desc(rng) for _ in range(rng.choice([2, 2, 3, 6, 15]))]
        pre = p1_pre(rng)
        est = len(pre) + sum(40 + sum(len(l) + 2 for l in d[4]) for d in ds)
        cuts = sorted(set(rng.randrange(1, max(2, est)) for _ in range(rng.choice([0, 1, 3, 8, 20]))))
        cases.append((pre, ds, cuts))
    for i in range(0, len(cases), 400):
        _p1_cases(res, cases[i:i + 400], "p1")


def search(res, tier, seed):
    run(res, "quick", seed + 7919, widen=3)


def replay(payload, res):
    req = payload["case"]["request"]
    if req.startswith("hdlc.clean"):
        a = req.split(" ")
        # re-run through the same code path
        cfg = (int(a[1]), int(a[2]))
        ans = lib.drive([req])[0].split(" | ")
        chunks = [bytes.fromhex(c) if c != "-" else b"" for c in ans[4].split(",")]
        icalls, exc = H.impl_read(cfg, chunks, with_state=False)
        valid = [f for f in H.frames_of(icalls) if f.split(":")[1] == "1"]
        want = ans[2].split(" ")
        k = len(want)
        while k > 0 and valid[len(valid) - k:] != want[len(want) - k:]:
            k -= 1
        print("sent", len(want), "lost", len(want) - k, "exception", exc)
        ok = exc is None and (len(want) - k <= 1 or cfg[0] == 0)
    else:
        wire_hex, model, spec, dom, chunks = P.parse_clean_answer(lib.drive([req])[0])
        impl = P.readouts_of(P.impl_read(chunks, with_state=False))
        valid = [r for r in impl if r.split(":")[1] == "1"]
        k = len(spec)
        while k > 0 and valid[len(valid) - k:] != spec[len(spec) - k:]:
            k -= 1
        print("sent", len(spec), "lost", len(spec) - k)
        ok = len(spec) - k <= 1
    print("REPLAY", "passes" if ok else "fails")
    return 0 if ok else 1
