"""C05 — every P1 readout on a clean stream is delivered once, however it is chunked.
Wire bytes come from the Lean spec encoder (`ReadoutDesc.encode`)."""
from __future__ import annotations

import lib
import p1_common as P

ASSUMPTIONS = ["readouts are generated inside the domain of the statement (decidable WF, size <= guard; checked by the driver)"]


def _run_cases(res, cases, family, beyond_theorem=False):
    """cases: (tail, descs, cuts); beyond_theorem: the tail contains a start character (outside the hypotheses of
    p1_clean_delivered, whose tail is '/'-free) — the property is still judged on the implementation"""
    reqs = [P.clean_request(t, ds, cuts) for t, ds, cuts in cases]
    for (tail, ds, cuts), req, a in zip(cases, reqs, lib.drive(reqs)):
        wire_hex, model, spec, dom, chunks = P.parse_clean_answer(a)
        calls = P.impl_read(chunks, with_state=False)
        res.evaluations += 1
        case = {"op": "p1.clean", "request": req}
        if calls and calls[-1].startswith("EXC"):
            res.prop_failure(case, f"read() raised {calls[-1]}", family)
            continue
        impl = P.readouts_of(calls)
        if impl != model:
            res.tie_break(case, impl[:4], model[:4] if isinstance(model, list) else model, family)
        if dom or beyond_theorem:
            if impl != spec:
                res.prop_failure(case, f"clean stream of {len(spec)} readouts ({len(wire_hex)//2} bytes, {len(chunks)} chunks): delivered {len(impl)}; "
                                       f"first difference at index {next((i for i,(x,y) in enumerate(zip(impl,spec)) if x!=y), min(len(impl),len(spec)))}", family)
            res.nontriv((wire_hex, tuple(cuts)))
            res.count("in_domain")
            res.count("readouts_in_domain", len(ds))
            res.count("stream_bytes", len(wire_hex) // 2)
        else:
            res.count("out_of_domain_control")
        res.count(family)
    if cases:
        res.sample({"family": family, "request": reqs[len(reqs) // 2][:300]})


def fixed_cuts(total, size):
    return list(range(size, total, size))


def structural_cuts(rng, tail, ds):
    """cuts placed relative to the structure of the stream: a few bytes into an identification line, right after a
    line end, around '!' — optionally after a long stretch without any cut (one big read() call)"""
    pos = len(tail)
    marks = []
    for d in ds:
        man, baud, escs, ident, lines, c = d
        ident_len = 1 + 3 + 1 + 2 * len(escs) + len(ident) + 2
        body = ident_len + sum(len(l) + 2 for l in lines)
        total = body + 1 + (4 if c != "N" else 0) + 2
        marks.append((pos, ident_len, body, total))
        pos += total
    cuts = set()
    mode = rng.randrange(3)
    start = rng.randrange(len(marks)) if mode else 0
    for k, (p0, il, body, total) in enumerate(marks):
        if k < start:
            continue          # one big call up to here
        r = rng.randrange(5)
        if r == 0:
            cuts.add(p0 + rng.randint(1, max(1, il - 1)))       # inside the identification line
        elif r == 1:
            cuts.add(p0 + il)                                     # right after it
        elif r == 2:
            cuts.add(p0 + body + rng.choice([0, 1, 2]))          # around '!'
        elif r == 3:
            cuts.add(p0 + total)                                  # between two readouts
        if mode == 2 and k == start:
            cuts.add(p0 + rng.randint(1, max(1, il - 1)))
    return sorted(c for c in cuts if 0 < c < pos)


def gen_case(rng, big=False, nread=None):
    n = nread if nread is not None else rng.choice([1, 1, 2, 3, 6])
    ds = [P.gen_desc(rng, big=big and rng.random() < 0.5) for _ in range(n)]
    tail = b""
    if rng.random() < 0.4:
        t = P.gen_readout(rng)
        tail = t[rng.randrange(1, len(t)):]
        if b"/" in tail:
            tail = tail.replace(b"/", b"_")
    est = len(tail) + sum(40 + sum(len(l) + 2 for l in d[4]) for d in ds)
    mode = rng.randrange(7)
    if mode >= 5:
        cuts = structural_cuts(rng, tail, ds)
    elif mode == 0:
        cuts = []
    elif mode == 1:
        cuts = fixed_cuts(est + 64, rng.choice([1, 7, 100, 4096]) if est < 3000 else rng.choice([7, 100, 1000, 4096]))
    else:
        cuts = sorted(set(rng.randrange(1, max(2, est)) for _ in range(rng.choice([1, 2, 5, 12]))))
    return (tail, ds, cuts)


def run(res, tier, seed, widen=1):
    rng = lib.rng_for(seed, "C05")
    res.rule = ("readout descriptors (identification lines per IEC 62056-21, 0..n data lines, with/without checksum in either case, up to "
                "~8 KiB) -> Lean spec encoder; optional leading readout tail; chunkings: none, fixed sizes {1,7,100,1000,4096}, random cuts; "
                "non-trivial = distinct in-domain (stream, cuts)")
    n = (500 if tier == "quick" else 12000) * widen
    cases = [gen_case(rng) for _ in range(n)]
    cases += [gen_case(rng, big=True, nread=rng.choice([1, 2, 4])) for _ in range(40 if tier == "quick" else 1500)]
    # long streams (hundreds of KiB in thorough)
    for _ in range(2 if tier == "quick" else 30):
        cases.append(gen_case(rng, big=True, nread=(12 if tier == "quick" else 60)))
    # one big read() call (> 8 KiB) that ends a few bytes into the next identification line
    for _ in range(60 if tier == "quick" else 1500):
        ds = [P.gen_desc(rng, big=rng.random() < 0.3) for _ in range(rng.choice([20, 40, 60]))]
        cases.append((b"", ds, structural_cuts(rng, b"", ds)))
    for i in range(0, len(cases), 500):
        _run_cases(res, cases[i:i + 500], "generated")
    # the reader joined inside an identification line whose id contains '/' (legal for the code's pattern, not for
    # IEC 62056-21): the tail then contains a start character that does not begin a readout
    cases = []
    for _ in range(150 if tier == "quick" else 4000):
        ds = [P.gen_desc(rng) for _ in range(rng.choice([2, 3, 5]))]
        first = P.gen_readout(rng)
        lf = first.find(b"\n")
        ident = bytearray(first[:lf + 1])
        if len(ident) > 8:
            ident[rng.randrange(6, len(ident) - 2)] = 0x2F
        t = bytes(ident) + first[lf + 1:]
        tail = t[rng.randrange(1, max(2, t.rfind(b"/") + 1)):]
        from props.c04 import wf_ident
        k0 = tail.find(b"/")
        if k0 >= 0 and wf_ident(tail[k0:tail.find(b"\n", k0) if b"\n" in tail[k0:] else len(tail)].strip()):
            continue    # the tail itself looks like the start of a readout: not a clean stream in the sense of C05
        est = len(tail) + sum(40 + sum(len(l) + 2 for l in d[4]) for d in ds)
        k = rng.randrange(3)
        if k == 0:
            cuts = fixed_cuts(est + 64, rng.choice([3, 7, 11, 17, 29]))
        else:
            cuts = sorted(set(rng.randrange(1, max(2, est)) for _ in range(rng.choice([1, 2, 4, 9]))))
        cases.append((tail, ds, cuts))
    for i in range(0, len(cases), 500):
        _run_cases(res, cases[i:i + 500], "tail_with_start_character", beyond_theorem=True)


def search(res, tier, seed):
    run(res, "quick", seed + 7919, widen=3)


def replay(payload, res):
    req = payload["case"]["request"]
    a = lib.drive([req])[0]
    wire_hex, model, spec, dom, chunks = P.parse_clean_answer(a)
    calls = P.impl_read(chunks, with_state=False)
    impl = P.readouts_of(calls)
    ok = not (calls and calls[-1].startswith("EXC")) and (not dom or impl == spec)
    print("sent", len(spec), "delivered", len(impl), "model", len(model) if isinstance(model, list) else model)
    print("REPLAY", "passes" if ok else "fails")
    return 0 if ok else 1
