"""C06 — HDLC reader output does not depend on how the byte stream is chunked."""
from __future__ import annotations

import itertools

import hdlc_common as H
import lib

ASSUMPTIONS = ["the content of the input buffer before the read position is not modelled, only its length"]


def _run_cases(res, cases, family):
    """cases: list of (cfg, stream, [chunkings])"""
    flat = [(cfg, chs) for cfg, _, chunkings in cases for chs in chunkings]
    models = H.model_read(flat)
    k = 0
    for cfg, stream, chunkings in cases:
        outs = []
        for chs in chunkings:
            mcalls, runeq = models[k]
            k += 1
            icalls, exc = H.impl_read(cfg, chs)
            res.evaluations += 1
            case = {"op": "hdlc.read", "cfg": list(cfg), "chunks": [c.hex() for c in chs]}
            if exc:
                res.prop_failure(case, f"read() raised {exc}", family)
                outs.append(None)
                continue
            if not runeq:
                res.tie_break(case, "(model) buffer-level read != per-octet run", "", family)
            if "?" in "".join(icalls):
                cmp_i, cmp_m = H.strip_state(icalls), H.strip_state(mcalls)
                res.count("state_not_observable")
            else:
                cmp_i, cmp_m = icalls, mcalls
            if cmp_i != cmp_m:
                res.tie_break(case, icalls, mcalls, family)
            outs.append(H.frames_of(icalls))
        good = [o for o in outs if o is not None]
        if any(o != good[0] for o in good[1:]):
            j = next(i for i, o in enumerate(outs) if o is not None and o != good[0])
            res.prop_failure({"op": "hdlc.chunking", "cfg": list(cfg), "stream": stream.hex(),
                              "chunks_a": [c.hex() for c in chunkings[0]], "chunks_b": [c.hex() for c in chunkings[j]]},
                             f"different frames for two splittings of the same stream: {good[0]} vs {outs[j]}", family)
        if good and good[0]:
            res.nontriv((cfg, stream))
            res.count("streams_with_frames")
        res.count(family)
    if cases:
        cfg, stream, chunkings = cases[len(cases) // 2]
        res.sample({"family": family, "cfg": list(cfg), "stream": stream.hex()[:120], "chunkings": len(chunkings)})


def all_cutsets(n):
    for k in range(n):
        for cuts in itertools.combinations(range(1, n), k):
            yield list(cuts)


def run(res, tier, seed, widen=1):
    rng = lib.rng_for(seed, "C06")
    res.rule = ("streams from the C01 families (well-formed, bit-flipped, truncated, wrong length, header-only, noise, flag/escape dense) "
                "x 4 configurations x {one chunk, byte-at-a-time, random cuts}; plus all streams up to a small length over "
                "{7E,7D,A0,07,01} x every cut set; non-trivial = distinct (cfg, stream) that produced at least one frame")
    n = (2500 if tier == "quick" else 60000) * widen
    cases = []
    for i in range(n):
        cfg = H.CFGS[i % 4]
        fam, data = H.gen_stream(rng, cfg)
        if not data:
            continue
        cases.append((cfg, data, H.chunkings(rng, data, 3)))
        res.count("fam_" + fam)
    for i in range(0, len(cases), 5000):
        _run_cases(res, cases[i:i + 5000], "generated")
    # over-long frames: more than 2047 octets without a flag, then a flag and a short good frame - in ONE chunk, cut somewhere
    # between octet 2048 and that flag, cut before octet 2048, and in fixed blocks (where the discard happens must not depend
    # on where the chunk ends)
    cases = []
    for i in range((40 if tier == "quick" else 600) * widen):
        cfg = H.CFGS[i % 4]
        ln = rng.choice([2046, 2047, 2048, 2049, 2100, 2600])
        body = bytearray(rng.choice([0xA0, 0x07, 0x41, 0x00, 0xFF, 0x5E]) if rng.random() < 0.5 else rng.choice([x for x in range(256) if x not in (0x7E, 0x7D)])
                         for _ in range(ln))
        if rng.random() < 0.7:
            body[0:2] = bytes([0xA7, 0xFF]) if rng.random() < 0.5 else bytes([0xA0 | rng.randrange(8), rng.randrange(256)])
        if rng.random() < 0.3:
            body[-1] = 0x7D
        good = H.make_frame(rng, info=bytes(rng.randrange(0x20, 0x7A) for _ in range(rng.choice([0, 3, 9]))), dst_len=1, src_len=1, ctl=0x13)
        tail = b"\x7e" + good + b"\x7e" + (good + b"\x7e" if rng.random() < 0.5 else b"")
        data = b"\x7e" + bytes(body) + tail
        inside = rng.randint(min(2050, ln), ln) if ln >= 2049 else ln
        chunkings = [[data], lib.split_at(data, [inside]), lib.split_at(data, [rng.randint(1, 2040)]),
                     [data[j:j + 512] for j in range(0, len(data), 512)], lib.split_at(data, [len(data) - len(tail) + 1])]
        cases.append((cfg, data, chunkings))
    _run_cases(res, cases, "overlong_then_flag")
    # exhaustive small domain
    maxlen = 4 if tier == "quick" else 6
    alpha = [0x7E, 0x7D, 0xA0, 0x07, 0x01]
    cases = []
    for ln in range(1, maxlen + 1):
        for tup in itertools.product(alpha, repeat=ln):
            data = bytes(tup)
            cuts = list(all_cutsets(ln))
            for cfg in H.CFGS:
                cases.append((cfg, data, [lib.split_at(data, c) for c in cuts]))
    for i in range(0, len(cases), 4000):
        _run_cases(res, cases[i:i + 4000], "exhaustive_small")
    res.extra["exhaustive_small_domain"] = f"all streams of length <= {maxlen} over 7E,7D,A0,07,01 x all cut sets x 4 cfgs"


def search(res, tier, seed):
    run(res, "quick", seed + 7919, widen=4)


def replay(payload, res):
    case = payload["case"]
    if case["op"] == "hdlc.chunking":
        data = bytes.fromhex(case["stream"])
        chunkings = [[bytes.fromhex(c) for c in case["chunks_a"]], [bytes.fromhex(c) for c in case["chunks_b"]]]
        _run_cases(res, [(tuple(case["cfg"]), data, chunkings)], "replay")
    else:
        chs = [bytes.fromhex(c) for c in case["chunks"]]
        _run_cases(res, [(tuple(case["cfg"]), b"".join(chs), [chs])], "replay")
    for f in res.prop_failures:
        print("REPLAY property failure:", f["what"])
    for t in res.tie_breaks:
        print("REPLAY impl/model disagreement:", t)
    print("REPLAY", "fails" if res.prop_failures else "passes")
    return 1 if res.prop_failures else 0
