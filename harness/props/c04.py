"""C04 — a P1 readout is reported valid only if its CRC16 and identification check out."""
from __future__ import annotations

import os
import re

import lib
import p1_common as P

ASSUMPTIONS = ["property verdicts on implementation output use a Python transcription of Spec/P1Wire.lean (CRC-16/ARC, IsChecksumText)",
               "int(text, 16), str.strip, bytes.decode and the identification regular expression are modelled (Model/PyStr.lean, Model/P1.lean)"]

CHK = re.compile(rb"^[0-9A-Fa-f]{4}(\r\n|\n)?$")


def wf_ident(line: bytes) -> bool:
    """IEC 62056-21 identification line, written out by hand (independent of the repository's pattern):
    '/', two upper-case letters, one letter, one digit, any number of backslash+word-character escape
    sequences, up to 16 printable characters; the line is given stripped."""
    if len(line) < 5 or line[0:1] != b"/":
        return False
    a, b, c, d = line[1], line[2], line[3], line[4]
    up = lambda x: 65 <= x <= 90
    al = lambda x: up(x) or 97 <= x <= 122
    if not (up(a) and up(b) and al(c) and 48 <= d <= 57):
        return False
    rest = line[5:]
    word = lambda x: al(x) or 48 <= x <= 57 or x == 95
    while len(rest) >= 2 and rest[0] == 92 and word(rest[1]):
        rest = rest[2:]
    return len(rest) <= 16 and all(32 <= x <= 126 for x in rest)


def oracle(b: bytes, rendered: str):
    """C04 as a predicate on what the implementation reported for readout bytes b; returns why-not or None"""
    if rendered.startswith("EXC"):
        return None  # constructor rejected the bytes: not a readout object
    if rendered.startswith("UNSTABLE(") and rendered.endswith(")"):
        a, c = rendered[len("UNSTABLE("):-1].split("|", 1)   # the two accessor passes disagreed: both must obey C04
        return oracle(b, a) or oracle(b, c)
    f = rendered.split(":")
    valid = f[1]
    if valid not in ("0", "1"):
        return f"is_valid raised {valid}"
    r = b.lstrip()
    e = r.find(b"!")
    crc = P.crc16(r[:e + 1])
    after = r[e + 1:]
    if CHK.match(after):
        v = int(after[:4], 16)
        if valid == "1" and v != crc:
            return f"reported valid although checksum text {after[:4]!r} != CRC-16 {crc:04X} of the bytes through '!'"
    if valid == "1":
        lf = r.find(b"\n")
        data_pos = lf + 1
        payload = r[data_pos:e] if e >= data_pos else b""
        got = b"" if f[2] == "-" else bytes.fromhex(f[2])
        if got != payload:
            return f"payload {got!r} is not the bytes between the identification line and '!' ({payload!r})"
        if "/" not in f[5]:
            return f"reported valid although the identification line does not parse ({f[5]})"
        first = r[:data_pos]
        if any(x >= 128 for x in first) or not wf_ident(first.strip(b" \t\n\r\x0b\x0c\x1c\x1d\x1e\x1f")):
            return f"reported valid although the identification line {first!r} is not well-formed"
    return None


def _readouts(res, items, family):
    ans = lib.drive([f"p1.readout {lib.hexs(b)}" for b in items])
    for b, m in zip(items, ans):
        i = P.impl_readout(b)
        res.evaluations += 1
        case = {"op": "p1.readout", "hex": b.hex()}
        if i != m:
            res.tie_break(case, i, m, family)
        why = oracle(b, i)
        if why:
            res.prop_failure(case, why, family)
        if not i.startswith("EXC"):
            res.nontriv(b)
            res.count("valid" if i.split(":")[1] == "1" else "invalid")
        res.count(family)
    if items:
        res.sample({"family": family, "hex": items[len(items) // 2].hex()[:160]})


ACCESSORS = ("identification_line", "is_valid", "payload", "expected_checksum", "end_line", "data_lines", "as_bytes",
             "message_type", "__str__", "__len__", "__repr__")


def _histories(res, items, rng, family):
    """is_valid is a function of the readout bytes: whatever accessors were called before (and however often), every
    observation of is_valid on the same object equals the model's verdict for the bytes, and obeys the oracle."""
    from han.dlde import DataReadout
    ans = lib.drive([f"p1.readout {lib.hexs(b)}" for b in items])
    for b, m in zip(items, ans):
        if m.startswith("EXC"):
            continue
        expect = m.split(":")[1]
        try:
            ro = DataReadout(b)
        except Exception:  # noqa
            continue
        ops = [rng.choice(ACCESSORS) for _ in range(rng.randrange(1, 7))] + ["is_valid"]
        seen = []
        for op in ops:
            try:
                v = getattr(ro, op)
                if callable(v):
                    v = v()
                if op == "is_valid":
                    seen.append("1" if v else "0")
            except Exception as ex:  # noqa
                if op == "is_valid":
                    seen.append(type(ex).__name__)
        res.evaluations += 1
        case = {"op": "p1.readout.history", "hex": b.hex(), "accessors": ops}
        if any(x != expect for x in seen):
            res.tie_break(case, seen, expect, family)
            rendered = ":".join([b.hex(), "1" if "1" in seen else seen[-1], lib.hexs(ro.payload), "-", "0", "x/"])
            if "1" in seen:
                why = oracle(b, P.impl_readout(b).replace(":0:", ":1:", 1)) if expect == "0" else None
                res.prop_failure(case, f"is_valid observed as {seen} along the accessor history {ops}; for these bytes the verdict is {expect}"
                                 + (f" ({why})" if why else ""), family)
        res.count(family)
        res.nontriv((b, tuple(ops)))


def _through_reader(res, rng, n, family="reader_after_damaged"):
    """A readout whose END LINE is damaged (bit 7 set in a checksum character, wrong digits, junk) followed by correctly
    check-summed readouts, through ModeDReader under random chunking: the damaged one must not be reported valid, and
    every following good readout must be handed out valid, byte-identical (exceptions from read() are recorded)."""
    from han.dlde import ModeDReader
    import logging
    logging.disable(logging.CRITICAL)
    for _ in range(n):
        bad = bytearray(P.gen_readout(rng, with_crc=True))
        e = bad.find(b"!")
        k = rng.randrange(4)
        if k == 0 and e + 4 < len(bad):
            bad[e + 1 + rng.randrange(4)] |= 0x80
        elif k == 1 and e + 4 < len(bad):
            bad[e + 1 + rng.randrange(4)] = rng.choice(b"0123456789ABCDEFxg_ ")
        elif k == 2:
            bad[e + 1:e + 5] = bytes(rng.choice([0xFF, 0x80, 0xE9, 0x41]) for _ in range(rng.choice([1, 4, 6])))
        else:
            bad[e + 1:e + 5] = b"%04X" % ((P.crc16(bytes(bad[:e + 1])) + rng.choice([1, 0x100, 0x8000])) & 0xFFFF)
        # "damaged" = the text after '!' does not denote the CRC any more. It may still do so after the replacement
        # (" DEB" for 0DEB, "0xEB" for 00EB: int(text, 16) accepts blanks, a 0x prefix, underscores - see int16_grammar)
        try:
            was_right = int(bytes(bad[e + 1:]).decode("ascii").strip(), 16) == P.crc16(bytes(bad[:e + 1]))
        except ValueError:
            was_right = not bytes(bad[e + 1:]).strip()
        goods = [P.gen_readout(rng, with_crc=True) for _ in range(rng.choice([1, 2, 3]))]
        data = bytes(bad) + b"".join(goods)
        cuts = sorted(rng.sample(range(1, len(data)), min(len(data) - 1, rng.choice([0, 1, 2, 5, 20]))))
        chunks = lib.split_at(data, cuts)
        r = ModeDReader()
        got, errs = [], []
        for ch in chunks:
            try:
                got += r.read(ch)
            except Exception as ex:  # noqa
                errs.append(type(ex).__name__)
        res.evaluations += 1
        case = {"op": "p1.reader", "chunks": [c.hex() for c in chunks]}
        valid = []
        for x in got:
            try:
                if x.is_valid:
                    valid.append(bytes(x.as_bytes))
            except Exception as ex:  # noqa
                errs.append("is_valid:" + type(ex).__name__)
        if not was_right and bytes(bad).lstrip() in valid:
            res.prop_failure(case, "the readout with the damaged end line was reported valid", family)
        missing = [g for g in goods if g.lstrip() not in valid]
        if missing:
            res.prop_failure(case, f"{len(missing)} of {len(goods)} correctly check-summed readouts after a damaged one were not handed out valid"
                             + (f" (read() raised {errs[:3]})" if errs else ""), family)
        res.count(family)
        res.nontriv(("reader", data))


_FIRST_USE_CODE = r"""
import sys, logging
logging.disable(logging.CRITICAL)
from han.dlde import DataReadout, ModeDReader
out = []
for mode, hx in (a.split(":") for a in sys.argv[1:]):
    b = bytes.fromhex(hx)
    try:
        if mode == "R":                 # through the reader, 7 octets per read()
            r, got = ModeDReader(), []
            for i in range(0, len(b), 7):
                got += r.read(b[i:i + 7])
            out.append("".join("1" if x.is_valid else "0" for x in got) or "-")
        else:
            out.append("1" if DataReadout(b).is_valid else "0")
    except Exception as ex:
        out.append("EXC-" + type(ex).__name__)
print(" ".join(out))
"""


def first_use_verdicts(seq):
    """is_valid of the readouts of `seq` ([(mode, bytes)]), in this order, in a FRESH interpreter (han imported anew)"""
    import subprocess
    import sys
    env = dict(os.environ, PYTHONPATH=lib.REPO, PYTHONDONTWRITEBYTECODE="1")
    p = subprocess.run([sys.executable, "-c", _FIRST_USE_CODE] + [f"{m}:{b.hex()}" for m, b in seq], env=env, capture_output=True, text=True, timeout=120)
    if p.returncode != 0:
        return ["EXC-process"] * len(seq), p.stderr[-300:]
    return p.stdout.split(), ""


def _first_use(res, rng, n, family="first_readout_of_a_fresh_interpreter"):
    """is_valid is a function of the readout's bytes - also for the very first readout built after the library is loaded
    (lazily initialised module-level state is history, too): each case starts a fresh interpreter and asks for the verdicts of 3
    readouts in order; correctly check-summed, wrong checksum, absent checksum; directly and through the reader."""
    for _ in range(n):
        seq = []
        for _ in range(3):
            ro = P.gen_readout(rng, with_crc=True, nlines=rng.choice([0, 1, 3]))
            k = rng.randrange(4)
            if k == 1:
                ro = mutate_checksum(rng, ro)
            elif k == 2:
                e = ro.find(b"!")
                ro = ro[:e + 1] + b"\r\n"
            seq.append((rng.choice("DR") if ro.endswith(b"\n") else "D", ro))
        got, err = first_use_verdicts(seq)
        model = lib.drive([f"p1.readout {lib.hexs(b)}" for _, b in seq])
        for pos, ((mode, b), g, m) in enumerate(zip(seq, got, model)):
            res.evaluations += 1
            case = {"op": "p1.first_use", "seq": [[mo, x.hex()] for mo, x in seq], "pos": pos}
            want = m.split(":")[1] if not m.startswith("EXC") else "EXC"
            if g != want:
                res.tie_break(case, g + " " + err, want, family)
                e = b.find(b"!")
                crc, after = P.crc16(b[:e + 1]), b[e + 1:]
                if CHK.match(after) and g in ("0", "1") and want in ("0", "1"):
                    same = int(after[:4], 16) == crc
                    res.prop_failure(case, f"readout number {pos + 1} built in a fresh interpreter: checksum text {after[:4]!r}, CRC-16 {crc:04X}, "
                                           f"reported {'valid' if g == '1' else 'invalid'} (the same bytes later in a process: {'valid' if want == '1' else 'invalid'})"
                                     if (g == "1") != same or want == "1" else f"verdict {g} differs from {want} for the same bytes later", family)
                elif g.startswith("EXC"):
                    res.prop_failure(case, f"readout number {pos + 1} built in a fresh interpreter: {g}", family)
            res.count(family)
            res.nontriv(("first", pos, b))


def _encoded(res, descs, family):
    """spec-encoded well-formed readouts must be valid with exact payload and identification"""
    reqs = [P.clean_request(b"", [d], []) for d in descs]
    for d, req, a in zip(descs, reqs, lib.drive(reqs)):
        wire_hex, model, spec, dom, chunks = P.parse_clean_answer(a)
        b = bytes.fromhex(wire_hex)
        i = P.impl_readout(b)
        res.evaluations += 1
        case = {"op": "p1.readout", "hex": b.hex()}
        if dom and spec and i != spec[0]:
            res.prop_failure(case, f"well-formed readout: implementation reports {i[-120:]}, specification expects {spec[0][-120:]}", family)
        res.nontriv(b)
        res.count(family)


def mutate_checksum(rng, ro: bytes):
    e = ro.find(b"!")
    body = ro[:e + 1]
    c = P.crc16(body)
    k = rng.randrange(9)
    if k == 0:
        t = b"0000"
    elif k == 1:
        t = b"FFFF"
    elif k == 2:
        t = b"%04x" % c
    elif k == 3:
        t = (b"%04X" % c).swapcase()
    elif k == 4:
        t = b"%04X" % ((c + 1) & 0xFFFF)
    elif k == 5:
        t = b"%04X" % ((c - 1) & 0xFFFF)
    elif k == 6:
        t = b"%04X" % rng.randrange(65536)
    elif k == 7:
        t = b""
    else:
        t = bytes(rng.choice(b"0123456789abcdefABCDEFxX_+- \tg") for _ in range(rng.randrange(1, 7)))
    return body + t + rng.choice([b"\r\n", b"\n", b""])


def run(res, tier, seed, widen=1):
    rng = lib.rng_for(seed, "C04")
    res.rule = ("readouts built from bytes: valid ones, every kind of checksum-field replacement (0000, FFFF, right value in upper/lower/"
                "mixed case, +-1, random, absent, non-hex text), single bit flips anywhere, line noise; plus spec-encoded well-formed "
                "readouts; non-trivial = distinct byte strings accepted by the DataReadout constructor")
    n = (2500 if tier == "quick" else 60000) * widen
    items = []
    for i in range(n):
        k = rng.randrange(6)
        ro = P.gen_readout(rng)
        if k == 0:
            items.append(ro)
        elif k in (1, 2):
            items.append(mutate_checksum(rng, ro))
        elif k == 3:
            m = bytearray(ro)
            pos = rng.randrange(len(m) * 8)
            m[pos // 8] ^= 1 << (pos % 8)
            items.append(bytes(m))
        elif k == 4:
            items.append(P.gen_noise(rng))
        else:  # zero-crc hunting: vary a data character until the CRC is small
            items.append(mutate_checksum(rng, P.gen_readout(rng, with_crc=True, nlines=1)))
    # identification-line boundary family: every position of the fixed part and the first id characters replaced by
    # characters adjacent to the class boundaries of the pattern (and a few others)
    edge = [0x2F, 0x30, 0x39, 0x3A, 0x40, 0x41, 0x5A, 0x5B, 0x5C, 0x5D, 0x5E, 0x5F, 0x60, 0x61, 0x7A, 0x7B, 0x7E, 0x7F, 0x1F, 0x20, 0x21, 0x80]
    base_ro = P.gen_readout(rng, with_crc=False, nlines=1)
    for pos in range(0, 8):
        for ch in edge:
            m = bytearray(base_ro)
            if pos < len(m):
                m[pos] = ch
                items.append(bytes(m))
                body = bytes(m[:m.find(b"!") + 1]) if b"!" in m else None
                if body:
                    items.append(body + b"%04X\r\n" % P.crc16(body))
    # readouts whose real CRC is 0000 (the transmitted checksum 0000 must be compared, not skipped)
    for ident in (b"0CJ", b"DCm", b"HCh"):
        body = b"/ABC5" + ident + b"\r\n1-0:1.7.0(00.100*kW)\r\n!"
        assert P.crc16(body) == 0
        items += [body + b"0000\r\n", body + b"0001\r\n", body + b"\r\n", body + b"FFFF\r\n"]
        res.count("crc_is_zero_witness")
    # and a non-zero CRC readout carrying the checksum text 0000
    for _ in range(20):
        ro = P.gen_readout(rng, with_crc=True, nlines=1)
        e = ro.find(b"!")
        items.append(ro[:e + 1] + b"0000\r\n")
    # text traps: WELL-FORMED multi-byte UTF-8 (which a lenient codec would accept) exactly where the identification
    # pattern wants a digit / a word character / a printable, where str.strip() would remove it, and as checksum digits
    uni_digit = ["\u0665", "\uff15", "\u096b", "\u0e55"]
    uni_word = ["\u00e9", "\u00df", "\u0416", "\u4e2d"]
    uni_space = ["\u00a0", "\u2003", "\u3000", "\u0085", "\u2028"]
    fullwidth = {c: chr(0xFF10 + i) for i, c in enumerate("0123456789")}
    fullwidth.update({c: chr(0xFF21 + i) for i, c in enumerate("ABCDEF")})
    data = b"1-0:1.7.0(00.100*kW)\r\n"
    traps = []
    for d in uni_digit:
        traps.append(b"/ABC" + d.encode() + b"ID1\r\n")
    for w in uni_word:
        traps += [b"/ABC5\\" + w.encode() + b"ID1\r\n", b"/AB" + w.encode() + b"5ID1\r\n", b"/ABC5I" + w.encode() + b"D\r\n"]
    for sp in uni_space:
        traps += [b"/ABC5ID1" + sp.encode() + b"\r\n", sp.encode() + b"/ABC5ID1\r\n", b"/ABC5ID1\r" + sp.encode() + b"\n"]
    for ident in traps:
        body = ident + data + b"!"
        items += [body + b"%04X\r\n" % P.crc16(body.lstrip()), body + b"\r\n"]
    for ident in (b"/ABC5ID1\r\n", b"/KFM5KAIFA-METER\r\n"):
        body = ident + data + b"!"
        good = "%04X" % P.crc16(body)
        items += [body + "".join(fullwidth[c] for c in good).encode() + b"\r\n",
                  body + (fullwidth[good[0]] + good[1:]).encode() + b"\r\n",
                  body + uni_space[0].encode() + good.encode() + b"\r\n",
                  body + good.encode() + uni_space[2].encode() + b"\r\n",
                  body + "".join(fullwidth[c] for c in "%04X" % ((P.crc16(body) + 1) & 0xFFFF)).encode() + b"\r\n"]
    res.count("unicode_text_traps", 2 * len(traps) + 10)
    for i in range(0, len(items), 5000):
        _readouts(res, items[i:i + 5000], "from_bytes")
    _through_reader(res, rng, (150 if tier == "quick" else 4000) * widen)
    _first_use(res, rng, (12 if tier == "quick" else 150) * widen)
    hist = [it for it in items if rng.random() < 0.5]
    for i in range(0, len(hist), 5000):
        _histories(res, hist[i:i + 5000], rng, "accessor_history")
    descs = [P.gen_desc(rng) for _ in range((400 if tier == "quick" else 8000) * widen)]
    for i in range(0, len(descs), 500):
        _encoded(res, descs[i:i + 500], "spec_encoded")
    # the model of int(text, 16) against the built-in, directly (in the library it only ever sees text that str.strip() has been
    # through; on its own int() skips C white space only - not 0x1C..0x1F): every 7-bit character before / after / inside a
    # number, and random texts over the grammar's alphabet
    itexts = []
    for core in ("1F", "0x1f", "a_b", "-0X_92e5"):
        for c in range(128):
            ch = chr(c)
            itexts += [ch + core, core + ch, ch + core + ch] + [core[:i] + ch + core[i:] for i in range(1, len(core))]
    alphabet = "0123456789abcdefABCDEFxX+-_ \t\n\x0b\x0c\r\x1c\x1d\x1e\x1f\x00g"
    for _ in range((400 if tier == "quick" else 20000) * widen):
        itexts.append("".join(rng.choice(alphabet) for _ in range(rng.randint(1, 7))))
    for t, a in zip(itexts, lib.drive([f"py.int16 {lib.hexs(t.encode('ascii'))}" for t in itexts])):
        res.evaluations += 1
        i = int16_text_render(t)
        if i != a:
            res.tie_break({"op": "py.int16", "hex": t.encode("ascii").hex()}, i, a, "int16_text")
        res.count("int16_text_accepted" if i != "ValueError" else "int16_text_rejected")
    if tier == "thorough":
        # all 65536 checksum values on 4 readouts
        for _ in range(4):
            ro = P.gen_readout(rng, with_crc=True, nlines=2)
            e = ro.find(b"!")
            _readouts(res, [ro[:e + 1] + b"%04X\r\n" % v for v in range(65536)], "all_checksum_values")
        res.extra["exhaustive_checksum_field"] = "all 65536 four-hex-digit checksum values on 4 readouts"


def int16_text_render(t: str) -> str:
    try:
        return str(int(t, 16))
    except ValueError:
        return "ValueError"


def search(res, tier, seed):
    run(res, "quick", seed + 7919, widen=3)


def replay(payload, res):
    if payload["case"].get("op") == "py.int16":
        t = bytes.fromhex(payload["case"]["hex"]).decode("ascii")
        i, a = int16_text_render(t), lib.drive([f"py.int16 {payload['case']['hex']}"])[0]
        print("int(%r, 16): impl %s model %s" % (t, i, a))
        print("REPLAY", "passes" if i == a else "fails")
        return 0 if i == a else 1
    if payload["case"].get("op") == "p1.first_use":
        seq = [(m, bytes.fromhex(x)) for m, x in payload["case"]["seq"]]
        got, err = first_use_verdicts(seq)
        model = [m.split(":")[1] if not m.startswith("EXC") else "EXC" for m in lib.drive([f"p1.readout {lib.hexs(b)}" for _, b in seq])]
        print("fresh interpreter, in order:", got, err, "| the same bytes by the model:", model)
        print("REPLAY", "passes" if got == model else "fails")
        return 0 if got == model else 1
    if payload["case"].get("op") == "p1.reader":
        from han.dlde import ModeDReader
        r = ModeDReader()
        got, errs = [], []
        for ch in payload["case"]["chunks"]:
            try:
                got += r.read(bytes.fromhex(ch))
            except Exception as ex:  # noqa
                errs.append(type(ex).__name__)
        data = b"".join(bytes.fromhex(c) for c in payload["case"]["chunks"])
        # the stream is one damaged readout followed by good ones: all but the first '/'-readout must come out valid
        parts = [b"/" + p for p in data.split(b"/")[1:]]
        valid = []
        for x in got:
            try:
                if x.is_valid:
                    valid.append(bytes(x.as_bytes))
            except Exception:  # noqa
                pass
        missing = [p for p in parts[1:] if p.lstrip() not in valid]
        print("read() exceptions:", errs, "| valid readouts:", len(valid), "| good readouts not delivered valid:", len(missing))
        print("REPLAY", "fails" if missing else "passes")
        return 1 if missing else 0
    if payload["case"].get("op") == "p1.readout.history":
        import random

        class Fixed(random.Random):
            def __init__(self, ops):
                super().__init__(0)
                self.ops = list(ops[:-1])

            def randrange(self, *a):
                return len(self.ops)

            def choice(self, seq):
                return self.ops.pop(0)
        _histories(res, [bytes.fromhex(payload["case"]["hex"])], Fixed(payload["case"]["accessors"]), "replay")
        for f in res.prop_failures:
            print("REPLAY property failure:", f["what"])
        print("REPLAY", "fails" if res.prop_failures else "passes")
        return 1 if res.prop_failures else 0
    _readouts(res, [bytes.fromhex(payload["case"]["hex"])], "replay")
    for f in res.prop_failures:
        print("REPLAY property failure:", f["what"])
    for t in res.tie_breaks:
        print("REPLAY impl/model disagreement:", t)
    print("REPLAY", "fails" if res.prop_failures else "passes")
    return 1 if res.prop_failures else 0
