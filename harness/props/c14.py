"""C14 — readers and messages never raise on line noise."""
from __future__ import annotations

import logging

import hdlc_common as H
import lib
import p1_common as P
from props import c13 as C13

ASSUMPTIONS = ["exceptions from code the model does not cover (logging formatting, MemoryError) are outside the theorems; the harness "
               "still reports any exception escaping the real calls as a property failure"]

ALPHA = b"/!\n\r\x7e\x7d" * 4 + bytes(range(0x80, 0x100, 9)) + b"0123456789abcdefABCDEFxyzXYZ _+-\\" + b"ABC5"


def gen_noise(rng):
    k = rng.randrange(8)
    n = rng.choice([1, 2, 5, 20, 80, 300])
    if k == 0:
        return bytes(rng.randrange(256) for _ in range(n))
    if k == 1:
        return bytes(rng.choice(ALPHA) for _ in range(n))
    if k == 2:   # '!' inside the identification line, garbage after '!'
        return b"/ABC5" + bytes(rng.choice(b"a!b\\W \xe9") for _ in range(rng.randrange(6))) + b"\r\n" + \
            bytes(rng.choice(ALPHA) for _ in range(n)) + b"\n!" + bytes(rng.choice(b"0123456789abcdefgxX_+- \t\x80\xff\x1c") for _ in range(rng.randrange(8))) + b"\n"
    if k == 3:
        return P.gen_noise(rng)
    if k == 4:
        return H.gen_stream(rng, H.CFGS[rng.randrange(4)])[1]
    if k == 5:   # non-ASCII '/'-line
        return b"/" + bytes(rng.choice([0xFF, 0xFE, 0x41, 0x35, 0x80]) for _ in range(rng.randrange(1, 8))) + b"\n"
    if k == 6:   # valid ident, then end line with non-hex / non-ascii text
        return P.gen_ident(rng) + b"1-0:1.7.0(1*kW)\r\n!" + bytes(rng.choice([0x7A, 0xFF, 0x30, 0x78, 0x5F, 0x2B]) for _ in range(rng.randrange(1, 6))) + b"\r\n"
    return P.gen_readout(rng) + bytes(rng.choice(ALPHA) for _ in range(n)) + b"\x7e" + H.make_frame(rng) + b"\x7e"


def _message_accessors_hdlc(cfg, chs):
    from han.hdlc import HdlcFrameReader
    r = HdlcFrameReader(bool(cfg[0]), bool(cfg[1]))
    for ch in chs:
        for m in r.read(ch):
            m.is_valid, m.payload, m.as_bytes, m.message_type  # noqa
            h = m.header
            h.frame_length, h.destination_address, h.source_address, h.control, h.header_check_sequence, m.frame_check_sequence  # noqa


def _message_accessors_p1(chs):
    from han.dlde import ModeDReader
    r = ModeDReader()
    for ch in chs:
        for m in r.read(ch):
            m.is_valid, m.payload, m.as_bytes, m.message_type  # noqa


def run(res, tier, seed, widen=1):
    rng = lib.rng_for(seed, "C14")
    logging.disable(logging.CRITICAL)
    res.rule = ("byte sequences over the full alphabet biased to '/', '!', LF, CR, 7E, 7D, bytes >= 0x80, hex and non-hex text after '!', "
                "'!' inside the identification line x random chunkings (incl. byte-wise) x both readers (4 HDLC cfgs) x both protocol classes "
                "with [HDLC,P1] and [P1,HDLC]; non-trivial = distinct streams")
    n = (2500 if tier == "quick" else 60000) * widen
    streams = []
    for _ in range(n):
        data = gen_noise(rng)
        chs = [data[i:i + 1] for i in range(len(data))] if (len(data) < 40 and rng.random() < 0.3) else lib.split_at(data, lib.random_cuts(rng, len(data)))
        streams.append(chs)
    # more than 8191 pending octets while collecting (lost end line), THEN an end line and a clean readout: the reader
    # must have gone back to hunting (no exception from the next '!' line, the clean readout still comes out)
    for _ in range((10 if tier == "quick" else 150) * widen):
        filler = b"".join(b"1-0:1.8.0(%08d*kWh)\r\n" % rng.randrange(10 ** 8) for _ in range(rng.choice([400, 420, 800])))
        tail = rng.choice([b"!\r\n", b"!ABCD\r\n", b"!\xff\r\n", b"!zz\n"])
        data = P.gen_ident(rng) + filler + tail + P.gen_readout(rng)
        cuts = sorted(rng.sample(range(1, len(data)), rng.choice([0, 1, 3, 12])))
        streams.append(lib.split_at(data, cuts))
        res.count("overflow_then_end_line")
    # HDLC reader
    cases = [(H.CFGS[i % 4], chs) for i, chs in enumerate(streams)]
    for (cfg, chs), (mcalls, runeq) in zip(cases, H.model_read(cases)):
        icalls, exc = H.impl_read(cfg, chs, with_state=False)
        res.evaluations += 1
        case = {"op": "hdlc.read", "cfg": list(cfg), "chunks": [c.hex() for c in chs]}
        if exc:
            res.prop_failure(case, f"HdlcFrameReader.read raised {exc}", "hdlc")
            continue
        if icalls != H.strip_state(mcalls):
            res.tie_break(case, icalls, H.strip_state(mcalls), "hdlc")
        try:
            _message_accessors_hdlc(cfg, chs)
        except Exception as ex:  # noqa
            res.prop_failure(case, f"an HdlcFrame accessor raised {type(ex).__name__}", "hdlc")
        res.nontriv(("h", b"".join(chs)))
        res.count("hdlc")
    # P1 reader
    for chs, mcalls in zip(streams, P.model_read(streams)):
        icalls = P.impl_read(chs, with_state=False)
        res.evaluations += 1
        case = {"op": "p1.read", "chunks": [c.hex() for c in chs]}
        if icalls and icalls[-1].startswith("EXC"):
            res.prop_failure(case, f"ModeDReader.read raised {icalls[-1]}", "p1")
            continue
        if icalls != P.strip_state(mcalls):
            res.tie_break(case, icalls, P.strip_state(mcalls), "p1")
        for r in P.readouts_of(icalls):
            if r.split(":")[1] not in ("0", "1"):
                res.prop_failure(case, f"DataReadout.is_valid raised {r.split(':')[1]}", "p1")
        try:
            _message_accessors_p1(chs)
        except Exception as ex:  # noqa
            res.prop_failure(case, f"a DataReadout accessor raised {type(ex).__name__}", "p1")
        res.nontriv(("p", b"".join(chs)))
        res.count("p1")
        res.count("p1_readouts", len(P.readouts_of(icalls)))
    # protocols
    pcases = []
    for i, chs in enumerate(streams):
        pcases.append((("message", "payload")[i % 2], [["H10", "P"], ["P", "H10"], ["H00", "P"], ["P", "H01"], ["H11", "P"]][i % 5], chs))
    reqs = [f"proto {kind} {','.join(cands)} {lib.chunks_arg(chs)}" for kind, cands, chs in pcases]
    for (kind, cands, chs), a in zip(pcases, lib.drive(reqs)):
        i = C13.impl_proto(kind, cands, chs)
        res.evaluations += 1
        case = {"op": "proto", "kind": kind, "cands": cands, "chunks": [c.hex() for c in chs]}
        if i.startswith("EXC"):
            res.prop_failure(case, f"data_received raised {i}", "proto")
        elif i != a:
            res.tie_break(case, i[:200], a[:200], "proto")
        res.count("proto")
    res.sample({"chunks": [c.hex() for c in streams[len(streams) // 2]][:8]})


def search(res, tier, seed):
    run(res, "quick", seed + 7919, widen=3)


def replay(payload, res):
    c = payload["case"]
    chs = [bytes.fromhex(x) for x in c["chunks"]]
    logging.disable(logging.CRITICAL)
    try:
        if c["op"] == "hdlc.read":
            _message_accessors_hdlc(tuple(c["cfg"]), chs)
        elif c["op"] == "p1.read":
            _message_accessors_p1(chs)
        else:
            r = C13.impl_proto(c["kind"], c["cands"], chs)
            if r.startswith("EXC"):
                raise RuntimeError(r)
        print("REPLAY passes")
        return 0
    except Exception as ex:  # noqa
        print("REPLAY fails:", type(ex).__name__, ex)
        return 1
