"""C20 — OBIS codes parse into their value groups and format back losslessly."""
from __future__ import annotations

import itertools
import re

import lib

ASSUMPTIONS = ["re.match with the combined pattern is modelled by a deterministic matcher (Model/Obis.lean), pinned to the pattern text",
               "only ASCII input strings are modelled (\\d also matches non-ASCII digits in Python)"]


def render_groups(t):
    return ",".join("N" if x is None else str(x) for x in t)


def impl_parse(s: str) -> str:
    from han.obis import to_obis_tupple
    try:
        return render_groups(to_obis_tupple(s))
    except Exception as ex:  # noqa
        return type(ex).__name__


DDD = re.compile(r"[0-9]\.[0-9]")


def _parse(res, strings, family, expect=None):
    ans = lib.drive([f"obis.parse {lib.hexs(s.encode('latin-1'))}" for s in strings])
    for k, (s, a) in enumerate(zip(strings, ans)):
        model, ddd = a.rsplit(" ", 1)
        i = impl_parse(s)
        res.evaluations += 1
        case = {"op": "obis.parse", "s": s}
        if i != model:
            res.tie_break(case, i, model, family)
        if not DDD.search(s) and i != "ValueError":
            res.prop_failure(case, f"string without digit.digit gave {i} instead of ValueError", family)
        if (ddd == "1") != bool(DDD.search(s)):
            raise lib.ToolFailure("hasDigitDotDigit oracle mismatch on " + repr(s))
        if expect is not None and i != expect[k]:
            res.prop_failure(case, f"parsed to {i}, written groups are {expect[k]}", family)
        if i != "ValueError":
            res.count("parsed")
            res.nontriv(s)
        res.count(family)
    if strings:
        res.sample({"family": family, "s": strings[len(strings) // 2]})


def fmt_reduced(g):
    a, b, c, d, e, f = g
    return (f"{a}-" if a is not None else "") + (f"{b}:" if b is not None else "") + f"{c}.{d}" + \
        (f".{e}" if e is not None else "") + (f"*{f}" if f is not None else "")


def _fmt(res, groups, family):
    from han.obis import Obis
    ans = lib.drive([f"obis.fmt {render_groups(g)}" for g in groups])
    for g, a in zip(groups, ans):
        o = Obis(g)
        impl = [lib.hexs(o.to_reduced_str().encode()), lib.hexs(str(o).encode()), lib.hexs(o.to_group_cdr_str().encode())]
        m = a.split(" ")
        res.evaluations += 1
        case = {"op": "obis.fmt", "groups": list(g)}
        if impl != m[:3]:
            res.tie_break(case, impl, m[:3], family)
        # round trip (property): optional groups absent or non-zero
        if all(x is None or x != 0 for x in (g[0], g[1], g[4], g[5])):
            back = impl_parse(o.to_reduced_str())
            if back != render_groups(g):
                res.prop_failure(case, f"to_reduced_str() = {o.to_reduced_str()!r} parses back to {back}", family)
            back2 = impl_parse(str(o))
            if back2 != render_groups(g):
                res.prop_failure(case, f"str() = {str(o)!r} parses back to {back2}", family)
            res.count("roundtrips")
        if g[4] is not None and o.to_group_cdr_str() != f"{g[2]}.{g[3]}.{g[4]}":
            res.prop_failure(case, f"C.D.E string is {o.to_group_cdr_str()!r}", family)
        # equality / hash
        o2 = Obis(tuple(g))
        if not (o == o2 and hash(o) == hash(o2)):
            res.prop_failure(case, "equal groups but objects differ or hash differently", family)
        res.nontriv(g)
        res.count(family)


def _eq(res, pairs, family):
    from han.obis import Obis
    ans = lib.drive([f"obis.eq {render_groups(g)} {lib.hexs(s.encode('latin-1'))}" for g, s in pairs])
    for (g, s), a in zip(pairs, ans):
        i = "1" if Obis(g) == s else "0"
        res.evaluations += 1
        case = {"op": "obis.eq", "groups": list(g), "s": s}
        if i != a:
            res.tie_break(case, i, a, family)
        want = "1" if impl_parse(s) == render_groups(g) else "0"
        if i != want:
            res.prop_failure(case, f"Obis == {s!r} is {i} but the string parses to {impl_parse(s)}", family)
        res.count(family)


BOUND = [0, 1, 9, 10, 99, 100, 255]


def run(res, tier, seed, widen=1):
    rng = lib.rng_for(seed, "C20")
    res.rule = ("all 16 presence patterns x boundary values {0,1,9,10,99,100,255} + seeded values, both syntaxes; malformed strings from a "
                "mutation grammar over digits, separators, letters and whitespace; formatting/round trip/equality on group tuples; "
                "non-trivial = distinct strings that parse / distinct tuples")
    strings, expect = [], []
    for pres in itertools.product([0, 1], repeat=4):
        for _ in range(120 if tier == "quick" else 2500):
            vals = [rng.choice(BOUND) if rng.random() < 0.6 else rng.randrange(256) for _ in range(6)]
            g = (vals[0] if pres[0] else None, vals[1] if pres[1] else None, vals[2], vals[3],
                 vals[4] if pres[2] else None, vals[5] if pres[3] else None)
            strings.append(fmt_reduced(g))
            expect.append(render_groups(g))
    _parse(res, strings, "reduced_form", expect)
    strings, expect = [], []
    for _ in range(1500 if tier == "quick" else 30000):
        vals = [rng.choice(BOUND) if rng.random() < 0.6 else rng.randrange(256) for _ in range(6)]
        strings.append(".".join(map(str, vals)))
        expect.append(render_groups(vals))
    _parse(res, strings, "standard_form", expect)
    if tier == "thorough":
        for pres in itertools.product([0, 1], repeat=4):
            strings, expect = [], []
            for vals in itertools.product(BOUND, repeat=6):
                g = (vals[0] if pres[0] else None, vals[1] if pres[1] else None, vals[2], vals[3],
                     vals[4] if pres[2] else None, vals[5] if pres[3] else None)
                strings.append(fmt_reduced(g))
                expect.append(render_groups(g))
            strings, expect = zip(*sorted(set(zip(strings, expect))))
            _parse(res, list(strings), "reduced_exhaustive_boundary", list(expect))
        res.extra["exhaustive_boundary"] = "all presence patterns x all 7^6 boundary value combinations"
    # malformed / arbitrary strings
    alpha = "0123456789" * 3 + "....--::**" + " \tabcZ/()_+"
    strings = []
    for _ in range((8000 if tier == "quick" else 200000) * widen):
        n = rng.choice([0, 1, 2, 3, 5, 8, 12, 20])
        strings.append("".join(rng.choice(alpha) for _ in range(n)))
    for _ in range((3000 if tier == "quick" else 60000) * widen):
        g = [rng.randrange(300) for _ in range(6)]
        s = list(rng.choice([".".join(map(str, g)), fmt_reduced(tuple(g))]))
        for _ in range(rng.choice([1, 1, 2, 3])):
            pos = rng.randrange(len(s) + 1)
            op = rng.randrange(3)
            if op == 0 and s:
                s.pop(min(pos, len(s) - 1))
            elif op == 1:
                s.insert(pos, rng.choice(alpha))
            elif s:
                s[min(pos, len(s) - 1)] = rng.choice(alpha)
        strings.append("".join(s))
    _parse(res, strings, "mutated_and_random")
    groups = []
    for _ in range((3000 if tier == "quick" else 60000) * widen):
        g = tuple((None if rng.random() < 0.3 else (rng.choice(BOUND) if rng.random() < 0.6 else rng.randrange(256))) if k in (0, 1, 4, 5)
                  else (rng.choice(BOUND) if rng.random() < 0.6 else rng.randrange(256)) for k in range(6))
        groups.append(g)
    _fmt(res, groups, "format")
    pairs = []
    from han.obis import Obis as _Obis
    for g in groups[:1500]:
        s = rng.choice([fmt_reduced(g), fmt_reduced(groups[rng.randrange(len(groups))]), "x", ".".join(str(x or 0) for x in g)])
        pairs.append((g, s))
        # the object's OWN renderings (they drop optional groups that are 0): equal only if that text parses to the same groups
        try:
            own = [str(_Obis(g)), _Obis(g).to_reduced_str()]
        except Exception:  # noqa
            own = []
        for t in own:
            pairs.append((g, t))
    _eq(res, pairs, "eq_string")
    # neighbours: codes that differ in one group, or in two ADJACENT groups, by the smallest steps there are (absent <-> 0,
    # +-1, 255 <-> absent) - where a packed / concatenated / truncated comparison key would collide; compared as objects
    # (both orders) and through the string path, and hashed
    near, npairs = [], []
    for g in groups[:600]:
        g2 = list(g)
        ks = [rng.randrange(6)]
        if rng.random() < 0.7 and ks[0] < 5:
            ks.append(ks[0] + 1)
        for k in ks:
            opt = k in (0, 1, 4, 5)
            v = g2[k]
            choices = ([0, 255, 1] if v is None else [None] * (2 if opt else 0) + [(v + 1) % 256, (v - 1) % 256, v])
            g2[k] = rng.choice(choices)
        near.append((g, tuple(g2)))
        npairs.append((g, fmt_reduced(tuple(g2))))
    _eq(res, npairs, "eq_string_neighbours")
    for g, g2 in near:
        res.evaluations += 1
        case = {"op": "obis.eq2", "groups": list(g), "other": list(g2)}
        try:
            a, b = _Obis(g), _Obis(g2)
            obs = (a == b, b == a, hash(a) == hash(b))
        except Exception as ex:  # noqa
            res.prop_failure(case, f"comparison raised {type(ex).__name__}", "eq_neighbours")
            continue
        if obs[0] != (g == g2) or obs[1] != (g == g2):
            res.prop_failure(case, f"Obis{g} == Obis{g2} is {obs[0]} / {obs[1]} but the groups are {'equal' if g == g2 else 'different'}", "eq_neighbours")
        elif g == g2 and not obs[2]:
            res.prop_failure(case, "equal objects hash differently", "eq_neighbours")
        res.count("eq_neighbours")
        res.nontriv(("near", g, g2))


def search(res, tier, seed):
    run(res, "quick", seed + 7919, widen=3)


def replay(payload, res):
    c = payload["case"]
    if c["op"] == "obis.parse":
        _parse(res, [c["s"]], "replay")
    elif c["op"] == "obis.fmt":
        _fmt(res, [tuple(c["groups"])], "replay")
    elif c["op"] == "obis.eq2":
        from han.obis import Obis
        g, g2 = tuple(c["groups"]), tuple(c["other"])
        try:
            obs = (Obis(g) == Obis(g2), Obis(g2) == Obis(g))
        except Exception as ex:  # noqa
            obs = (type(ex).__name__,)
        print("groups", g, g2, "compare as", obs)
        if any(o != (g == g2) for o in obs):
            res.prop_failure(c, f"objects compare {obs}, groups are {'equal' if g == g2 else 'different'}", "replay")
    else:
        _eq(res, [(tuple(c["groups"]), c["s"])], "replay")
    for f in res.prop_failures:
        print("REPLAY property failure:", f["what"])
    for t in res.tie_breaks:
        print("REPLAY impl/model disagreement:", t)
    print("REPLAY", "fails" if res.prop_failures else "passes")
    return 1 if res.prop_failures else 0
