"""C13 — protocols forward exactly the selected reader's messages, payloads only if valid."""
from __future__ import annotations

import asyncio
import logging

import hdlc_common as H
import lib
import p1_common as P

ASSUMPTIONS = ["the clean-stream sentence of the statement is checked on streams inside 'hQuiet' (the other candidate reports no valid "
               "message before selection); an HDLC payload may legally embed a complete P1 readout, so it is not a theorem unconditionally",
               "asyncio.Queue is used as a plain FIFO (put_nowait / get_nowait)"]

CANDS = [["H00"], ["H10"], ["H11"], ["P"], ["H00", "P"], ["P", "H00"], ["H10", "P"], ["P", "H10"], ["H01", "P"], ["P", "H11"], ["H10", "H00", "P"]]


def make_reader(c):
    from han.hdlc import HdlcFrameReader
    from han.dlde import ModeDReader
    if c == "P":
        return ModeDReader()
    return HdlcFrameReader(c[1] == "1", c[2] == "1")


_loop = None


def impl_proto(kind, cands, chunks):
    global _loop
    from han import meter_connection as mc
    logging.disable(logging.CRITICAL)
    if _loop is None:
        _loop = asyncio.new_event_loop()
        asyncio.set_event_loop(_loop)
    q = asyncio.Queue()
    mine = [make_reader(c) for c in cands]
    # the candidates are handed over as a list or as a tuple (both are Sequences); the caller's own sequence must come
    # back untouched (the protocol works on its own copy)
    as_tuple = (sum(len(c) for c in chunks) + len(cands)) % 3 == 0
    readers = tuple(mine) if as_tuple else list(mine)
    cls = mc.SmartMeterMessageProtocol if kind == "message" else mc.SmartMeterMessagePayloadProtocol
    proto = cls(q, readers)
    for ch in chunks:
        try:
            proto.data_received(bytes(ch))
        except Exception as ex:  # noqa
            return "EXC " + type(ex).__name__
    items = []
    while not q.empty():
        it = q.get_nowait()
        if kind == "message":
            try:
                v = "1" if it.is_valid else "0"
            except Exception as ex:  # noqa
                v = "E-" + type(ex).__name__
            items.append("M" + lib.hexs(it.as_bytes) + "/" + v)
        else:
            items.append("P" + lib.hexs(bytes(it)))
    sel = getattr(proto, "_selected_reader", None)
    idx = "N" if sel is None else str(next((i for i, r in enumerate(mine) if r is sel), "?"))
    if len(readers) != len(mine) or any(a is not b for a, b in zip(readers, mine)):
        return "EXC caller's-candidate-sequence-was-modified"
    return (" ".join(items) if items else ".") + " @" + idx


def expected_queue(kind, cands, chunks):
    """C13 stated on the real readers' OWN message streams (each candidate fed the whole sequence separately)"""
    per = []
    for c in cands:
        r = make_reader(c)
        per.append([r.read(bytes(ch)) for ch in chunks])
    for k in range(len(chunks)):
        for i in range(len(cands)):
            if any(m.is_valid for m in per[i][k]):
                msgs = [m for call in per[i][k:] for m in call]
                if kind == "message":
                    return ["M" + lib.hexs(m.as_bytes) + "/" + ("1" if m.is_valid else "0") for m in msgs], i
                return ["P" + lib.hexs(bytes(m.payload)) for m in msgs if m.is_valid and m.payload], i
    return [], None


def _run_cases(res, cases, family):
    reqs = [f"proto {kind} {','.join(cands)} {lib.chunks_arg(chs)}" for kind, cands, chs in cases]
    for (kind, cands, chs), req, a in zip(cases, reqs, lib.drive(reqs)):
        i = impl_proto(kind, cands, chs)
        res.evaluations += 1
        case = {"op": "proto", "kind": kind, "cands": cands, "chunks": [c.hex() for c in chs]}
        if i.startswith("EXC"):
            res.prop_failure(case, f"data_received raised {i}", family)
            continue
        if i != a:
            res.tie_break(case, i[:300], a[:300], family)
        try:
            want, sel = expected_queue(kind, cands, chs)
        except Exception as ex:  # noqa
            res.prop_failure(case, f"a reader fed separately, or the is_valid of one of its messages, raised {type(ex).__name__}: "
                                   f"what the protocol should have queued is undefined", family)
            continue
        items, idx = i.rsplit(" @", 1)
        got = [] if items == "." else items.split(" ")
        if got != want or idx != ("N" if sel is None else str(sel)):
            res.prop_failure(case, f"queue has {len(got)} items, the selected reader's own stream gives {len(want)} (selected {idx}, expected {sel})", family)
        if got:
            res.nontriv((kind, tuple(cands), tuple(chs)))
            res.count("queues_nonempty")
        res.count(family)
        res.count("cands_" + "+".join(cands))
    if cases:
        kind, cands, chs = cases[len(cases) // 2]
        res.sample({"family": family, "kind": kind, "cands": cands, "chunks": [c.hex()[:50] for c in chs][:5]})


def gen_stream(rng):
    k = rng.randrange(6)
    if k == 0:   # clean HDLC (stuffed or not)
        st = rng.random() < 0.5
        fs = [H.make_frame(rng) for _ in range(rng.choice([1, 2, 4]))]
        return b"\x7e" + b"\x7e".join(H.stuff(f) if st else f for f in fs) + b"\x7e"
    if k == 1:   # clean P1
        return b"".join(P.gen_readout(rng) for _ in range(rng.choice([1, 2, 3])))
    if k == 2:   # corrupted HDLC
        return H.gen_stream(rng, (rng.randrange(2), 0))[1]
    if k == 3:   # corrupted P1 / noise
        return P.gen_noise(rng) + P.gen_readout(rng)
    if k == 4:   # mixed: P1 text then HDLC frames
        return P.gen_readout(rng) + b"\x7e" + H.make_frame(rng) + b"\x7e"
    return H.gen_stream(rng, (1, 1))[1] + P.gen_noise(rng)


def gen_interleaved(rng):
    """clean messages of one kind, each in its own chunk(s), with separate junk / empty chunks between them
    (junk that cannot start a message: no '/' for P1, no flag for HDLC)"""
    chunks = []
    if rng.random() < 0.5:
        for _ in range(rng.choice([2, 3, 5])):
            ro = P.gen_readout(rng)
            chunks += lib.split_at(ro, lib.random_cuts(rng, len(ro), 2))
            k = rng.randrange(4)
            if k == 0:
                chunks.append(b"")
            elif k == 1:
                chunks.append(bytes(rng.choice(b"\x00\r\n abc\xff") for _ in range(rng.randint(1, 6))))
            elif k == 2:
                chunks.append(b"\r\n")
    else:
        st = rng.random() < 0.5
        for _ in range(rng.choice([2, 3, 5])):
            f = H.make_frame(rng)
            w = b"\x7e" + (H.stuff(f) if st else f) + b"\x7e"
            chunks += lib.split_at(w, lib.random_cuts(rng, len(w), 2))
            k = rng.randrange(4)
            if k == 0:
                chunks.append(b"")
            elif k == 1:
                chunks.append(bytes(rng.choice([0, 1, 0x55, 0xFF, 0x0D]) for _ in range(rng.randint(1, 6))))
    return chunks


def gen_clean_known(rng):
    """a clean stream whose messages the generator knows (not the library's readers): -> (kind of stream, wire bytes,
    [(message bytes, payload bytes)])"""
    if rng.random() < 0.6:
        st = rng.random() < 0.5
        msgs = []
        for _ in range(rng.choice([1, 2, 4, 6])):
            info = bytes(rng.randrange(256) for _ in range(rng.choice([0, 1, 5, 12, 26, 40])))
            f = H.make_frame(rng, info=info)
            if not st and (0x7E in f or 0x7D in f):
                info = bytes(x & 0x5F for x in info)
                f = H.make_frame(rng, info=info, ctl=0x13)
                if 0x7E in f or 0x7D in f:
                    continue
            msgs.append((f, info))
        if not msgs:
            return None
        double = rng.random() < 0.5          # closing and opening flag shared, or one of each
        wire = b"\x7e" + (b"\x7e\x7e" if double else b"\x7e").join(H.stuff(f) if st else f for f, _ in msgs) + b"\x7e"
        return ("Hs" if st else "Hn"), wire, msgs
    ros = [P.gen_readout(rng) for _ in range(rng.choice([1, 2, 3]))]
    return "P", b"".join(ros), [(ro, ro[ro.find(b"\n") + 1: ro.find(b"!")]) for ro in ros]


def _clean_known(res, rng, n, family="clean_stream_known_messages"):
    """the last sentence of C13 against the GENERATOR's knowledge of what was transmitted: on a clean stream every message's
    non-empty payload is queued (payload protocol) / every message is queued valid (message protocol), for every splitting -
    byte by byte, a cut right after each flag / line end, random cuts - and every candidate order, provided the other
    candidates stay quiet (hQuiet: fed the same chunks on their own they report no valid message)."""
    for _ in range(n):
        g = gen_clean_known(rng)
        if g is None:
            continue
        sk, wire, msgs = g
        own = {"Hs": ["H10", "H11"], "Hn": ["H00", "H01", "H10", "H11"] if False else ["H00", "H10"], "P": ["P"]}[sk]
        marks = [i + 1 for i, x in enumerate(wire[:-1]) if x in (0x7E, 0x0A)]
        splits = [[wire[i:i + 1] for i in range(len(wire))] if len(wire) <= 400 else [wire]]
        splits += [lib.split_at(wire, [m]) for m in rng.sample(marks, min(len(marks), 4))]
        splits += [lib.split_at(wire, sorted(set(rng.sample(marks, min(len(marks), 3))))) if marks else [wire]]
        splits += [lib.split_at(wire, lib.random_cuts(rng, len(wire)))]
        for chs in splits:
            me = rng.choice(own)
            if sk == "Hn" and me == "H10":
                continue   # an unstuffed frame is not what a de-stuffing reader expects in general
            others = rng.choice([[], [], ["P"] if sk != "P" else ["H00"], ["P"] if sk != "P" else ["H10"]])
            cands = [me] + others if rng.random() < 0.5 else others + [me]
            quiet = True
            for o in others:
                r = make_reader(o)
                try:
                    quiet = quiet and not any(m.is_valid for ch in chs for m in r.read(bytes(ch)))
                except Exception:  # noqa
                    quiet = False
            if not quiet:
                res.count("clean_known_not_quiet")
                continue
            kind = rng.choice(["message", "payload"])
            i = impl_proto(kind, cands, chs)
            res.evaluations += 1
            case = {"op": "proto.clean", "kind": kind, "cands": cands, "chunks": [c.hex() for c in chs],
                    "messages": [[m.hex(), p.hex()] for m, p in msgs]}
            if i.startswith("EXC"):
                res.prop_failure(case, f"data_received raised {i}", family)
                continue
            want = ["M" + lib.hexs(m) + "/1" for m, _ in msgs] if kind == "message" else ["P" + lib.hexs(p) for _, p in msgs if p]
            items, idx = i.rsplit(" @", 1)
            got = [] if items == "." else items.split(" ")
            if got != want:
                lost = [w for w in want if w not in got]
                res.prop_failure(case, f"clean stream of {len(msgs)} messages, candidates {cands}, {len(chs)} chunks: the queue holds {len(got)} items, "
                                       f"transmitted were {len(want)}" + (f"; missing {lost[0][:60]}" if lost else ""), family)
            res.count(family)
            res.count("clean_known_" + sk)
            res.nontriv(("clean", kind, tuple(cands), tuple(chs)))


def run(res, tier, seed, widen=1):
    rng = lib.rng_for(seed, "C13")
    res.rule = ("streams: clean HDLC, clean P1, corrupted, mixed noise x random chunkings x candidate lists {[H],[P],[H,P],[P,H],...} with 4 "
                "HDLC configurations x both protocol classes; non-trivial = distinct cases with a non-empty queue")
    n = (1500 if tier == "quick" else 40000) * widen
    cases = []
    for i in range(n):
        data = gen_stream(rng)
        chs = lib.split_at(data, lib.random_cuts(rng, len(data)))
        cases.append((rng.choice(["message", "payload"]), rng.choice(CANDS), chs))
    for i in range(0, len(cases), 3000):
        _run_cases(res, cases[i:i + 3000], "generated")
    cases = [(rng.choice(["message", "payload"]), rng.choice(CANDS), gen_interleaved(rng)) for _ in range((600 if tier == "quick" else 15000) * widen)]
    for i in range(0, len(cases), 3000):
        _run_cases(res, cases[i:i + 3000], "interleaved_junk_and_empty_chunks")
    _clean_known(res, rng, (150 if tier == "quick" else 4000) * widen)


def search(res, tier, seed):
    run(res, "quick", seed + 7919, widen=3)


def replay(payload, res):
    c = payload["case"]
    if c["op"] == "proto.clean":
        chs = [bytes.fromhex(x) for x in c["chunks"]]
        i = impl_proto(c["kind"], c["cands"], chs)
        msgs = [(bytes.fromhex(m), bytes.fromhex(p)) for m, p in c["messages"]]
        want = ["M" + lib.hexs(m) + "/1" for m, _ in msgs] if c["kind"] == "message" else ["P" + lib.hexs(p) for _, p in msgs if p]
        items = i.rsplit(" @", 1)[0] if " @" in i else i
        got = [] if items == "." else items.split(" ")
        print("transmitted:", len(want), "queued:", len(got), "" if got == want else "(differs)")
        print("REPLAY", "passes" if got == want else "fails")
        return 0 if got == want else 1
    _run_cases(res, [(c["kind"], c["cands"], [bytes.fromhex(x) for x in c["chunks"]])], "replay")
    for f in res.prop_failures:
        print("REPLAY property failure:", f["what"])
    for t in res.tie_breaks:
        print("REPLAY impl/model disagreement:", t)
    print("REPLAY", "fails" if res.prop_failures else "passes")
    return 1 if res.prop_failures else 0
