"""C09 — Kamstrup lists decode to the transmitted values with the documented scaling.
Wire bytes come from the Lean spec encoders (Spec/Lists.lean); the real decoders are compared with the
model decoders (tie) and with the expected dictionary of the specification (property)."""
from __future__ import annotations

import lib
import lists_common as L

ASSUMPTIONS = ["floats are compared exactly (as_integer_ratio) with the correctly rounded value computed by the exact binary64 model",
               "the third-party construct library is modelled by hand-written parsers (Model/Cosem.lean) — tied by this correspondence"]
METERS = "kamstrup".split(",")


def run(res, tier, seed, widen=1):
    rng = lib.rng_for(seed, "C09")
    res.rule = ("well-formed list descriptors (documented layouts, any subset/order of known OBIS elements, registers from {0,1,max,sign "
                "boundaries,57,random}, scalers -3..3, printable id strings, boundary date-times, null padding) -> Lean spec encoder -> real "
                "decode_notification_body and decode_frame_content (null/tagged/untagged APDU clock); non-trivial = distinct well-formed wires")
    n = (700 if tier == "quick" else 20000) * widen
    for i in range(0, n, 500):
        L.run_lists(res, rng, METERS, min(500, n - i), "generated", "Kamstrup")


def search(res, tier, seed):
    run(res, "quick", seed + 7919, widen=3)


def replay(payload, res):
    return L.replay_list(payload, res)
