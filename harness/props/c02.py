"""C02 — every well-formed HDLC frame on a clean stream is delivered once, in order.
The wire octets fed to the real reader are produced by the Lean spec encoder (`HdlcSpec.wire`), i.e.
exactly the term the theorem `clean_stream_delivered` speaks about."""
from __future__ import annotations

import hdlc_common as H
import lib

ASSUMPTIONS = ["frame descriptors are generated inside the domain of the statement (checked by the driver with the decidable "
               "predicates WF / InDomain of Spec/HdlcWire.lean); out-of-domain descriptors are generated on purpose as a control and "
               "only compared impl-vs-model"]


def gen_desc(rng, cfg, boundary=False):
    dstl, srcl = rng.choice([1, 1, 2, 3, 4]), rng.choice([1, 1, 2, 4])
    dst, src = H.addr(rng, dstl), H.addr(rng, srcl)
    head = 2 + dstl + srcl + 1
    maxinfo = 2047 - head - 4
    if boundary:
        n = rng.choice([0, 1, 2, 126, 127, 128, 129, 130, maxinfo - 8, maxinfo - 1, maxinfo])
    else:
        n = rng.choice([0, 0, 1, 2, 3, 10, 40, 130, 300])
    alpha = rng.choice([None, None, [0x7E, 0x7D, 0x5E, 0x5D, 0x20, 0xFF], [0x7E], [0x7D]])
    info = bytes(rng.choice(alpha) if alpha else rng.randrange(256) for _ in range(n))
    return (rng.choice([0xA, 0xA, rng.randrange(16)]), rng.choice([0, 0, 1]), dst, src, rng.randrange(256), info, rng.choice([1, 1, 1, 2, 3]))


def desc_arg(d):
    return f"{d[0]},{d[1]},{lib.hexs(d[2])},{lib.hexs(d[3])},{d[4]},{lib.hexs(d[5])},{d[6]}"


def _run_cases(res, cases, family):
    """cases: (cfg, noise, [descs], closing, cuts)"""
    reqs = []
    for cfg, noise, descs, closing, cuts in cases:
        fr = ";".join(desc_arg(d) for d in descs) if descs else "."
        ct = ",".join(map(str, cuts)) if cuts else "."
        reqs.append(f"hdlc.clean {cfg[0]} {cfg[1]} {lib.hexs(noise)} {fr} {closing} {ct}")
    answers = lib.drive(reqs)
    for (cfg, noise, descs, closing, cuts), req, a in zip(cases, reqs, answers):
        parts = a.split(" | ")
        if len(parts) != 5:
            raise lib.ToolFailure(f"driver: {a[:200]}")
        wire_hex, model, spec, dom, chunks_s = parts
        chunks = [bytes.fromhex(c) if c != "-" else b"" for c in chunks_s.split(",")]
        icalls, exc = H.impl_read(cfg, chunks, with_state=False)
        res.evaluations += 1
        case = {"op": "hdlc.clean", "request": req}
        if exc:
            res.prop_failure(case, f"read() raised {exc}", family)
            continue
        impl = H.render_frames_list(icalls)
        if impl != (model.split(" ") if model != "." else []):
            res.tie_break(case, impl, model, family)
        if dom == "1":
            want = spec.split(" ") if spec != "." else []
            if impl != want:
                res.prop_failure(case, f"clean stream {wire_hex[:200]}: delivered {len(impl)} frames {impl[:3]}, sent {len(want)} {want[:3]}", family)
            res.nontriv((cfg, wire_hex, tuple(cuts)))
            res.count("in_domain")
            res.count("frames_in_domain", len(descs))
        else:
            res.count("out_of_domain_control")
        res.count(family)
    if cases:
        res.sample({"family": family, "request": reqs[len(reqs) // 2][:300]})


def _gen_case(rng, cfg, boundary=False):
    n = rng.choice([0, 1, 1, 2, 3, 6]) if not boundary else 1
    descs = [gen_desc(rng, cfg, boundary) for _ in range(n)]
    noise = bytes(rng.choice([0, 1, 0x7D, 0xA0, 0xFF, 0x55]) for _ in range(rng.choice([0, 0, 1, 4, 10])))
    closing = rng.choice([1, 1, 2])
    est = len(noise) + closing + sum(2 * (len(d[2]) + len(d[3]) + len(d[5]) + 10) + d[6] for d in descs)
    cuts = sorted(set(rng.randrange(1, max(2, est // 2)) for _ in range(rng.choice([0, 1, 2, 4, 9]))))
    return (cfg, noise, descs, closing, cuts)


def run(res, tier, seed, widen=1):
    rng = lib.rng_for(seed, "C02")
    res.rule = ("descriptors (format type, segmentation, 1-4 octet addresses, control, payload biased to flag/escape octets, lengths incl. "
                "0,1,2,126-130 and the 2047-octet maximum, fill 1-3 flags, flag-free noise) -> Lean spec encoder -> real reader; random cuts "
                "including inside escape pairs; non-trivial = distinct in-domain (cfg, wire, cuts)")
    n = (2500 if tier == "quick" else 60000) * widen
    cases = [_gen_case(rng, H.CFGS[i % 4]) for i in range(n)]
    cases += [_gen_case(rng, H.CFGS[i % 4], boundary=True) for i in range(200 if tier == "quick" else 4000)]
    for i in range(0, len(cases), 4000):
        _run_cases(res, cases[i:i + 4000], "generated")


def search(res, tier, seed):
    run(res, "quick", seed + 7919, widen=3)


def replay(payload, res):
    req = payload["case"]["request"].split(" ")
    cfg = (int(req[1]), int(req[2]))
    # re-issue the same request
    a = lib.drive([payload["case"]["request"]])[0]
    print("driver:", a[:500])
    parts = a.split(" | ")
    chunks = [bytes.fromhex(c) if c != "-" else b"" for c in parts[4].split(",")]
    icalls, exc = H.impl_read(cfg, chunks, with_state=False)
    impl = H.render_frames_list(icalls)
    want = parts[2].split(" ") if parts[2] != "." else []
    ok = (exc is None) and (parts[3] != "1" or impl == want)
    print("impl:", impl, exc)
    print("REPLAY", "passes" if ok else "fails")
    return 0 if ok else 1
