"""C10 — COSEM date-time fields decode to the same instant the meter sent, in each of the six
syntactic positions where the decoders accept a date-time."""
from __future__ import annotations

import datetime

import dec_common as D
import lib
import lists_common as L

ASSUMPTIONS = ["the expected instant is computed independently in Python from the descriptor (datetime/timezone arithmetic)"]


def expected_dt(desc: str) -> str:
    y, m, d, _dow, h, mi, s, hs, dev, _st = desc.split(".")
    us = 0 if hs == "N" else int(hs) * 10000
    tz = None if dev == "N" else datetime.timezone(datetime.timedelta(minutes=-int(dev)))
    return D.render_val(datetime.datetime(int(y), int(m), int(d), int(h), int(mi), int(s), us, tz))


def make_case(rng, pos, boundary):
    dt = L.gen_dt(rng, boundary)
    other = L.gen_dt(rng, False)
    if pos == "apdu_tagged":       # APDU header with octet-string tag, Kaifa list 1 (no list clock)
        return f"list.enc kaifa_values {L.gen_header(rng).rsplit(',', 1)[0]},T{dt} U,{rng.randrange(2**32)}", "Kaifa_frame", dt
    if pos == "apdu_untagged":
        return f"list.enc kaifa_values {L.gen_header(rng).rsplit(',', 1)[0]},U{dt} U,{rng.randrange(2**32)}", "Kaifa_frame", dt
    if pos == "aidon_element":
        return f"list.enc aidon - R,0100010700ff,u32,5,0,27;C,0000010000ff,{dt}", "Aidon_notification_body", dt
    if pos == "kaifa_list_clock":  # the list clock wins over the APDU clock
        vs = ";".join(["T,4b464d5f303031", "T,31323334", "T,4d41"] + ["U,%d" % rng.randrange(2**32)] * 6 + ["C," + dt] + ["U,7"] * 4)
        return f"list.enc kaifa_values {L.gen_header(rng).rsplit(',', 1)[0]},T{other} {vs}", "Kaifa_frame", dt
    if pos == "kaifa_obis_clock":
        return f"list.enc kaifa_obis - 0000010000ff,C,{dt};0100010700ff,U,9", "Kaifa_notification_body", dt
    if pos == "kamstrup_element":
        return f"list.enc kamstrup - 25,4b616d73747275705f5630303031,0;0001010000ff,C,{dt},0;0101010700ff,U,12,0", "Kamstrup_notification_body", dt
    if pos == "kamstrup_apdu":     # for frames the APDU clock is the meter clock
        return f"list.enc kamstrup {L.gen_header(rng).rsplit(',', 1)[0]},T{dt} 25,4b616d73747275705f5630303031,0;0101010700ff,U,12,0", "Kamstrup_frame", dt
    raise ValueError(pos)


POSITIONS = ["apdu_tagged", "apdu_untagged", "aidon_element", "kaifa_list_clock", "kaifa_obis_clock", "kamstrup_element", "kamstrup_apdu"]


def _run(res, cases, family):
    answers = lib.drive([c[0] for c in cases])
    for (rq, dn, dt), a in zip(cases, answers):
        wire, model, spec, wf = L.parse_answer(a)
        impl = D.impl_decode(dn, bytes.fromhex(wire))
        res.evaluations += 1
        case = {"op": "list.enc", "request": rq, "decoder": dn, "datetime": dt}
        if impl != model:
            res.tie_break(case, impl[:300], model[:300], family)
        want = "meter_datetime=" + expected_dt(dt)
        if want not in impl.strip("{}").split(","):
            res.prop_failure(case, f"{dn}: transmitted date-time {dt} should decode to {want}, got {impl[:300]}", family)
        res.nontriv((dn, dt))
        res.count(family)
    if cases:
        res.sample({"family": family, "request": cases[len(cases) // 2][0][:300]})


def run(res, tier, seed, widen=1):
    rng = lib.rng_for(seed, "C10")
    res.rule = ("valid date-times (boundary: leap days, year 1 and 9999, 23:59:59, hundredths 0/99/unspecified, deviation -720/0/720/"
                "unspecified, all status octets, any day of week; plus seeded) in each syntactic position: tagged / untagged APDU header, Aidon "
                "clock element, Kaifa positional clock, Kaifa OBIS-tagged clock, Kamstrup clock element, Kamstrup frame header")
    n = (400 if tier == "quick" else 12000) * widen
    for pos in POSITIONS:
        _run(res, [make_case(rng, pos, i % 2 == 0) for i in range(n)], pos)
    # leap-day and end-of-range specials
    specials = ["2024.2.29.4.23.59.59.99.-720.255", "9999.12.31.5.23.59.59.N.N.0", "1.1.1.1.0.0.0.0.720.128", "2000.2.29.2.12.0.0.50.60.1",
                "2100.2.28.7.0.0.0.N.-60.7"]
    cases = []
    for dt in specials:
        for st in range(0, 256, 5 if tier == "quick" else 1):
            d2 = ".".join(dt.split(".")[:-1] + [str(st)])
            cases.append((f"list.enc aidon - C,0000010000ff,{d2}", "Aidon_notification_body", d2))
    _run(res, cases, "status_octets")


def search(res, tier, seed):
    run(res, "quick", seed + 7919, widen=3)


def replay(payload, res):
    c = payload["case"]
    _run(res, [(c["request"], c["decoder"], c["datetime"])], "replay")
    for f in res.prop_failures:
        print("REPLAY property failure:", f["what"])
    print("REPLAY", "fails" if res.prop_failures else "passes")
    return 1 if res.prop_failures else 0
