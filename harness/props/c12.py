"""C12 — AutoDecoder picks a decoder that accepts the message, across any history."""
from __future__ import annotations

import itertools
import logging

import dec_common as D
import hdlc_common as H
import lib
import lists_common as L
from props import c11 as C11

ASSUMPTIONS = ["'accepts' = the individual real decoder returns a dictionary without raising",
               "own-decoder theorems cover frames of the three meters and P1 blocks on a fresh AutoDecoder and every message under a "
               "same-decoder history; bare notification bodies on a fresh AutoDecoder under the explicit octet-level hypothesis noApduStart "
               "(octets 9.. do not read as an APDU date-time followed by a list; Props/C12OwnBody.lean, with checked witnesses that it is needed)"]


def build_pool(rng, n_each=1):
    """[(payload bytes, own decoder name or None)]"""
    pool = []
    reqs, owners = [], []
    for m, pre in (("aidon", "Aidon"), ("kaifa_values", "Kaifa"), ("kaifa_obis", "Kaifa"), ("kamstrup", "Kamstrup")):
        for _ in range(n_each):
            desc = L.GEN[m](rng)
            # the own-decoder theorems for Kamstrup lists (own_kamstrup_frame_fresh / own_kamstrup_body_fresh) require a
            # structure length octet >= 2; with 0 or 1 the Kaifa decoders, which come first, take the list for one of theirs
            # (proved necessary by checked witnesses in Props/C12More.lean, C12OwnBody.lean). Such messages stay in the pool,
            # without an own-decoder claim.
            in_domain = not (m == "kamstrup" and int(desc.split(",")[0]) < 2)
            reqs.append(f"list.enc {m} {L.gen_header(rng, clock=rng.choice(['T', 'U']))} {desc}")
            owners.append(pre + "_frame" if in_domain else None)
            reqs.append(f"list.enc {m} - {desc}")
            owners.append(pre + "_notification_body" if in_domain else None)
    for rq, own, a in zip(reqs, owners, lib.drive(reqs)):
        wire, model, spec, wf = L.parse_answer(a)
        if wf and model.startswith("{"):
            pool.append((bytes.fromhex(wire), own))
    for name, b in D.fixtures().items():
        if "test_dlde" in name:
            continue
        pool.append((b, None))
    for _ in range(2 * n_each):
        while True:
            t = C11.render_block(C11.gen_block(rng))
            if D.impl_decode("P1", t).startswith("{"):
                break
        pool.append((t, "P1"))
    return pool


def junk(rng, pool):
    k = rng.randrange(4)
    if k == 0:
        return bytes(rng.randrange(256) for _ in range(rng.choice([0, 1, 5, 40])))
    b = rng.choice(pool)[0]
    if k == 1:
        return b[:rng.randrange(len(b))]
    return D.mutate(rng, b)


def individual(payload):
    """per decoder: rendered dict or None (rejects)"""
    out = []
    for n in D.NAMES:
        r = D.impl_decode(n, payload)
        out.append(r if r.startswith("{") else None)
    return out


def check_history(res, prev0, payloads, impl, family, case):
    steps = impl.split(" ; ")
    prev = prev0
    for p, st in zip(payloads, steps):
        if st.startswith("EXC"):
            res.prop_failure(case, f"AutoDecoder raised {st}", family)
            return
        r, idx = st.rsplit(" @", 1)
        idx = None if idx == "N" else int(idx)
        ind = individual(p)
        if (r == "None") != all(x is None for x in ind):
            res.prop_failure(case, f"result is {r[:60]} but individually accepting decoders are {[D.NAMES[i] for i, x in enumerate(ind) if x is not None]}", family)
            return
        if r == "None":
            if idx != prev:
                res.prop_failure(case, "previous_success_decoder changed on a payload nobody accepts", family)
                return
        else:
            start = prev or 0
            order = [(i + start) % 7 for i in range(7)]
            first = next(i for i in order if ind[i] is not None)
            if idx != first or r != ind[first]:
                res.prop_failure(case, f"decoded by index {idx}, first accepting decoder in cyclic order from {start} is {first} ({D.NAMES[first]})", family)
                return
        prev = idx


def run(res, tier, seed, widen=1):
    rng = lib.rng_for(seed, "C12")
    logging.disable(logging.CRITICAL)
    res.rule = ("pool: genuine messages of every supported list (frame and bare body, from the Lean spec encoders and the repository's test "
                "fixtures), P1 blocks, junk (random, truncated, mutated); histories exhaustively to length 2 (quick) / 3 (thorough) over a "
                "14-element pool, randomly up to length 30; each step judged against the individual real decoders; non-trivial = distinct histories")
    pool = build_pool(rng, 1)
    small = [pool[i] for i in range(0, len(pool), max(1, len(pool) // 11))][:11] + [(junk(rng, pool), None) for _ in range(3)]
    hist = []
    depth = 2 if tier == "quick" else 3
    for ln in range(1, depth + 1):
        for combo in itertools.product(range(len(small)), repeat=ln):
            hist.append((None, [small[i][0] for i in combo]))
    big = build_pool(rng, 3 if tier == "quick" else 12)
    for _ in range((400 if tier == "quick" else 8000) * widen):
        n = rng.choice([1, 2, 3, 5, 10, 30])
        ps = [(rng.choice(big)[0] if rng.random() < 0.7 else junk(rng, big)) for _ in range(n)]
        hist.append((rng.choice([None, None, 0, 1, 2, 3, 4, 5, 6]), ps))
    answers = lib.drive([f"auto {'N' if p is None else p} {lib.chunks_arg(ps)}" for p, ps in hist])
    for (prev, ps), a in zip(hist, answers):
        impl = D.impl_auto(prev, ps)
        res.evaluations += 1
        case = {"op": "auto", "prev": prev, "payloads": [p.hex() for p in ps]}
        if impl != a:
            res.tie_break(case, impl[:300], a[:300], "history")
        check_history(res, prev, ps, impl, "history", case)
        res.nontriv((prev, tuple(ps)))
    res.count("histories", len(hist))
    # own decoder: fresh and same-meter same-form history; first the witnesses of defect D14 (7-bit bodies with parentheses)
    witnesses = [(bytes.fromhex("02010628292829"), "Kaifa_notification_body"),
                 (bytes.fromhex("0201060000050a"), "Kaifa_notification_body")]
    for payload, own in witnesses + big:
        if own is None:
            continue
        res.evaluations += 1
        case = {"op": "auto", "prev": None, "payloads": [payload.hex()]}
        r = D.impl_auto(None, [payload])
        if " @" not in r:
            res.prop_failure(case, f"AutoDecoder failed on a genuine {own} message: {r[:80]}", "own_fresh")
            continue
        idx = r.rsplit(" @", 1)[1]
        if idx == "N" or D.NAMES[int(idx)] != own:
            res.prop_failure(case, f"genuine {own} message on a fresh AutoDecoder was decoded by {idx}", "own_fresh")
        r2 = D.impl_auto(D.NAMES.index(own), [payload, payload])
        if any(" @" not in s or s.rsplit(" @", 1)[1] != str(D.NAMES.index(own)) for s in r2.split(" ; ")):
            res.prop_failure(case, f"genuine {own} message after a same-form history was not decoded by its own decoder: {r2[-40:]}", "own_history")
        res.count("own_" + own)
    # decode_message on P1 readout OBJECTS (genuine, and with line noise incl. non-ASCII octets) under every history
    import p1_common as P
    from han import dlde
    from han.dlde import DataReadout
    mreqs, mmeta = [], []
    for n in range((120 if tier == "quick" else 3000) * widen):
        ro = bytearray(P.gen_readout(rng))
        for _ in range(rng.choice([0, 0, 1, 1, 2])):
            ro[rng.randrange(len(ro))] = rng.randrange(128, 256) if rng.random() < 0.5 else rng.randrange(128)
        ro = bytes(ro)
        for prev in ((None, 0, 1, 2, 3, 4, 5, 6) if n % 5 == 0 else (rng.choice([None, 0, 1, 2, 3, 4, 5, 6]),)):
            mreqs.append(f"automsg {'N' if prev is None else prev} P {lib.hexs(ro)}")
            mmeta.append((prev, ro))
    for (prev, ro), a in zip(mmeta, lib.drive(mreqs)):
        try:
            msg = DataReadout(ro)
        except Exception:  # noqa
            continue
        case = {"op": "automsg", "prev": prev, "kind": "P", "hex": ro.hex()}
        res.evaluations += 1
        try:
            ad = D.new_autodecoder(prev)
        except D.PrimerFailed as ex:
            res.tie_break(case, str(ex), "the model decodes the genuine primer with its own decoder", "message_p1")
            continue
        try:
            r = ad.decode_message(msg)
            after = D.remembered(ad)
        except Exception as ex:  # noqa
            res.prop_failure(case, f"{D.exc_name(ex)} raised by decode_message / previous_success_decoder for a P1 readout message "
                                   f"(remembered decoder {prev})", "message_p1")
            continue
        impl = ("None" if r is None else D.render_dict(r)) + " @" + ("N" if after is None else str(after))
        if impl != a:
            res.tie_break(case, impl[:300], a[:300], "message_p1")
        # judged against the individual decoders: the P1 readout decoder is the only one that may accept a readout object's text
        if r is None and after != prev:
            res.prop_failure(case, f"result None but the remembered decoder changed from {prev} to {after}", "message_p1")
        if r is None:
            # None exactly when no individual decoder accepts: the P1 readout decoder, asked on its own
            try:
                own = dlde.decode_p1_readout(msg) if msg.payload else None
            except Exception:  # noqa
                own = None
            if own is not None:
                res.prop_failure(case, "result None although decode_p1_readout accepts this readout (is_valid "
                                       f"{_safe_valid(msg)}): {D.render_dict(own)[:120]}", "message_p1")
        res.count("message_p1")
        res.nontriv(("msgP", prev, ro))
    # decode_message == decode_message_payload(payload) for HDLC frames and DLMS messages
    from han.autodecoder import AutoDecoder
    from han.common import DlmsMessage
    from han.hdlc import HdlcFrameReader
    reqs, meta = [], []
    for payload, own in big[: (60 if tier == "quick" else 400)]:
        if not payload or len(payload) > 1900:
            continue
        frame = H.make_frame(rng, info=payload)
        f = HdlcFrameReader(False, False).read(b"\x7e" + frame + b"\x7e")
        if len(f) != 1:
            continue
        variants = [(f[0], "H", frame, payload), (DlmsMessage(payload), "D", payload, payload)]
        # the same for messages that are NOT valid but carry a payload: a frame whose check sequence is damaged (readers hand
        # these out, is_valid False, information field intact) and DLMS messages of 1..4 octets (a DLMS message is valid from 5)
        bad = bytearray(frame)
        bad[-1 - rng.randrange(2)] ^= 1 << rng.randrange(8)
        fb = HdlcFrameReader(False, False).read(b"\x7e" + bytes(bad) + b"\x7e")
        if len(fb) == 1 and FLAG_FREE(bad):
            variants.append((fb[0], "H", bytes(bad), payload))
        short = rng.choice([payload[:4], payload[:rng.randrange(1, 5)], bytes.fromhex("02010600"), bytes.fromhex("0201060000")[: rng.randrange(3, 6)]])
        variants.append((DlmsMessage(short), "D", short, short))
        for msg, kind, hx, payload in variants:
            a1, a2 = AutoDecoder(), AutoDecoder()
            res.evaluations += 1
            case = {"op": "automsg", "kind": kind, "hex": hx.hex()}
            try:
                if bytes(msg.payload or b"") != payload:
                    continue
                r1 = a1.decode_message(msg)
                r2 = a2.decode_message_payload(payload)
                names = (a1.previous_success_decoder, a2.previous_success_decoder)
            except Exception as ex:  # noqa
                res.prop_failure(case, f"{D.exc_name(ex)} raised by decode_message / previous_success_decoder", "message_eq_payload")
                continue
            s1 = "None" if r1 is None else D.render_dict(r1)
            if s1 != ("None" if r2 is None else D.render_dict(r2)) or names[0] != names[1]:
                res.prop_failure(case, "decode_message differs from decode_message_payload(payload)", "message_eq_payload")
            reqs.append(f"automsg N {kind} {lib.hexs(hx)}")
            meta.append((case, s1))
    for (case, s1), a in zip(meta, lib.drive(reqs)):
        if s1 != a.rsplit(" @", 1)[0]:
            res.tie_break(case, s1[:200], a[:200], "automsg")
        res.count("message_eq_payload")
    res.sample({"pool_size": len(pool), "history": [p.hex()[:60] for p in hist[len(hist) // 2][1]][:4]})


def _safe_valid(msg):
    try:
        return bool(msg.is_valid)
    except Exception as ex:  # noqa
        return type(ex).__name__


def FLAG_FREE(fr):
    return 0x7E not in fr


def search(res, tier, seed):
    run(res, "quick", seed + 7919, widen=3)


def replay(payload, res):
    c = payload["case"]
    if c["op"] == "auto":
        ps = [bytes.fromhex(x) for x in c["payloads"]]
        impl = D.impl_auto(c["prev"], ps)
        print("impl :", impl[:600])
        print("model:", lib.drive([f"auto {'N' if c['prev'] is None else c['prev']} {lib.chunks_arg(ps)}"])[0][:600])
        check_history(res, c["prev"], ps, impl, "replay", c)
    elif c["op"] == "automsg" and "prev" in c:
        from han.common import DlmsMessage
        from han.dlde import DataReadout
        b = bytes.fromhex(c["hex"])
        try:
            ad = D.new_autodecoder(c["prev"])
            r = ad.decode_message(DataReadout(b) if c.get("kind") == "P" else DlmsMessage(b))
            print("result:", None if r is None else D.render_dict(r)[:300], "remembered:", D.remembered(ad))
            if r is None and c.get("kind") == "P":
                from han import dlde
                try:
                    own = dlde.decode_p1_readout(DataReadout(b)) if DataReadout(b).payload else None
                except Exception:  # noqa
                    own = None
                if own is not None:
                    print("decode_p1_readout on its own accepts:", D.render_dict(own)[:200])
                    res.prop_failure(c, "result None although decode_p1_readout accepts this readout", "replay")
        except Exception as ex:  # noqa
            print("raised:", D.exc_name(ex))
            res.prop_failure(c, f"{D.exc_name(ex)} raised", "replay")
    elif c["op"] == "automsg":
        from han.autodecoder import AutoDecoder
        from han.common import DlmsMessage
        from han.hdlc import HdlcFrameReader
        b = bytes.fromhex(c["hex"])
        msg = HdlcFrameReader(False, False).read(b"\x7e" + b + b"\x7e")[0] if c.get("kind") == "H" else DlmsMessage(b)
        try:
            r1 = AutoDecoder().decode_message(msg)
            r2 = AutoDecoder().decode_message_payload(bytes(msg.payload))
            s1, s2 = ("None" if r is None else D.render_dict(r) for r in (r1, r2))
            print("is_valid:", _safe_valid(msg), "| decode_message:", s1[:200], "| decode_message_payload(payload):", s2[:200])
            if s1 != s2:
                res.prop_failure(c, "decode_message differs from decode_message_payload(payload)", "replay")
        except Exception as ex:  # noqa
            print("raised:", D.exc_name(ex))
            res.prop_failure(c, f"{D.exc_name(ex)} raised", "replay")
    print("REPLAY", "fails" if res.prop_failures else "passes")
    return 1 if res.prop_failures else 0
