"""C01 — HDLC: a frame is reported valid exactly when it is intact, with exact fields, honest framing."""
from __future__ import annotations

import itertools

import hdlc_common as H
import hdlc_oracle as O
import lib

ASSUMPTIONS = ["the content of the input buffer before the read position is not modelled, only its length",
               "property verdicts on implementation output use harness/hdlc_oracle.py (Python transcription of Spec/HdlcWire.lean: Intact, positional fields, Carve)"]


def _run_cases(res, cases, family):
    """cases: list of (cfg, chunks)"""
    models = H.model_read(cases)
    for (cfg, chs), (mcalls, runeq) in zip(cases, models):
        icalls, exc = H.impl_read(cfg, chs, with_state=False)
        res.evaluations += 1
        case = {"op": "hdlc.read", "cfg": list(cfg), "chunks": [c.hex() for c in chs]}
        if exc:
            res.prop_failure(case, f"read() raised {exc}", family)
            continue
        if icalls != H.strip_state(mcalls):
            res.tie_break(case, icalls, H.strip_state(mcalls), family)
        frames = H.frames_of(icalls)
        why = O.check_c01(cfg, b"".join(chs), frames)
        if why:
            res.prop_failure(case, why, family)
        nvalid = sum(1 for f in frames if f.split(":")[1] == "1")
        if frames:
            res.nontriv((cfg, b"".join(chs)))
        res.count("frames", len(frames))
        res.count("valid_frames", nvalid)
        res.count(family)
    if cases:
        cfg, chs = cases[len(cases) // 2]
        res.sample({"family": family, "cfg": list(cfg), "chunks": [c.hex()[:60] for c in chs][:6]})


def run(res, tier, seed, widen=1):
    rng = lib.rng_for(seed, "C01")
    res.rule = ("streams: well-formed, single/multi bit flips, truncated, wrong length field, header-only, noise over a 9-symbol and the "
                "full alphabet, flag/escape dense x 4 configurations x {one chunk, byte-wise, random cuts}; plus all streams up to a small "
                "length over {7E,7D,A0,03,01}; non-trivial = distinct (cfg, stream) that returned at least one frame")
    n = (3000 if tier == "quick" else 80000) * widen
    cases = []
    for i in range(n):
        cfg = H.CFGS[i % 4]
        fam, data = H.gen_stream(rng, cfg)
        if not data:
            continue
        res.count("fam_" + fam)
        for chs in H.chunkings(rng, data, 2):
            cases.append((cfg, chs))
    for i in range(0, len(cases), 10000):
        _run_cases(res, cases[i:i + 10000], "generated")
    maxlen = 5 if tier == "quick" else 7
    alpha = [0x7E, 0x7D, 0xA0, 0x03, 0x01]
    cases = []
    for ln in range(1, maxlen + 1):
        for tup in itertools.product(alpha, repeat=ln):
            for cfg in H.CFGS:
                cases.append((cfg, [bytes(tup)]))
    for i in range(0, len(cases), 20000):
        _run_cases(res, cases[i:i + 20000], "exhaustive_small")
    res.extra["exhaustive_small_domain"] = f"all streams of length <= {maxlen} over 7E,7D,A0,03,01 x 4 cfgs (one chunk)"


def search(res, tier, seed):
    run(res, "quick", seed + 7919, widen=4)


def replay(payload, res):
    case = payload["case"]
    chs = [bytes.fromhex(c) for c in case["chunks"]]
    _run_cases(res, [(tuple(case["cfg"]), chs)], "replay")
    for f in res.prop_failures:
        print("REPLAY property failure:", f["what"])
    for t in res.tie_breaks:
        print("REPLAY impl/model disagreement:", t)
    print("REPLAY", "fails" if res.prop_failures else "passes")
    return 1 if res.prop_failures else 0
