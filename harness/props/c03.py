"""C03 — FCS-16 implementation equals RFC 1662 for every input.
Correspondence: real FastFrameCheckSequence16 vs Lean model (Model/Fcs.lean) vs Lean spec
(Spec/Rfc1662.lean, bit-serial)."""
from __future__ import annotations

import lib

ASSUMPTIONS = [
    "compute_checksum is modelled for start >= 0 and length >= 0 only (Python negative indexing is not modelled)",
]


def _impl():
    from han.fastframecheck import FastFrameCheckSequence16 as F
    return F


def _steps(res, pairs, family):
    F = _impl()
    reqs = [f"fcs.step {r} {b}" for r, b in pairs]
    ans = lib.drive(reqs)
    for (r, b), a in zip(pairs, ans):
        impl = F._next(r, b)
        parts = a.split()
        res.evaluations += 1
        if len(parts) != 2:
            raise lib.ToolFailure(f"driver: {a}")
        model, spec = int(parts[0]), int(parts[1])
        if impl != model:
            res.tie_break({"op": "fcs.step", "r": r, "b": b}, impl, model, family)
        if impl != spec:
            res.prop_failure({"op": "fcs.step", "r": r, "b": b}, f"_next({r},{b}) = {impl}, RFC 1662 serial step = {spec}", family)
    res.count(family, len(pairs))


def _messages(res, msgs, family):
    """msgs: list of (bytes, start, length)"""
    F = _impl()
    reqs = []
    for m, st, ln in msgs:
        reqs.append(f"fcs.msg {lib.hexs(m)} {st} {ln}")
        reqs.append(f"fcs.msg {lib.hexs(m[:-2])} 0 0")
    ans = lib.drive(reqs)
    for k, (m, st, ln) in enumerate(msgs):
        a = ans[2 * k].split()
        p = ans[2 * k + 1].split()
        if len(a) != 7 or len(p) != 7:
            raise lib.ToolFailure(f"driver: {ans[2*k]}")
        f = F()
        reg = F.INIT_FCS_16
        r_ref = 0xFFFF          # independent bit-serial register, to judge what is observed *between* updates
        observe = (k % 2 == 0)
        for pos, byte in enumerate(m):
            reg = f.update(byte)
            if observe:
                for i in range(8):
                    r_ref = (r_ref >> 1) ^ 0x8408 if (r_ref ^ (byte >> i)) & 1 else r_ref >> 1
                try:
                    seen = (bool(f.is_good), int(f.checksum), int(reg))
                except Exception as ex:  # noqa
                    seen = type(ex).__name__
                want = (r_ref == 0xF0B8, r_ref ^ 0xFFFF, r_ref)
                if seen != want:
                    res.prop_failure({"op": "fcs.msg", "hex": m[:pos + 1].hex(), "start": 0, "len": pos + 1, "observe_each": True},
                                     f"after update #{pos + 1} on one object (is_good, checksum, register) = {seen}, RFC 1662 gives {want}", family)
                    break
        try:
            comp = str(F.compute_checksum(m, st, ln))
        except Exception as ex:  # noqa
            comp = type(ex).__name__
        case = {"op": "fcs.msg", "hex": m.hex(), "start": st, "len": ln}
        res.evaluations += 1
        res.nontriv((m, st, ln))
        try:
            impl = [str(reg), str(f.checksum), "1" if f.is_good else "0", comp]
        except Exception as ex:  # noqa
            res.prop_failure(case, f"checksum / is_good raised {type(ex).__name__} after {len(m)} octets (RFC 1662 FCS of these octets: {a[5]})", family)
            continue
        if impl != a[:4]:
            res.tie_break(case, impl, a[:4], family)
        spec_reg, spec_fcs, spec_win = a[4], a[5], a[6]
        if impl[0] != spec_reg or impl[1] != spec_fcs:
            res.prop_failure(case, f"update/checksum gave reg={impl[0]} checksum={impl[1]}, RFC 1662 reg={spec_reg} fcs={spec_fcs}", family)
        if st + ln <= len(m) and comp != spec_win:
            res.prop_failure(case, f"compute_checksum={comp}, RFC 1662 FCS of the window={spec_win}", family)
        # residue: is_good exactly when the message ends with the FCS of the preceding octets, low octet first
        if len(m) >= 2:
            pf = int(p[5])
            expect_good = (m[-2] == pf % 256 and m[-1] == pf // 256)
            if f.is_good != expect_good:
                res.prop_failure(case, f"is_good={f.is_good} but trailer {'matches' if expect_good else 'does not match'} the RFC FCS {pf:#06x} of the preceding octets", family)
            res.count("good" if expect_good else "not_good")
    res.count(family, len(msgs))
    if msgs:
        m, st, ln = msgs[0]
        res.sample({"family": family, "hex": m.hex()[:80], "start": st, "len": ln})


def _table(res):
    F = _impl()
    ans = lib.drive(["fcs.table"])[0].split(",")
    impl = [str(x) for x in F.fast_frame_check_crc_table]
    res.evaluations += 256
    if impl != ans:
        bad = next((i for i in range(min(len(impl), len(ans))) if impl[i] != ans[i]), min(len(impl), len(ans)))
        res.prop_failure({"op": "fcs.table", "index": bad}, f"table[{bad}] differs from eight serial shifts of {bad} (or table length {len(impl)} != 256)", "table")
    res.count("table", 256)


def fcs_py(bs):
    """independent bit-serial FCS-16 used only to build valid trailers for the generator"""
    r = 0xFFFF
    for b in bs:
        for i in range(8):
            bit = (b >> i) & 1
            r = (r >> 1) ^ 0x8408 if (r ^ bit) & 1 else r >> 1
    return r ^ 0xFFFF


def _gen_messages(rng, n):
    msgs = []
    for i in range(n):
        ln = rng.choice([0, 1, 2, 3, 5, 8, 17, 40, 120, 300]) if i % 3 else rng.randint(0, 300)
        alpha = rng.choice([None, [0x7E, 0x7D, 0xFF, 0x00, 0xA0], [0, 255]])
        m = bytes(rng.choice(alpha) if alpha else rng.randrange(256) for _ in range(ln))
        kind = rng.randrange(6)
        if kind == 0 and len(m) >= 1:      # right trailer
            c = fcs_py(m)
            m = m + bytes([c & 0xFF, c >> 8])
        elif kind == 1 and len(m) >= 1:    # single bit flip in a right trailer or body
            c = fcs_py(m)
            mm = bytearray(m + bytes([c & 0xFF, c >> 8]))
            pos = rng.randrange(len(mm) * 8)
            mm[pos // 8] ^= 1 << (pos % 8)
            m = bytes(mm)
        elif kind == 2 and len(m) >= 1:    # swapped trailer octets
            c = fcs_py(m)
            m = m + bytes([c >> 8, c & 0xFF])
        w = rng.randrange(4)
        if w == 0:
            st, l2 = 0, len(m)
        elif w == 1:
            st = rng.randint(0, len(m))
            l2 = rng.randint(0, len(m) - st)
        elif w == 2:
            st = rng.randint(0, len(m) + 2)
            l2 = rng.randint(0, len(m) + 3)
        else:
            st, l2 = rng.randint(0, max(0, len(m) - 1)), 1
        msgs.append((m, st, l2))
    return msgs


def run(res, tier, seed, widen=1):
    rng = lib.rng_for(seed, "C03")
    res.rule = ("step domain: (register, octet) pairs; messages: byte strings up to 300 octets with right / bit-flipped / "
                "swapped trailers and random (start,length) windows; non-trivial = distinct (message, window)")
    _table(res)
    bs = sorted(set([0, 1, 0x7D, 0x7E, 0x80, 0xFF] + [rng.randrange(256) for _ in range(4 if tier == "quick" else 10)]))
    if tier == "thorough":
        # the full 2^24 step domain, in slices
        for b in range(256):
            _steps(res, [(r, b) for r in range(65536)], "step_full_domain")
        res.exhaustive = True
        res.extra["exhaustive_domain"] = "all 2^16 registers x 2^8 octets of _next"
    else:
        for b in bs:
            _steps(res, [(r, b) for r in range(65536)], "step_all_registers")
        rs = sorted(set([0, 1, 0xFFFF, 0xF0B8, 0x8408] + [rng.randrange(65536) for _ in range(1024)]))
        _steps(res, [(r, b) for r in rs for b in range(256)], "step_all_octets")
    n = (20000 if tier == "quick" else 300000) * widen
    msgs = _gen_messages(rng, n)
    for i in range(0, len(msgs), 50000):
        _messages(res, msgs[i:i + 50000], "messages")


def search(res, tier, seed):
    run(res, "quick", seed + 7919, widen=3)


def replay(payload, res):
    case = payload["case"]
    if case["op"] == "fcs.step":
        _steps(res, [(case["r"], case["b"])], "replay")
    elif case["op"] == "fcs.msg":
        _messages(res, [(bytes.fromhex(case["hex"]), case["start"], case["len"])], "replay")
    else:
        _table(res)
    for f in res.prop_failures:
        print("REPLAY property failure:", f["what"])
    for t in res.tie_breaks:
        print("REPLAY impl/model disagreement:", t)
    print("REPLAY", "fails" if res.prop_failures else "passes")
    return 1 if res.prop_failures else 0
