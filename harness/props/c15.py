"""C15 — AutoDecoder returns a dictionary or None for every input, and terminates."""
from __future__ import annotations

import logging
import signal
import time

import dec_common as D
import lib
import lists_common as L
from props import c11 as C11
from props import c12 as C12

ASSUMPTIONS = ["wall time and memory of the construct library are measured (time per octet recorded), not proved; the proved part is: no "
               "exception escapes the model, every modelled loop terminates independently of its fuel, P1 parsing is linear"]


class _Timeout(BaseException):      # not an Exception: the library's own `except Exception` must not swallow the alarm
    pass


def _alarm(signum, frame):
    raise _Timeout()


def run(res, tier, seed, widen=1):
    rng = lib.rng_for(seed, "C15")
    logging.disable(logging.CRITICAL)
    from han.autodecoder import AutoDecoder
    res.rule = ("byte strings: random, every kind of truncation and 1..5-octet mutation of genuine messages of every list type (type tags "
                "swapped, lengths altered, OBIS codes changed, date-time octets set to 0xFF), ASCII fragments with unbalanced parentheses and "
                "trailing garbage; each with every possible remembered decoder, under a 2 s alarm; non-trivial = distinct (payload, remembered)")
    pool = C12.build_pool(rng, 2 if tier == "quick" else 6)
    payloads = []
    n = (1500 if tier == "quick" else 40000) * widen
    for _ in range(n):
        b = rng.choice(pool)[0]
        payloads.append(D.mutate(rng, b) if rng.random() < 0.85 else bytes(rng.randrange(256) for _ in range(rng.choice([0, 1, 3, 20, 100]))))
    frag_alpha = b"1-0:.7(0)*kWabc()\r\n(()))!/ 9"
    for _ in range((600 if tier == "quick" else 15000) * widen):
        payloads.append(bytes(rng.choice(frag_alpha) for _ in range(rng.choice([1, 3, 8, 20, 60]))))
    payloads += [b"1.7.0(123", b"1.7.0(1)x", b"a(1)(2", b"(", b")", b"a(", b"a()b", b"a(1)(", b"1.7.0(1*kW*x)", b"1.7.0(" + b"(" * 2000, b"1.7.0(1)" * 3000]
    # numbers that Python's float()/int() treat specially (overflow to inf, inf/nan literals, underscores, blanks,
    # exponents, signs), with every unit class: float(...) * 1000 -> int(...) raises OverflowError / ValueError
    nums = [b"1e999", b"9e9303", b"inf", b"-inf", b"Infinity", b"nan", b"-nan", b"1e308", b"1.8e308", b"1e-400", b"1_0.5", b" 12 ",
            b"+5", b"-0", b"0x10", b"1e", b".5", b"5.", b"1,5", b"\t7", b"12e3", b"1E5", b"00.303", b"1e22", b"1e23"]
    for num in nums:
        for unit in (b"kW", b"kWh", b"kvar", b"kvarh", b"V", b"A", b"var", b"W", b""):
            payloads.append(b"1-0:1.7.0(" + num + (b"*" + unit if unit else b"") + b")\r\n")
    res.count("float_edge_texts", len(nums) * 9)
    cases = [(rng.choice([None, 0, 1, 2, 3, 4, 5, 6]), p) for p in payloads]
    # every remembered decoder on a slice
    for p in payloads[:150 if tier == "quick" else 2000]:
        for prev in (None, 0, 1, 2, 3, 4, 5, 6):
            cases.append((prev, p))
    answers = lib.drive([f"auto {'N' if prev is None else prev} {lib.hexs(p)}" for prev, p in cases])
    signal.signal(signal.SIGALRM, _alarm)
    worst = 0.0
    for (prev, p), a in zip(cases, answers):
        case = {"op": "auto", "prev": prev, "payloads": [p.hex()]}
        try:
            ad = D.new_autodecoder(prev)
        except D.PrimerFailed as ex:
            res.tie_break(case, str(ex), "the model decodes the genuine primer with its own decoder", "no_escape")
            continue
        res.evaluations += 1
        lib.heartbeat(case)
        signal.alarm(2)
        t0 = time.perf_counter()
        try:
            r = ad.decode_message_payload(p)
            after = D.remembered(ad)
            impl = ("None" if r is None else D.render_dict(r)) + " @" + ("N" if after is None else str(after))
        except _Timeout:
            res.prop_failure(case, "decode_message_payload did not return within 2 s", "no_escape")
            continue
        except Exception as ex:  # noqa
            res.prop_failure(case, f"{D.exc_name(ex)} escaped decode_message_payload", "no_escape")
            continue
        finally:
            signal.alarm(0)
        dt = time.perf_counter() - t0
        worst = max(worst, dt / (len(p) + 1))
        if r is not None and not isinstance(r, dict):
            res.prop_failure(case, f"returned {type(r).__name__}, neither a dictionary nor None", "no_escape")
        if impl != a:
            res.tie_break(case, impl[:300], a[:300], "no_escape")
        res.nontriv((prev, p))
        res.count("dict" if r is not None else "none")
    res.extra["worst_seconds_per_octet"] = worst
    _messages(res, rng, tier, widen, payloads)
    # P1 parser: real loop iterations vs the model's counter, linear bound
    texts = [p for p in payloads if p and all(c < 128 for c in p)][: (300 if tier == "quick" else 5000)]
    for t, a in zip(texts, lib.drive([f"p1.parse {lib.hexs(t)}" for t in texts])):
        res.evaluations += 1
        lib.heartbeat({"op": "p1.block", "hex": t.hex()})
        signal.alarm(2)
        try:
            isets, _ = C11.impl_parse(t)
        except _Timeout:
            res.prop_failure({"op": "p1.block", "hex": t.hex()}, "parse_p1_readout_content did not return within 2 s", "p1_parse")
            continue
        finally:
            signal.alarm(0)
        m = a.rsplit(" #", 1)
        if isets != m[0]:
            res.tie_break({"op": "p1.block", "hex": t.hex()}, isets[:200], a[:200], "p1_parse")
        if len(m) == 2 and int(m[1]) > 2 * len(t) + 2:
            res.prop_failure({"op": "p1.block", "hex": t.hex()}, f"{m[1]} loop iterations for {len(t)} characters", "p1_parse")
        res.count("p1_parse")
    res.sample({"payload": payloads[len(payloads) // 3].hex()[:120]})


def _messages(res, rng, tier, widen, payloads):
    """decode_message on message OBJECTS: P1 readouts (genuine, and with 1..3 octets replaced - half of them non-ASCII - in
    the identification line, the data lines or the end line) and DLMS messages, with every remembered decoder"""
    import p1_common as P
    from han.autodecoder import AutoDecoder
    from han.common import DlmsMessage
    from han.dlde import DataReadout
    msgs = []
    for _ in range((250 if tier == "quick" else 6000) * widen):
        ro = bytearray(P.gen_readout(rng))
        for _ in range(rng.choice([0, 1, 1, 2, 3])):
            ro[rng.randrange(len(ro))] = rng.randrange(128, 256) if rng.random() < 0.5 else rng.randrange(128)
        msgs.append(("P", bytes(ro)))
        # readout objects the reader never builds but a caller can: no LF at all (bare CR line ends, or everything on one
        # line), only the first LF missing, nothing between the identification and '!', '!' before the first line end
        k = rng.randrange(12)
        if k == 0:
            msgs.append(("P", bytes(ro).replace(b"\n", b"")))
        elif k == 1:
            msgs.append(("P", bytes(ro).replace(b"\r\n", b"")))
        elif k == 2:
            msgs.append(("P", bytes(ro).replace(b"\n", b"", 1)))
        elif k == 3:
            msgs.append(("P", bytes(ro[: max(ro.find(b"\r"), 1)]) + rng.choice([b"!", b"!\r", b"!ABCD", b"!\r\n", b"\r!\r"])))
        elif k == 4:
            msgs.append(("P", bytes(ro).replace(b"\r", b"")))
    for p in payloads[: (150 if tier == "quick" else 3000) * widen]:
        if p:
            msgs.append(("D", p))
    cases = []
    for n, (kind, b) in enumerate(msgs):
        for prev in ((None, 0, 1, 2, 3, 4, 5, 6) if n % 6 == 0 else (rng.choice([None, 0, 1, 2, 3, 4, 5, 6]),)):
            cases.append((prev, kind, b))
    answers = lib.drive([f"automsg {'N' if prev is None else prev} {kind} {lib.hexs(b)}" for prev, kind, b in cases])
    for (prev, kind, b), a in zip(cases, answers):
        try:
            msg = DataReadout(b) if kind == "P" else DlmsMessage(b)
        except Exception:  # noqa  (not a message object: the constructor rejects these bytes)
            res.count("message_rejected_by_constructor")
            continue
        try:
            ad = D.new_autodecoder(prev)
        except D.PrimerFailed as ex:
            res.tie_break({"op": "automsg", "prev": prev}, str(ex), "the model decodes the genuine primer with its own decoder", "message")
            continue
        res.evaluations += 1
        case = {"op": "automsg", "prev": prev, "kind": kind, "hex": b.hex()}
        lib.heartbeat(case)
        signal.alarm(2)
        try:
            r = ad.decode_message(msg)
            after = D.remembered(ad)
            impl = ("None" if r is None else D.render_dict(r)) + " @" + ("N" if after is None else str(after))
        except _Timeout:
            res.prop_failure(case, "decode_message did not return within 2 s", "message")
            continue
        except Exception as ex:  # noqa
            res.prop_failure(case, f"{D.exc_name(ex)} escaped decode_message", "message")
            continue
        finally:
            signal.alarm(0)
        if r is not None and not isinstance(r, dict):
            res.prop_failure(case, f"decode_message returned {type(r).__name__}, neither a dictionary nor None", "message")
        if impl != a:
            res.tie_break(case, impl[:300], a[:300], "message")
        res.nontriv((prev, kind, b))
        res.count("message_" + kind + ("_dict" if r is not None else "_none"))
        if kind == "P" and any(x >= 128 for x in b):
            res.count("message_P_non_ascii")


def search(res, tier, seed):
    run(res, "quick", seed + 7919, widen=3)


def replay(payload, res):
    from han.autodecoder import AutoDecoder
    c = payload["case"]
    logging.disable(logging.CRITICAL)
    signal.signal(signal.SIGALRM, _alarm)
    ok = True
    t0 = time.perf_counter()
    try:
        signal.alarm(5)
        if c["op"] == "automsg":
            from han.common import DlmsMessage
            from han.dlde import DataReadout
            ad = D.new_autodecoder(c["prev"])
            b = bytes.fromhex(c["hex"])
            r = ad.decode_message(DataReadout(b) if c["kind"] == "P" else DlmsMessage(b))
            print("result:", None if r is None else D.render_dict(r)[:300])
        elif c["op"] == "auto":
            ad = D.new_autodecoder(c["prev"])
            for p in c["payloads"]:
                r = ad.decode_message_payload(bytes.fromhex(p))
                print("result:", None if r is None else D.render_dict(r)[:300])
        else:
            print(C11.impl_parse(bytes.fromhex(c["hex"]))[0][:300])
    except BaseException as ex:  # noqa
        print("escaped:", type(ex).__name__)
        ok = False
    finally:
        signal.alarm(0)
    dt = time.perf_counter() - t0
    if dt > 2.0:
        print(f"took {dt:.1f} s (> 2 s for one message)")
        ok = False
    print("REPLAY", "passes" if ok else "fails")
    return 0 if ok else 1
