"""C18 — reconnect pacing: ExponentialBackOff, the loss breaker and _get_back_off_time.
(The timing of attempts on the event loop is exercised by the C17 check.)"""
from __future__ import annotations

import datetime
import itertools

import lib

ASSUMPTIONS = ["times are integers (microseconds) in the model; the real breaker is driven through a patched datetime.datetime.utcnow"]


def impl_backoff(mx, ops):
    from han.meter_connection import ExponentialBackOff
    b = ExponentialBackOff()
    b.max_delay = mx
    out = [b.current_delay_sec]
    n = 0
    spec = []
    for o in ops:
        if o == "f":
            b.failure()
            n += 1
        else:
            b.reset()
            n = 0
        out.append(b.current_delay_sec)
        spec.append(0 if n == 0 else min(2 ** (n - 1), mx))
    return out, spec


class _FakeDT(datetime.datetime):
    now_us = 0

    @classmethod
    def utcnow(cls):
        return datetime.datetime(2020, 1, 1) + datetime.timedelta(microseconds=cls.now_us)


def impl_breaker(thr, slp, delay, mx, losses):
    import han.meter_connection as mc

    async def fac():
        raise RuntimeError

    m = mc.ConnectionManager(fac)
    m.connection_lost_back_off_threshold = thr
    m.connection_lost_back_off_sleep_sec = slp
    m.back_off_connect_error._delay = delay
    m.back_off_connect_error.max_delay = mx
    out = ["%d/%d" % (1 if m._connection_lost_sleep_before_reconnect else 0, m._get_back_off_time())]
    with lib.patched_clock(mc, _FakeDT.utcnow):
        for t in losses:
            _FakeDT.now_us = t
            m._update_connection_lost_circuit_breaker()
            out.append("%d/%d" % (1 if m._connection_lost_sleep_before_reconnect else 0, m._get_back_off_time()))
    return " ".join(out)


def breaker_oracle(thr, slp, delay, mx, ls, rendered):
    """C18 on what the implementation reported: the back-off time is never shorter than the connect-error delay; two losses
    within the threshold -> at least the configured sleep; losses further apart -> exactly the connect-error delay"""
    why = []
    toks = rendered.split(" ")
    cur = min(delay, mx) if delay < mx else mx
    for k in range(1, len(ls)):
        within = (ls[k] - ls[k - 1]) < thr * 1000000
        bt = int(toks[k + 1].split("/")[1])
        if bt < cur:
            why.append(f"back-off time {bt} is shorter than the connect-error delay min(delay, max_delay) = {cur} (breaker {'active' if within else 'inactive'})")
        if within and bt < slp:
            why.append(f"losses {ls[k-1]} and {ls[k]} us are within {thr}s but the back-off time is {bt} < {slp}")
        if not within and bt != cur:
            why.append(f"losses further apart than the threshold but back-off time {bt} != connect-error delay {cur}")
    return why


def impl_instances(k, mxs, ops):
    """k ConnectionManagers alive at once; ops = [(instance, 'f'|'r')]; after every op, every instance's
    (current_delay_sec, _get_back_off_time()) - each must follow its OWN history only"""
    import han.meter_connection as mc

    async def fac():
        raise RuntimeError

    ms = [mc.ConnectionManager(fac) for _ in range(k)]
    for m, mx in zip(ms, mxs):
        m.back_off_connect_error.max_delay = mx
    snap = lambda: [(m.back_off_connect_error.current_delay_sec, m._get_back_off_time()) for m in ms]
    out = [snap()]
    for i, o in ops:
        if o == "f":
            ms[i].back_off_connect_error.failure()
        else:
            ms[i].back_off_connect_error.reset()
        out.append(snap())
    return out


def _instances(res, rng, n):
    cases = []
    for _ in range(n):
        k = rng.choice([2, 2, 3])
        mxs = [rng.choice([60, 60, 4, 3600, 300]) for _ in range(k)]
        ops = [(rng.randrange(k), rng.choice("fffr")) for _ in range(rng.randint(1, 30))]
        cases.append((k, mxs, ops))
    reqs = []
    for k, mxs, ops in cases:
        for i in range(k):
            reqs.append(f"backoff {mxs[i]} {''.join(o for j, o in ops if j == i) or '.'}")
    ans = iter(lib.drive(reqs))
    for k, mxs, ops in cases:
        model = []
        for i in range(k):
            toks = next(ans).split(" ")
            model.append([int(toks[0])] + [int(t.split("/")[0]) for t in toks[1:]])
        out = impl_instances(k, mxs, ops)
        res.evaluations += 1
        case = {"op": "instances", "k": k, "max": mxs, "ops": [[i, o] for i, o in ops]}
        seen = [0] * k
        bad = None
        for step, snap in enumerate(out):
            if step > 0:
                seen[ops[step - 1][0]] += 1
            for i in range(k):
                want = model[i][seen[i]]
                if snap[i] != (want, want):
                    bad = (step, i, snap[i], want)
                    break
            if bad:
                break
        if bad:
            step, i, got, want = bad
            res.tie_break(case, list(got), want, "instances")
            res.prop_failure(case, f"with {k} ConnectionManagers alive, after op #{step} manager {i} reports (current_delay_sec, back-off time) = {got}; "
                                   f"its own failure/reset history gives {want}", "instances")
        res.nontriv((k, tuple(mxs), tuple(ops)))
    res.count("instances", len(cases))


def _manager_pacing(res, rng, n):
    """the running manager (virtual-time loop): runs of failed attempts - the factory fails with a different exception class
    per attempt, OSError family and not - interleaved with successes and losses; after the n-th consecutive failure the next
    attempt comes no sooner than min(2^(n-1), max_delay) s and no later than the larger of that and the breaker sleep"""
    from props import c17
    import vloop
    for _ in range(n):
        script = []
        for _ in range(rng.choice([1, 2, 3])):
            script += [("fail", rng.choice([0, 0, 1]), None)] * rng.choice([1, 2, 3, 5, 8])
            script.append(("ok", rng.choice([0, 1]), rng.choice([1, 7, 30])))
        thr, slp, md = rng.choice([(5, 5, 60), (2, 9, 4), (10, 1, 3), (5, 5, 3600)])
        r = vloop.run_scenario(script, threshold=thr, sleep_sec=slp, max_delay=md)
        res.evaluations += 1
        case = {"op": "connmgr", "script": script, "close_at": None, "cfg": [thr, slp, md]}
        why = c17.oracle(script, r, False, thr, slp, md)
        if why:
            res.prop_failure(case, why, "manager_pacing")
        res.nontriv(("pacing", tuple(script), thr, slp, md))
    res.count("manager_pacing", n)


def run(res, tier, seed, widen=1):
    import logging
    logging.disable(logging.CRITICAL)
    rng = lib.rng_for(seed, "C18")
    res.rule = ("strategy object: all failure()/reset() sequences up to length 10 (quick) / 14 (thorough) x max_delay in {1,2,3,60,3600} and "
                "random sequences up to 200; breaker: random loss-time sequences x thresholds/sleeps x current delays; non-trivial = distinct cases")
    maxlen = 10 if tier == "quick" else 14
    cases = []
    for mx in (1, 2, 3, 60, 3600):
        for ln in range(0, maxlen + 1):
            for ops in itertools.product("fr", repeat=ln):
                cases.append((mx, "".join(ops)))
    for _ in range(500 * widen):
        cases.append((rng.choice([1, 5, 60, 100, 3600, rng.randint(1, 3600)]), "".join(rng.choice("fffr") for _ in range(rng.randint(1, 200)))))
    res.exhaustive = True
    res.extra["exhaustive_domain"] = f"all failure/reset sequences of length <= {maxlen} x max_delay in {{1,2,3,60,3600}}"
    reqs = [f"backoff {mx} {ops or '.'}" for mx, ops in cases]
    for (mx, ops), a in zip(cases, lib.drive(reqs)):
        out, spec = impl_backoff(mx, ops)
        res.evaluations += 1
        case = {"op": "backoff", "max": mx, "ops": ops}
        toks = a.split(" ")
        model = [int(toks[0])] + [int(t.split("/")[0]) for t in toks[1:]]
        if out != model:
            res.tie_break(case, out[-5:], model[-5:], "backoff")
        if out[1:] != spec or out[0] != 0:
            k = next(i for i, (x, y) in enumerate(zip(out[1:], spec)) if x != y) if out[0] == 0 else -1
            res.prop_failure(case, f"after {ops[:k + 1]!r} current_delay_sec = {out[k + 1]}, min(2^(n-1), max_delay) = {spec[k] if k >= 0 else 0}", "backoff")
        res.nontriv((mx, ops))
    res.count("backoff", len(cases))
    _instances(res, rng, (300 if tier == "quick" else 5000) * widen)
    bcases = []
    for _ in range(1500 * widen):
        thr, slp = rng.choice([5, 1, 10, 30]), rng.choice([5, 1, 20])
        delay, mx = rng.choice([0, 0, 1, 2, 8, 64]), rng.choice([60, 4, 3600])
        t, losses = 0, []
        for _ in range(rng.randint(0, 6)):
            t += rng.choice([0, 1, 999999, 1000000, thr * 1000000 - 1, thr * 1000000, thr * 1000000 + 1, rng.randrange(60000000)])
            losses.append(t)
        bcases.append((thr, slp, delay, mx, losses))
    reqs = [f"breaker {thr} {slp} {delay} {mx} {','.join(map(str, ls)) or '.'}" for thr, slp, delay, mx, ls in bcases]
    for (thr, slp, delay, mx, ls), a in zip(bcases, lib.drive(reqs)):
        i = impl_breaker(thr, slp, delay, mx, ls)
        res.evaluations += 1
        case = {"op": "breaker", "threshold": thr, "sleep": slp, "delay": delay, "max": mx, "losses": ls}
        if i != a:
            res.tie_break(case, i, a, "breaker")
        for why in breaker_oracle(thr, slp, delay, mx, ls, i):
            res.prop_failure(case, why, "breaker")
        res.nontriv(tuple(ls) + (thr, slp, delay, mx))
    res.count("breaker", len(bcases))
    _manager_pacing(res, rng, (60 if tier == "quick" else 1500) * widen)
    res.sample({"backoff": cases[len(cases) // 2], "breaker": bcases[0]})


def search(res, tier, seed):
    run(res, "quick", seed + 7919, widen=3)


def replay(payload, res):
    c = payload["case"]
    if c["op"] == "connmgr":
        from props import c17
        return c17.replay(payload, res)
    if c["op"] == "instances":
        import random
        _instances_replay = impl_instances(c["k"], c["max"], [(i, o) for i, o in c["ops"]])
        print("snapshots", _instances_replay[-3:])
        own = []
        for i in range(c["k"]):
            n = 0
            for j, o in c["ops"]:
                if j == i:
                    n = n + 1 if o == "f" else 0
            own.append(0 if n == 0 else min(2 ** (n - 1), c["max"][i]))
        ok = [x[0] for x in _instances_replay[-1]] == own
        print("final", _instances_replay[-1], "own histories give", own)
    elif c["op"] == "backoff":
        out, spec = impl_backoff(c["max"], c["ops"])
        ok = out[1:] == spec and out[0] == 0
        print("delays", out, "spec", spec)
    else:
        r = impl_breaker(c["threshold"], c["sleep"], c["delay"], c["max"], c["losses"])
        print(r)
        why = breaker_oracle(c["threshold"], c["sleep"], c["delay"], c["max"], c["losses"], r)
        for w in why:
            print("REPLAY property failure:", w)
        ok = not why
    print("REPLAY", "passes" if ok else "fails")
    return 0 if ok else 1
