"""Executable statements of the HDLC properties, evaluated on what the IMPLEMENTATION returned.
Used for the failing-input search and as a second opinion next to the model comparison."""
from __future__ import annotations

from hdlc_common import fcs16, FLAG, ESC


def parse_frame(r: str):
    if r.startswith("UNSTABLE(") and r.endswith(")"):
        # the two accessor passes disagreed: judge the pass that claims validity (the claim a user could act on)
        a, b = r[len("UNSTABLE("):-1].split("|", 1)
        r = a if a.split(":")[1] == "1" else b
    p = r.split(":")
    def opt(x):
        return None if x == "N" else int(x)
    def opthex(x):
        return None if x == "N" else (b"" if x == "-" else bytes.fromhex(x))
    return {
        "bytes": b"" if p[0] == "-" else bytes.fromhex(p[0]), "valid": p[1] == "1", "payload": opthex(p[2]),
        "fcs": opt(p[3]), "len": opt(p[4]), "dst": opthex(p[5]), "src": opthex(p[6]), "ctl": opt(p[7]),
        "hcs": opt(p[8]), "fmt": opt(p[9]), "seg": None if p[10] == "N" else p[10] == "1",
    }


def intact(d: bytes) -> bool:
    if len(d) < 2:
        return False
    if ((d[0] << 8 | d[1]) & 0x7FF) != len(d):
        return False
    c = fcs16(d[:-2])
    return d[-2] == (c & 0xFF) and d[-1] == (c >> 8)


def parse_addr(d: bytes, pos: int):
    out = bytearray()
    i = pos
    while i < len(d):
        out.append(d[i])
        if d[i] & 1:
            return bytes(out)
        i += 1
    return None


def expected_fields(d: bytes):
    """what the accessors must return for frame octets d (positional reading of ISO 13239 format 3)"""
    e = {"len": None, "dst": None, "src": None, "ctl": None, "hcs": None, "payload": None, "fcs": None, "fmt": None, "seg": None}
    if len(d) >= 2:
        ff = d[0] << 8 | d[1]
        e["len"], e["fmt"], e["seg"] = ff & 0x7FF, (ff >> 12) & 0xF, bool((ff >> 11) & 1)
        e["dst"] = parse_addr(d, 2) if len(d) > 2 else None
        if e["dst"] is not None:
            e["src"] = parse_addr(d, 2 + len(e["dst"]))
        if e["src"] is not None:
            p = 2 + len(e["dst"]) + len(e["src"])
            if len(d) > p:
                e["ctl"] = d[p]
            if len(d) > p + 2:
                e["hcs"] = d[p + 1] << 8 | d[p + 2]
            ip = p + 3
            if len(d) > ip:
                e["payload"] = d[ip:-2]
            if len(d) >= ip:
                e["fcs"] = d[-2] << 8 | d[-1]
    return e


def unstuff(seg: bytes) -> bytes:
    out = bytearray()
    i = 0
    while i < len(seg):
        if seg[i] == ESC:
            if i + 1 < len(seg):
                out.append(seg[i + 1] ^ 0x20)
            i += 2
        else:
            out.append(seg[i])
            i += 1
    return bytes(out)


def carve(stuffing: bool, stream: bytes, frames) -> bool:
    """Spec `Carve`: frames occur in order as (un-stuffed) segments between two flags, disjoint.
    Backtracking search (streams in the checks are short)."""
    flags = [i for i, b in enumerate(stream) if b == FLAG]
    memo = {}

    def go(k, lo):  # frame k must open at a flag index >= lo
        if k == len(frames):
            return True
        key = (k, lo)
        if key in memo:
            return memo[key]
        res = False
        for a in flags:
            if a < lo:
                continue
            for b in flags:
                if b <= a:
                    continue
                seg = stream[a + 1:b]
                d = unstuff(seg) if stuffing else seg
                if d == frames[k] and go(k + 1, b):
                    res = True
                    break
                if stuffing:
                    pass
            if res:
                break
        memo[key] = res
        return res

    return go(0, 0)


def check_c01(cfg, stream: bytes, rendered_frames):
    """returns a description of the first way the implementation's output violates C01, or None"""
    fs = [parse_frame(r) for r in rendered_frames]
    for f in fs:
        d = f["bytes"]
        if f["valid"] != intact(d):
            return f"frame {d.hex()}: is_valid={f['valid']} but intact={intact(d)}"
        if f["valid"]:
            e = expected_fields(d)
            for k in ("len", "dst", "src", "ctl", "hcs", "payload", "fcs"):
                if f[k] != e[k]:
                    return f"valid frame {d.hex()}: accessor {k} returned {f[k]!r}, the frame's octets say {e[k]!r}"
    if len(stream) <= 400 and not carve(bool(cfg[0]), stream, [f["bytes"] for f in fs]):
        return "returned frames are not contiguous, disjoint, in-order segments between flags of the input"
    return None
