#!/usr/bin/env python3
"""Confirm a seeded change (patch.diff + demo.py produced independently) and run the checks against it.

usage: seedcheck.py <seed-dir> <seed-id> <property-id> [--checks C01,C06,...] [--isolated]
  --isolated: step 2 runs in a private copy of /verif against a private patched worktree of /repo
              (AMSHAN_REPO), so that several seeds can be checked in parallel and /repo is never touched
  1. scratch worktree of /repo: apply the patch, run the repository's tests (must pass), run demo.py
     (must fail), reverse the patch, run demo.py (must pass);
  2. apply the patch to /repo, run the registered quick checks, restore /repo;
  3. write /verif/seeded/<seed-id>/{patch.diff,demo.py,meta.json}.
Nothing is ever committed to /repo."""
import json
import os
import shutil
import subprocess
import sys
import time

VERIF = os.path.normpath(os.path.join(os.path.dirname(os.path.abspath(__file__)), ".."))


def sh(cmd, cwd=None, timeout=3600, env=None):
    p = subprocess.run(cmd, cwd=cwd, shell=True, stdout=subprocess.PIPE, stderr=subprocess.STDOUT, text=True, timeout=timeout, env=env)
    return p.returncode, p.stdout


def run_in_place(patch, seed_id, todo, meta):
    """run the checks against the patched /repo itself, then restore it"""
    rc, out = sh("git -C /repo status --porcelain")
    if out.strip():
        print("REFUSING: /repo is not clean:", out)
        return None
    rc, out = sh(f"git -C /repo apply {patch}")
    evdir = os.path.join(VERIF, "evidence")
    evbak = f"/tmp/evidence_backup_{seed_id}"
    shutil.rmtree(evbak, ignore_errors=True)
    shutil.copytree(evdir, evbak)
    try:
        for c in todo:
            t0 = time.time()
            rc, out = sh(f"./check {c} --tier quick", cwd=VERIF, timeout=1800)
            viol = [l for l in out.splitlines() if l.startswith("VIOLATION")]
            meta["checks"][c] = {"exit": rc, "violation_lines": viol[:3], "wall_s": round(time.time() - t0, 1),
                                 "summary": next((l for l in out.splitlines() if l.startswith("[" + c + "]")), "")[:300]}
            print(c, "exit", rc, viol[:1])
    finally:
        sh("git -C /repo checkout -- .")
        # evidence files must come from runs against the unchanged tree: restore them
        shutil.rmtree(evdir, ignore_errors=True)
        shutil.copytree(evbak, evdir)
        shutil.rmtree(evbak, ignore_errors=True)
        # restore Generated.lean to the clean tree's
        sh("/venv/bin/python harness/extract.py", cwd=VERIF)
    return ("patch applied to /repo, ./check <id> --tier quick for: " + ",".join(todo) + "; /repo restored with git checkout")


def main():
    seed_dir, seed_id, pid = sys.argv[1], sys.argv[2], sys.argv[3]
    checks = None
    if "--checks" in sys.argv:
        checks = sys.argv[sys.argv.index("--checks") + 1].split(",")
    patch = os.path.join(seed_dir, "patch.diff")
    demo = os.path.join(seed_dir, "demo.py")
    meta = {"seed_id": seed_id, "breaks_property": pid, "confirmed": {}, "checks": {}}
    wt = f"/tmp/seedverify_{seed_id}"
    sh(f"git -C /repo worktree remove --force {wt}")
    rc, out = sh(f"git -C /repo worktree add -q --detach {wt} HEAD")
    try:
        rc, out = sh(f"git apply {patch}", cwd=wt)
        meta["confirmed"]["patch_applies"] = rc == 0
        if rc != 0:
            print("patch does not apply:", out)
        rc, out = sh("/venv/bin/python -m pytest -q -p no:cacheprovider 2>&1 | tail -3", cwd=wt)
        meta["confirmed"]["tests_pass_with_patch"] = " passed" in out and "failed" not in out
        meta["confirmed"]["tests_tail"] = out.strip().splitlines()[-1] if out.strip() else ""
        shutil.copy(demo, os.path.join(wt, "demo.py"))
        env = dict(os.environ, PYTHONPATH=wt, PYTHONDONTWRITEBYTECODE="1")
        rc1, out1 = sh("timeout 900 /venv/bin/python demo.py", cwd=wt, env=env)
        meta["confirmed"]["demo_fails_with_patch"] = rc1 != 0
        sh(f"git apply -R {patch}", cwd=wt)
        rc2, out2 = sh("timeout 900 /venv/bin/python demo.py", cwd=wt, env=env)
        meta["confirmed"]["demo_passes_without_patch"] = rc2 == 0
        meta["confirmed"]["demo_output_with_patch"] = out1[-400:]
    finally:
        sh(f"git -C /repo worktree remove --force {wt}")
    man = json.load(open(os.path.join(VERIF, "MANIFEST.json")))
    allchecks = [c["property_id"] for c in man["checks"]]
    todo = checks or allchecks
    if "--isolated" in sys.argv:
        rwt, vcopy = f"/tmp/seedrun_repo_{seed_id}", f"/tmp/seedrun_verif_{seed_id}"
        sh(f"git -C /repo worktree remove --force {rwt}")
        shutil.rmtree(vcopy, ignore_errors=True)
        sh(f"git -C /repo worktree add -q --detach {rwt} HEAD")
        try:
            sh(f"git apply {patch}", cwd=rwt)
            shutil.copytree(VERIF, vcopy, symlinks=True, ignore=shutil.ignore_patterns(".git", "replays"))
            env = dict(os.environ, AMSHAN_REPO=rwt)
            for c in todo:
                t0 = time.time()
                rc, out = sh(f"./check {c} --tier quick", cwd=vcopy, timeout=1800, env=env)
                viol = [l for l in out.splitlines() if l.startswith("VIOLATION")]
                meta["checks"][c] = {"exit": rc, "violation_lines": viol[:3], "wall_s": round(time.time() - t0, 1),
                                     "summary": next((l for l in out.splitlines() if l.startswith("[" + c + "]")), "")[:300]}
                print(seed_id, c, "exit", rc, viol[:1], flush=True)
        finally:
            sh(f"git -C /repo worktree remove --force {rwt}")
            shutil.rmtree(vcopy, ignore_errors=True)
        how = (f"private patched worktree of /repo (AMSHAN_REPO) and a private copy of /verif, ./check <id> --tier quick for: " + ",".join(todo))
    else:
        how = run_in_place(patch, seed_id, todo, meta)
        if how is None:
            return 2
    meta["caught_by"] = [c for c, r in meta["checks"].items() if r["exit"] == 1]
    meta["caught_by_own_check"] = meta["checks"].get(pid, {}).get("exit") == 1
    notes = os.path.join(seed_dir, "NOTES.md")
    dst = os.path.join(VERIF, "seeded", seed_id)
    old_meta = os.path.join(dst, "meta.json")
    if os.path.exists(notes):
        meta["needs_to_manifest"] = open(notes).read()[:1500]
    elif os.path.exists(old_meta):      # re-run from seeded/<id>/: keep the author's notes recorded the first time
        meta["needs_to_manifest"] = json.load(open(old_meta)).get("needs_to_manifest", "")
    else:
        meta["needs_to_manifest"] = ""
    meta["what_was_run"] = "scratch worktree: git apply; pytest (existing suite); demo.py with and without the patch; then " + how
    os.makedirs(dst, exist_ok=True)
    if os.path.abspath(seed_dir) != os.path.abspath(dst):
        shutil.copy(patch, os.path.join(dst, "patch.diff"))
        shutil.copy(demo, os.path.join(dst, "demo.py"))
    json.dump(meta, open(os.path.join(dst, "meta.json"), "w"), indent=1)
    print(json.dumps({k: meta[k] for k in ("confirmed", "caught_by", "caught_by_own_check")}, indent=1)[:1500])
    return 0


if __name__ == "__main__":
    sys.exit(main())
