"""Adapters for the decoders (aidon, kaifa, kamstrup, P1, AutoDecoder): canonical rendering of
results, genuine fixtures harvested from the repository's tests, mutation generators."""
from __future__ import annotations

import datetime
import importlib
import logging
import os
import sys

import lib

NAMES = ["Aidon_frame", "Kaifa_frame", "Kamstrup_frame", "P1", "Aidon_notification_body", "Kaifa_notification_body", "Kamstrup_notification_body"]


def render_val(v) -> str:
    if isinstance(v, bool):
        return "o" + "bool"
    if isinstance(v, int):
        return "i%d" % v
    if isinstance(v, float):
        if v != v:
            return "fnan"
        if v in (float("inf"), float("-inf")):
            return "finf" if v > 0 else "f-inf"
        n, d = v.as_integer_ratio()
        return "f%s%d/%d" % ("-" if n < 0 else "", abs(n), d)
    if isinstance(v, str):
        return "s" + lib.hexs(v.encode("latin-1", "replace"))
    if isinstance(v, datetime.datetime):
        tz = "N" if v.tzinfo is None else str(int(v.utcoffset().total_seconds() // 60))
        return "d%d-%d-%d-%d-%d-%d-%d-%s" % (v.year, v.month, v.day, v.hour, v.minute, v.second, v.microsecond, tz)
    if hasattr(v, "keys"):
        return "oDateTime" if "datetime" in v else "oNullData"
    return "o" + type(v).__name__


def render_dict(d) -> str:
    return "{" + ",".join(f"{k}={render_val(d[k])}" for k in sorted(d)) + "}"


def exc_name(ex) -> str:
    import construct
    if isinstance(ex, construct.ConstructError):
        return "ConstructError"
    if isinstance(ex, UnicodeDecodeError):
        return "UnicodeDecodeError"
    return type(ex).__name__


def decoder_fn(name):
    from han.autodecoder import AutoDecoder
    return dict(AutoDecoder.payload_decoder_functions)[name]


# ------------------------------------------------------------------ module-level tables must not change by decoding
TABLE_EVENTS = []      # [(case, description)]: a decode call after which a module-/class-level dict, list or set differs
_last_tables = None


def _tables():
    import inspect
    out = {}
    for mn in ("obis_map", "kaifa", "kamstrup", "aidon", "cosem", "dlde", "obis", "autodecoder"):
        try:
            m = importlib.import_module("han." + mn)
        except Exception:  # noqa
            continue
        for k, v in list(vars(m).items()):
            if k.startswith("__"):
                continue
            if isinstance(v, (dict, list, set)):
                out[f"{mn}.{k}"] = v
            elif inspect.isclass(v) and getattr(v, "__module__", "") == m.__name__:
                for ck, cv in list(vars(v).items()):
                    if not ck.startswith("__") and isinstance(cv, (dict, list, set)):
                        out[f"{mn}.{k}.{ck}"] = cv
    return out


def _tables_state():
    res = {}
    for k, v in _tables().items():
        try:
            res[k] = repr(sorted(v.items(), key=repr)) if isinstance(v, dict) else repr(v)
        except Exception:  # noqa
            res[k] = "?"
    return res


def tables_changed_by(case):
    """call after every decode: records when the call changed a module-level table (decoding must be a function of the
    payload and the AutoDecoder's remembered index only - the tables are constants of the model)"""
    global _last_tables
    cur = _tables_state()
    if _last_tables is not None and cur != _last_tables:
        names = sorted(k for k in set(cur) | set(_last_tables) if cur.get(k) != _last_tables.get(k))
        TABLE_EVENTS.append((case, "decoding changed the module-level table(s) " + ", ".join(names)
                             + " - later results depend on what was decoded before"))
    _last_tables = cur


def impl_decode(name, payload: bytes) -> str:
    logging.disable(logging.CRITICAL)
    if _last_tables is None:
        tables_changed_by(None)
    try:
        return render_dict(decoder_fn(name)(payload))
    except Exception as ex:  # noqa
        return exc_name(ex)
    finally:
        tables_changed_by({"op": "tables", "decoder": name, "payloads": [bytes(payload).hex()]})


# one genuine message per decoder (spec-encoded lists, a P1 line): decoding it on a fresh AutoDecoder makes that
# decoder the remembered one - the public way to put an AutoDecoder into a given history state
PRIMERS = {
    "Aidon_frame": "e6e7000f400000000c07e60912ba11311311fe791501020203090601019b6dacff12000002020f0316210203090600003e0700ff12000002020f03161d",
    "Aidon_notification_body": "01020203090601019b6dacff12000002020f0316210203090600003e0700ff12000002020f03161d",
    "Kaifa_frame": "3da1320f000dd1a4090c1cad0b0d26012107ff006bbe0209090163090879242c2c33443b4109076f447c3477213f06e260c9a4067fffffff06f9aaee36060000000106d5ba3a7606472a792a",
    "Kaifa_notification_body": "0209090163090879242c2c33443b4109076f447c3477213f06e260c9a4067fffffff06f9aaee36060000000106d5ba3a7606472a792a",
    "Kamstrup_frame": "e6e7000f000dd1a40c07e2031a230727030680001c02180a0e4e6478704439216b4d34685d7b300009060101600101ff0a1236383632323533303235364e32423042363409060101000005ff0a1053257521276c4446275271705f53777909060101020700ff06ffffffff000000",
    "Kamstrup_notification_body": "02180a0e4e6478704439216b4d34685d7b300009060101600101ff0a1236383632323533303235364e32423042363409060101000005ff0a1053257521276c4446275271705f53777909060101020700ff06ffffffff000000",
    "P1": "312d303a312e372e302830302e3330332a6b57290d0a",
}


class PrimerFailed(Exception):
    pass


def new_autodecoder(prev):
    """An AutoDecoder whose remembered decoder is the one with index `prev` (None: fresh), reached through the public API
    only (no private attribute is named): by decoding one genuine message of that decoder."""
    from han.autodecoder import AutoDecoder
    logging.disable(logging.CRITICAL)
    a = AutoDecoder()
    if prev is not None:
        name = NAMES[prev]
        try:
            r = a.decode_message_payload(bytes.fromhex(PRIMERS[name]))
            got = a.previous_success_decoder
        except Exception as ex:  # noqa
            raise PrimerFailed(f"{exc_name(ex)} while decoding the genuine {name} primer") from ex
        if r is None or got != name:
            raise PrimerFailed(f"the genuine {name} primer was decoded by {got}")
    return a


def remembered(a):
    """index of the remembered decoder (None: none), read through the public property previous_success_decoder"""
    name = a.previous_success_decoder
    return None if name is None else NAMES.index(name)


def impl_auto(prev, payloads):
    if _last_tables is None:
        tables_changed_by(None)
    try:
        a = new_autodecoder(prev)
    except PrimerFailed as ex:
        return "EXC primer-" + str(ex).replace(" ", "_")
    tables_changed_by({"op": "tables", "decoder": "auto", "prev": None, "payloads": [PRIMERS[NAMES[prev]]] if prev is not None else []})
    out = []
    for k, p in enumerate(payloads):
        try:
            r = a.decode_message_payload(bytes(p))
        except Exception as ex:  # noqa
            out.append("EXC " + exc_name(ex))
            break
        finally:
            tables_changed_by({"op": "tables", "decoder": "auto", "prev": prev, "payloads": [bytes(x).hex() for x in payloads[:k + 1]]})
        try:
            idx = remembered(a)
        except Exception as ex:  # noqa
            out.append("EXC previous_success_decoder-" + exc_name(ex))
            break
        out.append(("None" if r is None else render_dict(r)) + " @" + ("N" if idx is None else str(idx)))
    return " ; ".join(out)


def replay_tables(case):
    """replay of a 'tables' case: decode the payloads in a fresh state and report whether a table changed"""
    global _last_tables
    _last_tables = None
    del TABLE_EVENTS[:]
    if case["decoder"] == "auto":
        impl_auto(case.get("prev"), [bytes.fromhex(x) for x in case["payloads"]])
    else:
        for x in case["payloads"]:
            impl_decode(case["decoder"], bytes.fromhex(x))
    for _, what in TABLE_EVENTS:
        print("REPLAY property failure:", what)
    print("REPLAY", "fails" if TABLE_EVENTS else "passes")
    return 1 if TABLE_EVENTS else 0


_fixtures = None


def fixtures():
    """genuine messages from the repository's tests: {name: bytes}"""
    global _fixtures
    if _fixtures is not None:
        return _fixtures
    if lib.REPO not in sys.path:
        sys.path.insert(0, lib.REPO)
    res = {}
    for mod in ("test_aidon", "test_kaifa", "test_kamstrup", "test_autodecoder", "test_dlde"):
        for k in list(sys.modules):
            if k == "tests" or k.startswith("tests."):
                pass
        try:
            m = importlib.import_module("tests." + mod)
        except Exception:  # noqa
            continue
        for k, v in vars(m).items():
            if k.startswith("_"):
                continue
            if isinstance(v, (bytes, bytearray)) and len(v) > 6:
                res[f"{mod}.{k}"] = bytes(v)
            elif isinstance(v, str) and len(v) > 12:
                t = v.replace(" ", "").replace("\n", "")
                try:
                    b = bytes.fromhex(t)
                    if len(b) > 6:
                        res[f"{mod}.{k}"] = b
                except ValueError:
                    pass
    _fixtures = dict(sorted(res.items()))
    return _fixtures


TAGS = [0, 1, 2, 6, 9, 10, 15, 16, 18, 22, 0x0C, 0xFF, 0x80, 3, 12, 255]


def mutate(rng, b: bytes) -> bytes:
    m = bytearray(b)
    k = rng.randrange(7)
    if k == 0 and len(m) > 1:
        return bytes(m[:rng.randrange(1, len(m))])
    for _ in range(rng.choice([1, 1, 2, 3, 5])):
        if not m:
            break
        pos = rng.randrange(len(m))
        op = rng.randrange(5)
        if op == 0:
            m[pos] = rng.choice(TAGS)
        elif op == 1:
            m[pos] = rng.randrange(256)
        elif op == 2:
            del m[pos]
        elif op == 3:
            m.insert(pos, rng.choice(TAGS))
        else:
            m[pos] = 0xFF
    return bytes(m)
