"""Adapters and generators for the HDLC reader (used by C01 C02 C06 C14 C16 C19)."""
from __future__ import annotations

import logging

import lib

CFGS = [(0, 0), (0, 1), (1, 0), (1, 1)]
FLAG, ESC = 0x7E, 0x7D


def _opt(v):
    return "N" if v is None else str(v)


def _opthex(v):
    return "N" if v is None else lib.hexs(bytes(v))


def _optbool(v):
    return "N" if v is None else ("1" if v else "0")


def render_frame(f) -> str:
    """All observable fields of a frame. Every accessor is read twice, the second time in the opposite order: what a
    frame reports must not depend on which accessor was called first or how often (no stale cache); a frame whose two
    passes differ renders as UNSTABLE and so differs from the model's frame."""
    h = f.header
    acc = [lambda: lib.hexs(f.as_bytes), lambda: "1" if f.is_valid else "0", lambda: _opthex(f.payload),
           lambda: _opt(f.frame_check_sequence), lambda: _opt(h.frame_length), lambda: _opthex(h.destination_address),
           lambda: _opthex(h.source_address), lambda: _opt(h.control), lambda: _opt(h.header_check_sequence),
           lambda: _opt(h.frame_format_type), lambda: _optbool(h.segmentation),
           lambda: "1" if f.is_good_ffc else "0", lambda: "1" if f.is_expected_length else "0"]
    first = [a() for a in acc]
    second = [a() for a in reversed(acc)][::-1]
    if first != second:
        return "UNSTABLE(" + ":".join(first) + "|" + ":".join(second) + ")"
    return ":".join(first)


def render_frames(fs) -> str:
    return " ".join(render_frame(f) for f in fs) if fs else "."


def render_state(r) -> str:
    try:
        fr = r._frame
        return ",".join([str(len(r._buffer._buffer)), str(r._buffer._buffer_pos), str(len(r._raw_frame_data)),
                         "N" if fr is None else str(len(fr)), "1" if r._unescape_next else "0"])
    except AttributeError:
        return "?"


def impl_read(cfg, chunks, with_state=True):
    """Run the real reader; returns (list of per-call renderings, exception name or None)."""
    from han.hdlc import HdlcFrameReader
    logging.disable(logging.CRITICAL)
    r = HdlcFrameReader(bool(cfg[0]), bool(cfg[1]))
    calls = []
    for ch in chunks:
        try:
            fs = r.read(bytes(ch))
            s = render_frames(fs)
        except Exception as ex:  # noqa: any exception is an observation (C14)
            return calls, type(ex).__name__
        calls.append(s + (" @" + render_state(r) if with_state else ""))
    return calls, None


def model_read(cases):
    """cases: list of (cfg, chunks). Returns per case (calls[list of str], runeq)."""
    reqs = [f"hdlc.read {c[0]} {c[1]} {lib.chunks_arg(chs)}" for c, chs in cases]
    out = []
    for a in lib.drive(reqs):
        if " # runeq=" not in a:
            raise lib.ToolFailure(f"driver: {a[:200]}")
        body, req = a.rsplit(" # runeq=", 1)
        calls = body.split(" ; ") if body else []
        out.append((calls, req == "1"))
    return out


def strip_state(calls):
    return [c.split(" @")[0] for c in calls]


def render_frames_list(calls):
    return frames_of(calls)


def frames_of(calls):
    res = []
    for c in strip_state(calls):
        if c != ".":
            res.extend(c.split(" "))
    return res


# ------------------------------------------------------------------ generators

def fcs16(bs):
    r = 0xFFFF
    for b in bs:
        for i in range(8):
            bit = (b >> i) & 1
            r = (r >> 1) ^ 0x8408 if (r ^ bit) & 1 else r >> 1
    return r ^ 0xFFFF


def addr(rng, n):
    return bytes([rng.randrange(128) * 2 for _ in range(n - 1)] + [rng.randrange(128) * 2 + 1])


def make_frame(rng, info=None, dst_len=None, src_len=None, fmt=0xA, seg=0, ctl=None):
    """a well-formed frame (without flags): format, addresses, control, HCS, info, FCS"""
    # (ISO/IEC 13239 4.7.1: the address field is extended recursively - also beyond four octets)
    dst = addr(rng, dst_len or rng.choice([1, 1, 2, 4, 1, 2, 5, 7]))
    src = addr(rng, src_len or rng.choice([1, 1, 2, 4, 1, 4, 6, 5]))
    ctl = rng.randrange(256) if ctl is None else ctl
    if info is None:
        # (total length passes 255 - the second length octet - from 245 on; 2030 is close to the 11-bit maximum)
        n = rng.choice([0, 0, 1, 2, 5, 12, 40, 130]) if rng.random() < 0.94 else rng.choice([245, 245, 300, 300, 900, 2030])
        alpha = rng.choice([None, [FLAG, ESC, 0x5E, 0x5D, 0x20]])
        info = bytes(rng.choice(alpha) if alpha else rng.randrange(256) for _ in range(n))
    hdr_len = 2 + len(dst) + len(src) + 1
    total = hdr_len + 2 + (len(info) + 2 if info else 0)
    ff = (fmt << 12) | (seg << 11) | total
    head = bytes([ff >> 8, ff & 0xFF]) + dst + src + bytes([ctl])
    hcs = fcs16(head)
    head += bytes([hcs & 0xFF, hcs >> 8])
    if not info:
        return head
    body = head + info
    f = fcs16(body)
    return body + bytes([f & 0xFF, f >> 8])


def encode_desc(d):
    """octets of the frame for a descriptor (fmt, seg, dst, src, ctl, info, fill) — Python twin of FrameDesc.encode"""
    fmt, seg, dst, src, ctl, info = d[0], d[1], d[2], d[3], d[4], d[5]
    hdr_len = 2 + len(dst) + len(src) + 1
    total = hdr_len + 2 + (len(info) + 2 if info else 0)
    ff = (fmt << 12) | (seg << 11) | total
    head = bytes([ff >> 8, ff & 0xFF]) + dst + src + bytes([ctl])
    hcs = fcs16(head)
    head += bytes([hcs & 0xFF, hcs >> 8])
    if not info:
        return head
    body = head + info
    f = fcs16(body)
    return body + bytes([f & 0xFF, f >> 8])


def stuff(bs):
    out = bytearray()
    for b in bs:
        if b in (FLAG, ESC):
            out += bytes([ESC, b ^ 0x20])
        else:
            out.append(b)
    return bytes(out)


def gen_stream(rng, cfg):
    """one stream from the families named in the quantifier of C01"""
    fam = rng.choice(["wellformed", "bitflip", "truncated", "wronglen", "headeronly", "noise5", "noise256", "mixed", "flagdense", "badhcs"])
    parts = bytearray()
    if fam in ("noise5", "flagdense"):
        alpha = [0x7E, 0x7D, 0x5E, 0x5D, 0xA0, 0x00, 0x01, 0x03, 0xFF] if fam == "noise5" else [0x7E, 0x7E, 0x7D, 0xA0, 0x07, 0x01]
        n = rng.choice([1, 3, 8, 20, 60])
        return fam, bytes(rng.choice(alpha) for _ in range(n))
    if fam == "noise256":
        return fam, bytes(rng.randrange(256) for _ in range(rng.choice([1, 5, 30, 200])))
    nframes = rng.choice([1, 1, 2, 3, 5])
    if rng.random() < 0.3:
        parts += bytes(rng.choice([0, 1, 0x7D, 0xA0, 0xFF]) for _ in range(rng.randrange(6)))
    for _ in range(nframes):
        fr = bytearray(make_frame(rng, info=b"" if fam == "headeronly" else None))
        this = fam if fam != "mixed" else rng.choice(["wellformed", "bitflip", "truncated", "wronglen"])
        if this == "bitflip":
            for _ in range(rng.choice([1, 1, 2])):
                pos = rng.randrange(len(fr) * 8)
                fr[pos // 8] ^= 1 << (pos % 8)
        elif this == "truncated":
            fr = fr[:rng.randrange(len(fr))]
        elif this == "badhcs" and len(fr) > 11:
            # header check sequence wrong, frame check sequence (over ALL octets, the wrong HCS included) right and length
            # right: intact in the sense of C01 (validity is the length field and the FCS)
            i = 2
            while i < len(fr) and not fr[i] & 1:
                i += 1
            i += 1                                    # past the destination address
            while i < len(fr) and not fr[i] & 1:
                i += 1
            hpos = i + 2                              # past the source address and the control octet
            if hpos + 2 <= len(fr) - 2:
                fr[hpos] ^= rng.choice([0x01, 0x80, 0x5A])
                fr[hpos + 1] ^= rng.choice([0x00, 0x01, 0x5A])
                c = fcs16(bytes(fr[:-2]))
                fr[-2], fr[-1] = c & 0xFF, c >> 8
        elif this == "wronglen":
            ff = (fr[0] << 8 | fr[1])
            ln = (ff & 0x7FF) + rng.choice([-1, 1, -2, 2, 256, -256])
            ff = (ff & 0xF800) | (ln & 0x7FF)
            fr[0], fr[1] = ff >> 8, ff & 0xFF
        wire = stuff(bytes(fr)) if cfg[0] else bytes(fr)
        parts += bytes([FLAG]) * rng.choice([1, 1, 1, 2, 3]) + wire
        if rng.random() < 0.1:
            parts += bytes([ESC])  # abort-like ending
    parts += bytes([FLAG]) * rng.choice([0, 1, 1, 2])
    return fam, bytes(parts)


def chunkings(rng, data: bytes, k=3):
    """several splittings of the same stream: none, bytewise, random cuts"""
    res = [[data]]
    if len(data) <= 64:
        res.append([data[i:i + 1] for i in range(len(data))])
    for _ in range(k - len(res) + 1):
        res.append(lib.split_at(data, lib.random_cuts(rng, len(data))))
    return res
