"""A small translator from a subset of Python (the arithmetic / bit-twiddling cores of han/*.py) to Lean 4 terms.
Its output, lean/Amshan/GeneratedCode{Fcs,BackOff,P1,Hdlc,HdlcReader}.lean, is REGENERATED from the working tree on every
run; Props/*Gen.lean prove each generated definition equal to the hand-written model, so for these functions
the tie between model and code is a kernel-checked theorem about a mechanical translation of the source, not a
sample.

The translation is a symbolic execution of the function body into a PURE term, built so that behaviour-preserving
rewrites of the source give the same (or a more uniform) term:

  * every local is substituted by its value (no `let` for temporaries: introducing, removing or renaming a
    temporary does not change the output; locals that are never read disappear); `x op= e` is `x = x op e`;
  * an `if` statement whose branches only assign becomes, per variable, `if c then a else b` (the same term as a
    conditional expression; a variable with the same value on both sides is not touched); an `if` with a `return`
    (or a loop) in a branch becomes `if c then <branch; rest> else <other branch; rest>`, so `if a: return x` +
    `return y`, `if a: return x else: return y` and `return x if a else y` coincide;
  * `for` loops (no break / continue / return inside) become `List.foldl` over the list or `List.range' lo (hi - lo)`.
    The fold state is the variables assigned in the body, in order of first assignment in the function; components
    that are neither read after the loop nor needed by a component that is (loop-local temporaries, dead stores)
    are pruned, and a loop variable is just the bound item (`_` when unused);
  * expressions are canonicalised: chains of an associative-commutative operator (`^ & | + *`) are flattened and
    their operands ordered (literals last, folded), operands of `==` are ordered, `a > b` is `b < a`, `a >= b` is `b <= a`, `!=` is `not ==`, `x is None` is `not (x is not None)`,
    Booleans are built from `<`, `==`, `and`, `not` only (`a <= b` is `not b < a`, `a or b` is `not (not a and not
    b)`: terms equal by De Morgan or the total order coincide; the printer writes `≤` and `||` again), comparisons
    with a literal k are `k < x` or its negation (`x >= 2`, `x > 1`, `not x < 2` are all `1 < x`), `if not c then a
    else b` is `if c then b else a`, nested `if`s that share a branch are one `if` of an `and`, operands of `and` /
    `max` / `min` are ordered, truthiness of `len(x)` / a list is `0 < len`, `x % 2` is `x & 1`, `(x & 1) == 1` is
    `(x & 1) != 0`, `a[0:n]` is `a[:n]`, literal arithmetic is folded, `True if c else False` is `c`.

Supported: int/bool/list/Optional[int] values, bytes/bytearray (as `List Nat`), Optional[bytes] (as
`Option (List Nat)`), Optional[bool], assignments (plain and augmented), if/else, for over range(...) or a list,
return, list.append, len/max/min, indexing and slicing (total: out-of-range index = 0 — the theorems state the
guards; `x[a:-k]` with a literal k), comparisons (`opt == int` is `opt == some int`, as `None == 3` is False),
and/or/not, conditional expressions, `is (not) None`, `cast(int | bytes | bool, x)`, `bool(x)`, `bytes(x)`, `bytearray()`, calls of other
translated functions, and `while True:` without break (the last statement of its block; see `Fn.do_while`).
Logging calls and docstrings are dropped.  A read of a local that may be unbound is rejected.  Anything else raises
Unsupported: the check then reports the function as untranslatable (an obligation that no longer checks).

Methods that CHANGE THEIR OBJECT (the state machine core of HdlcFrameReader) are translated as state-passing functions
(`Fn(record=, mutates=, ghosts=, effects=, pyret=, selfcalls=, objmethods=, constructors=, once=)`):
  * `self` is a record (`record`: a Lean structure and the parameter of that type) of the attributes the method may
    assign (`mutates`: bool / int / list / Optional object fields); attributes that are only read are `mapping`
    entries (the configuration).  The definition answers (new record, ghosts .., python's return value);
  * `self.x = e`, `self.x.append(v)`, `self.x.clear()` on such attributes are assignments to the field;
  * opaque objects (`register_object`): a configured constructor (`HdlcFrame()`), configured methods and properties
    (`objmethods`: `x.append(v)` changes x, `len(x)`, `x.header.header_check_sequence`, `x.is_expected_length`) are
    mapped to Lean functions on the object's model type - configured like `calls` / `callfns`, not translated here.
    A member of None uses `default` (python raises: the theorems state the guards).  A second name for a list or an
    object that may be changed in place is rejected (aliasing is not tracked);
  * `self.m(args)` for another translated method (`selfcalls`) - as a statement, as the whole right-hand side of an
    assignment, or as the returned value, never inside an expression - applies the GENERATED definition of m to the
    current record and continues with the record (and ghosts, and value) it answers;
  * a call whose effect lies outside the record (`effects`: `self._buffer.trim_buffer_to_flag_or_end()`) is a no-op on
    the record and is RECORDED in a Boolean ghost of the answer (false on entry; a callee's ghost is or-ed in);
    `self._buffer.pop()` is a parameter (`calls` + `once`: more than one use, or a use in a loop, is rejected);
  * `assert` is a no-op (its test is still translated, so that an unsupported expression is rejected);
  * an `if` that only assigns attributes / locals is joined attribute by attribute as before; an `if` that calls
    another method is translated path by path (`if c then <answer after A; rest> else <answer after B; rest>`);
  * `x[-k]` is `x[len(x) - k]`, `x[-k:]` is `x.drop (len(x) - k)` (exactly Python's clamping, in Nat), and an index
    into a suffix is an index into the list (`x[-1:][0]` and `x[-1]` are the same term)."""
from __future__ import annotations

import ast
import inspect
import re
import textwrap
from collections import namedtuple


class _Missing:
    def __init__(self, path):
        self.path = path

    def __getattr__(self, name):
        if name.startswith("__"):
            raise AttributeError(name)
        return _Missing(self.path + "." + name)


class _Safe:
    """getattr that yields a _Missing marker instead of raising; classes are wrapped again, functions are returned raw"""

    def __init__(self, obj, path):
        object.__setattr__(self, "_o", obj)
        object.__setattr__(self, "_p", path)

    def __getattr__(self, name):
        o = object.__getattribute__(self, "_o")
        p = object.__getattribute__(self, "_p") + "." + name
        try:
            v = inspect.getattr_static(o, name)
        except AttributeError:
            return _Missing(p)
        return _Safe(v, p) if inspect.isclass(v) else v


def unwrap_fn(x):
    """the plain function behind a property / functools.cached_property / staticmethod / classmethod"""
    if isinstance(x, _Missing):
        return x
    for attr in ("fget", "func", "__func__"):
        f = getattr(x, attr, None)
        if callable(f):
            return f
    return x


class Unsupported(Exception):
    pass


BINOPS = {ast.Add: "+", ast.Sub: "-", ast.Mult: "*", ast.FloorDiv: "/", ast.Mod: "%", ast.BitXor: "^^^",
          ast.BitAnd: "&&&", ast.BitOr: "|||", ast.LShift: "<<<", ast.RShift: ">>>"}
COMMUTATIVE = {"+", "*", "^^^", "&&&", "|||"}
PYOP = {"+": lambda a, b: a + b, "-": lambda a, b: a - b, "*": lambda a, b: a * b,
        "/": lambda a, b: a // b if b else -1, "%": lambda a, b: a % b if b else -1, "^^^": lambda a, b: a ^ b,
        "&&&": lambda a, b: a & b, "|||": lambda a, b: a | b, "<<<": lambda a, b: a << b if b < 4096 else -1,
        ">>>": lambda a, b: a >> b}

LEAN_TY = {"int": "Nat", "bool": "Bool", "list": "List Nat", "optint": "Option Nat", "optbool": "Option Bool",
           "optlist": "Option (List Nat)"}
OPT_BASE = {"optint": "int", "optbool": "bool", "optlist": "list"}
OPT_OF = {v: k for k, v in OPT_BASE.items()}
MAX_SIZE = 4000          # nodes of one translated function: `if`s with a return duplicate what follows them
OBJECTS = set()          # tags of opaque object types (register_object)

# ---------------------------------------------------------------- the term language
# ("lit", n) ("true",) ("false",) ("none",) ("nil",) ("var", id) ("const", lean text)
# ("bin", op, a, b) ("not", a) ("and", [..]) ("eq", a, b) ("lt", a, b) ("ite", c, a, b)
# ("app", head text, [args]) ("len", l) ("getD", l, i) ("take", l, n) ("drop", l, n) ("append1", l, x)
# ("some", a) ("isSome", a) ("ogetD", a, default) ("tuple", [..]) ("range", lo, count)
# ("rec", lean structure name, [(field, a) ..]) ("proj", a, "field" | "2.1")
# statement positions only:
# ("yield", [..])   the new state of the enclosing fold
# ("letfold", out ids, in ids, item id, types, body, inits, coll, rest)
TRUE, FALSE, NONE, NIL = ("true",), ("false",), ("none",), ("nil",)
DEFAULT_IR = {"int": ("lit", 0), "bool": FALSE, "list": NIL, "optint": NONE, "optbool": NONE, "optlist": NONE}

V = namedtuple("V", "ir type unbound")      # value of a python name: term, type tag, "may be unbound here"


def register_object(tag, lean_type):
    """An opaque object type: its values are only built, changed and observed through configured constructors and
    methods (`Fn.constructors`, `Fn.objmethods`), which are mapped to Lean functions on `lean_type` - they are not
    translated here.  `opt<tag>` is the Optional of it.  Where Python would raise on None (a method of None) the
    translation is total and uses `default` (the theorems state the guards)."""
    paren = f"({lean_type})" if " " in lean_type else lean_type
    LEAN_TY[tag] = lean_type
    LEAN_TY["opt" + tag] = f"Option {paren}"
    OPT_BASE["opt" + tag] = tag
    OPT_OF[tag] = "opt" + tag
    DEFAULT_IR[tag] = ("const", f"(default : {lean_type})")
    DEFAULT_IR["opt" + tag] = NONE
    OBJECTS.add(tag)


def lit(n):
    return ("lit", n)


def ckey(e):
    """rename-invariant order of operands: literals last, then by the canonical text (binders print as #id)"""
    return (1 if e[0] == "lit" else 0, show(e, None))


def one_bit(e):
    """is the value of e 0 or 1?"""
    return e[0] == "bin" and e[1] == "&&&" and lit(1) in (e[2], e[3])


def mk_bin(op, a, b):
    if a[0] == "lit" and b[0] == "lit":
        r = PYOP[op](a[1], b[1])
        if r >= 0:
            return lit(r)
    if op == "%" and b == lit(2):              # x % 2  is  x & 1 (python: also for a negative x)
        return mk_bin("&&&", a, lit(1))
    if op in COMMUTATIVE:                      # associative too: one left-nested chain, ordered, literals folded
        parts = []
        for x in (a, b):
            while x[0] == "bin" and x[1] == op:
                parts.append(x[3])
                x = x[2]
            parts.append(x)
        lits = [x for x in parts if x[0] == "lit"]
        parts = sorted((x for x in parts if x[0] != "lit"), key=ckey)
        if lits:
            k = lits[0][1]
            for x in lits[1:]:
                k = PYOP[op](k, x[1])
            parts.append(lit(k))
        res = parts[0]
        for x in parts[1:]:
            res = ("bin", op, res, x)
        return res
    return ("bin", op, a, b)


# Booleans are built from `<`, `==`, `and` and `not` only (`a <= b` is `not b < a`, `a or b` is `not (not a and not b)`;
# the printer writes `≤` and `||` again), so terms that are equal by De Morgan or by the total order coincide.
# Comparisons with a literal k are  k < x  or  not (k < x):  x > k, x >= k+1, not x <= k, not x < k+1.
def mk_lt(a, b):
    if a[0] == "lit" and b[0] == "lit":
        return TRUE if a[1] < b[1] else FALSE
    if b[0] == "lit" and b[1] >= 1 and a[0] != "lit":          # x < k  is  not (k-1 < x)
        return ("not", ("lt", lit(b[1] - 1), a))
    return ("lt", a, b)


def mk_le(a, b):
    return mk_not(mk_lt(b, a))                 # integers are totally ordered


def mk_not(a):
    if a == TRUE:
        return FALSE
    if a == FALSE:
        return TRUE
    if a[0] == "not":
        return a[1]
    if a[0] == "lt" and a[2][0] == "lit" and a[2][1] == 0:     # not (x < 0): kept as it is (x is not below 0 - 1)
        return ("not", a)
    if a[0] == "lt" and a[1][0] != "lit" and a[2][0] == "lit":
        return mk_lt(lit(a[2][1] - 1), a[1])   # unreachable: mk_lt never builds x < k for k >= 1
    return ("not", a)


def mk_eq(a, b):
    if a[0] == "lit" and b[0] == "lit":
        return TRUE if a[1] == b[1] else FALSE
    if ckey(b) < ckey(a):
        a, b = b, a
    if a[0] == "len" and b == lit(0):          # a length is never negative
        return ("not", ("lt", lit(0), a))
    if one_bit(a) and b == lit(1):             # a bit is 1 when it is not 0
        return ("not", ("eq", a, lit(0)))
    return ("eq", a, b)


def mk_and(parts):
    """all terms are total and pure, so the operands can be ordered"""
    flat = []
    for p in parts:
        for q in (p[1] if p[0] == "and" else [p]):
            if q != TRUE and q not in flat:
                flat.append(q)
    if FALSE in flat or any(("not", q) in flat for q in flat):
        return FALSE
    if not flat:
        return TRUE
    return flat[0] if len(flat) == 1 else ("and", sorted(flat, key=ckey))


def mk_or(parts):
    return mk_not(mk_and([mk_not(p) for p in parts]))


def mk_junction(tag, parts):
    return mk_and(parts) if tag == "and" else mk_or(parts)


def mk_ite(c, a, b):
    if c == TRUE:
        return a
    if c == FALSE:
        return b
    if a == b:
        return a
    if c[0] == "not":
        return mk_ite(c[1], b, a)
    if a == TRUE and b == FALSE:
        return c
    if a == FALSE and b == TRUE:
        return mk_not(c)
    # nested `if`s that share a branch are one `if`
    if a[0] == "ite" and a[3] == b:            # if c: (if d: x else: y) else: y   is   if c and d: x else: y
        return mk_ite(mk_and([c, a[1]]), a[2], b)
    if a[0] == "ite" and a[2] == b:            # if c: (if d: y else: x) else: y   is   if c and not d: x else: y
        return mk_ite(mk_and([c, mk_not(a[1])]), a[3], b)
    if b[0] == "ite" and b[2] == a:            # if c: x else: (if d: x else: y)   is   if c or d: x else: y
        return mk_ite(mk_or([c, b[1]]), a, b[3])
    if b[0] == "ite" and b[3] == a:            # if c: x else: (if d: y else: x)   is   if c or not d: x else: y
        return mk_ite(mk_or([c, mk_not(b[1])]), a, b[2])
    return ("ite", c, a, b)


def mk_is_some(a):
    if a == NONE:
        return FALSE
    if a[0] == "some":
        return TRUE
    return ("isSome", a)


def mk_oget(a, d):
    if a == NONE:
        return d
    if a[0] == "some":
        return a[1]
    return ("ogetD", a, d)


def mk_drop(l, n):
    return l if n == lit(0) else ("drop", l, n)


def mk_get(l, i):
    """l[i] (0 when out of range); an index into a suffix is an index into the list: x[n:][i] is x[n + i]"""
    if l[0] == "drop":
        return mk_get(l[1], l[2] if i == lit(0) else mk_bin("+", l[2], i))
    return ("getD", l, i)


def tuple_path(j, n):
    """component j of a right-nested n-tuple, as a projection path: "1", "2.1", "2.2" for n = 3"""
    return ".".join(["2"] * j + (["1"] if j < n - 1 else []))


def mk_proj(a, path):
    """a field of a record / a component (tuple_path) of a right-nested tuple"""
    if a[0] == "rec" and path in dict(a[2]):
        return dict(a[2])[path]
    if a[0] == "tuple" and len(a[1]) > 1:
        for j in range(len(a[1])):
            if tuple_path(j, len(a[1])) == path:
                return a[1][j]
    return ("proj", a, path)


def mk_rec(name, fields):
    """a record; `{ a := x.a, b := x.b }` with all the fields of one x is x"""
    if all(v[0] == "proj" and v[2] == f for f, v in fields) and len({show(v[1], None) for _, v in fields}) == 1:
        return fields[0][1][1]
    return ("rec", name, list(fields))


def children(e):
    t = e[0]
    if t in ("lit", "true", "false", "none", "nil", "var", "const"):
        return []
    if t == "bin":
        return [e[2], e[3]]
    if t in ("and", "tuple", "yield"):
        return list(e[1])
    if t == "app":
        return list(e[2])
    if t == "letfold":
        return [e[5]] + list(e[6]) + [e[7], e[8]]
    if t == "rec":
        return [v for _, v in e[2]]
    if t == "proj":
        return [e[1]]
    return list(e[1:])


def size(e):
    return 1 + sum(size(c) for c in children(e))


def uses(e, acc=None):
    """ids of the variables that occur in e"""
    acc = set() if acc is None else acc
    if e[0] == "var":
        acc.add(e[1])
    for c in children(e):
        uses(c, acc)
    return acc


def atomic(s):
    """is the text s one token or one parenthesised group?"""
    if re.fullmatch(r"[\w.#']+", s):
        return True
    if not (s.startswith("(") and s.endswith(")")):
        return False
    depth = 0
    for i, ch in enumerate(s):
        depth += ch == "("
        depth -= ch == ")"
        if depth == 0 and i < len(s) - 1:
            return False
    return True


def show(e, names):
    """one-line Lean text of an expression; names = None prints binders as #id (the canonical text)"""
    def a(x):
        s = show(x, names)
        return s if atomic(s) else "(" + s + ")"

    t = e[0]
    if t == "lit":
        return str(e[1])
    if t in ("true", "false", "none"):
        return t
    if t == "nil":
        return "([] : List Nat)"
    if t == "var":
        return f"#{e[1]}" if names is None else names[e[1]]
    if t == "const":
        return e[1]
    if t == "bin":
        return f"({a(e[2])} {e[1]} {a(e[3])})"
    if t == "not":
        if names is not None and e[1][0] == "lt":                  # written with ≤
            return f"decide ({a(e[1][2])} ≤ {a(e[1][1])})"
        if names is not None and e[1][0] == "and" and 2 * sum(x[0] == "not" for x in e[1][1]) >= len(e[1][1]):
            return "(" + " || ".join(a(mk_not(x)) for x in e[1][1]) + ")"       # written with ||
        return f"(!{a(e[1])})"
    if t == "and":
        return "(" + " && ".join(a(x) for x in e[1]) + ")"
    if t == "eq":
        return f"({a(e[1])} == {a(e[2])})"
    if t == "lt":
        return f"decide ({a(e[1])} < {a(e[2])})"
    if t == "ite":
        return f"(if {show(e[1], names)} then {show(e[2], names)} else {show(e[3], names)})"
    if t == "app":
        return "(" + " ".join([e[1]] + [a(x) for x in e[2]]) + ")"
    if t == "len":
        return f"{a(e[1])}.length"
    if t == "getD":
        return f"({a(e[1])}.getD {a(e[2])} 0)"
    if t == "take":
        return f"({a(e[1])}.take {a(e[2])})"
    if t == "drop":
        return f"({a(e[1])}.drop {a(e[2])})"
    if t == "append1":
        return f"({a(e[1])} ++ [{show(e[2], names)}])"
    if t == "some":
        return f"(some {a(e[1])})"
    if t == "isSome":
        return f"{a(e[1])}.isSome"
    if t == "ogetD":
        return f"({a(e[1])}.getD {a(e[2])})"
    if t in ("tuple", "yield"):
        return a(e[1][0]) if len(e[1]) == 1 else "(" + ", ".join(show(x, names) for x in e[1]) + ")"
    if t == "range":
        return f"(List.range' {a(e[1])} {a(e[2])})"
    if t == "rec":
        return "{ " + ", ".join(f"{f} := {show(v, names)}" for f, v in e[2]) + f" : {e[1]} }}"
    if t == "proj":
        return f"{a(e[1])}.{e[2]}"
    if t == "letfold":                         # only for the canonical text
        return "(fold " + " ".join(show(c, names) for c in children(e)) + ")"
    raise Unsupported(f"internal: cannot print {t}")


def dotted(node):
    if isinstance(node, ast.Name):
        return node.id
    if isinstance(node, ast.Attribute):
        b = dotted(node.value)
        return None if b is None else b + "." + node.attr
    return None


def unify(ta, tb):
    """the type that holds a value of type ta or tb (None: not known yet)"""
    if ta is None or ta == tb:
        return tb
    if tb is None:
        return ta
    for x, y in ((ta, tb), (tb, ta)):
        if x == "none":
            return y if y in OPT_BASE else OPT_OF.get(y) or _unsup(f"no optional of {y}")
        if x in OPT_BASE and OPT_BASE[x] == y:
            return x
    raise Unsupported(f"a variable holds a {ta} and a {tb}")


def _unsup(msg):
    raise Unsupported(msg)


def proj_path(j, n):
    """component j of a right-nested n-tuple"""
    return ".2" * j + (".1" if j < n - 1 else "")


class Fn:
    """one Python function -> one Lean definition"""

    def __init__(self, name, obj, params, ret, mapping=None, mutates=None, calls=None, callfns=None, fuel=None,
                 record=None, pyret=None, ghosts=None, effects=None, selfcalls=None, objmethods=None, constructors=None,
                 once=None):
        self.name = name                  # Lean name
        self.obj = obj                    # Python function object
        self.params = params              # [(lean name, lean type)]
        self.ret = ret                    # 'Nat' | 'Bool' | 'List Nat' | 'Option Nat' | 'Option Bool'
        self.mapping = mapping or {}      # python dotted name -> (lean expr, type); a bare name is a python parameter
        # python dotted attribute -> (lean name of the final value, type); a bare name means int. The value on entry
        # is the parameter <lean name>0; all final values are returned
        self.mutates = {k: ((v, "int") if isinstance(v, str) else v) for k, v in (mutates or {}).items()}
        self.calls = calls or {}          # python dotted callee/property -> (lean expr, type)
        self.callfns = callfns or {}      # python dotted callee with arguments -> (lean function (partially applied), [argument types], result type)
        self.fuel = fuel                  # lean expression: number of iterations granted to a `while True:` loop
        # --- methods that change the state of their object (state passing) ---
        # record = (lean structure, lean parameter): the mutated attributes are the fields (the lean names of
        # `mutates`) of ONE parameter of that structure type, and the final state is answered as such a record.
        # The answer of a function with `mutates` / `ghosts` is the tuple (state, ghosts .., python's return value):
        # the state is the record, or - without `record` - the final values of the mutated attributes.
        self.record = record
        self.pyret = pyret                # type of what the python function returns (None: it returns None)
        # ghosts: Boolean flags, false on entry; effects: python dotted callee (a statement `f()`) -> ghost that it
        # sets.  A call whose effect lies outside the translated state (the reader's input buffer is trimmed) is a
        # no-op on the state, and RECORDED: the flag is part of the answer.
        self.ghosts = list(ghosts or [])
        self.effects = effects or {}
        self.selfcalls = selfcalls or {}  # python dotted callee -> Fn of another translated method of the same object
        # type tag of an object -> {python method / property path: (lean function, [argument types], result type)};
        # result type "mut": the method changes its object (a statement `x.m(..)` is `x = lean x ..`); "__len__" is len(x);
        # lean function "const:<lean expr>": a constant of the class, read through the object
        self.objmethods = objmethods or {}
        self.constructors = constructors or {}   # python dotted class, called without arguments -> (lean expr, type)
        self.once = set(once or ())       # python dotted callees (`calls`) that may occur once only, outside loops
        self.failed = False               # its translation raised: callers are untranslatable too
        self.aux = []                     # auxiliary definitions (loops): (head lines, state ids, body term)
        self.hints = {}                   # binder id -> name hint
        self.tuples = {}                  # binder id of a component -> (binder id of the tuple, j, n)
        self.in_for = False
        self.in_while = False
        self.order = []                   # python locals in order of first assignment

    # ---------------------------------------------------------------- binders
    def new_id(self, hint):
        i = len(self.hints) + 1
        self.hints[i] = hint
        return i

    def lname(self, py):
        if py in self.mutates:
            return self.mutates[py][0]
        py = py.split(".")[-1].lstrip("$")
        return py.replace("_", "v_", 1) if py.startswith("_") else py

    # ---------------------------------------------------------------- conversions
    def to_int(self, e, t):
        if t == "int":
            return e
        if t == "optint":                 # total: None is used as 0 (the theorems state the guards)
            return mk_oget(e, lit(0))
        if t == "bool":
            return mk_ite(e, lit(1), lit(0))
        raise Unsupported(f"cannot use {t} as int")

    def to_bool(self, e, t):
        if t == "bool":
            return e
        if t == "int":
            return mk_not(mk_eq(e, lit(0)))
        if t == "optint":                 # truthiness: None and 0 are false
            return mk_not(mk_eq(mk_oget(e, lit(0)), lit(0)))
        if t == "optbool":
            return mk_oget(e, FALSE)
        if t == "list":
            return mk_lt(lit(0), ("len", e))
        if t == "optlist":
            return mk_lt(lit(0), ("len", mk_oget(e, NIL)))
        if t == "none":
            return FALSE
        raise Unsupported(f"cannot use {t} as bool")

    def to_list(self, e, t):
        if t == "list":
            return e
        if t == "optlist":                # total: None is used as b"" (the theorems state the guards)
            return mk_oget(e, NIL)
        raise Unsupported(f"cannot use {t} as bytes/list")

    def coerce(self, e, te, want):
        """value of type `te` stored in / returned as a `want`: the same type, or an Optional of it (python
        values keep their type: an int stored where the other values are bools is rejected, not converted)"""
        if te == want or want is None or te is None:
            return e
        if want in OPT_BASE and te == "none":
            return NONE
        if want in OPT_BASE and te == OPT_BASE[want]:
            return ("some", e)
        raise Unsupported(f"cannot use {te} as {want}")

    def convert(self, e, te, want):
        """argument of a translated function: python converts nothing either, but None is passed as the default
        (the theorems state the guards)"""
        if te in OPT_BASE and want == OPT_BASE[te]:
            return mk_oget(e, DEFAULT_IR[want])
        return self.coerce(e, te, want)

    # ---------------------------------------------------------------- expressions
    def truth(self, n, env):
        """a python expression in a boolean context"""
        if isinstance(n, ast.BoolOp):
            return mk_junction("and" if isinstance(n.op, ast.And) else "or", [self.truth(v, env) for v in n.values])
        if isinstance(n, ast.UnaryOp) and isinstance(n.op, ast.Not):
            return mk_not(self.truth(n.operand, env))
        return self.to_bool(*self.expr(n, env))

    def compare(self, op, a, ta, b, tb):
        if isinstance(op, (ast.Is, ast.IsNot)):
            if tb != "none":
                raise Unsupported("is / is not with a non-None operand")
            if ta not in OPT_BASE and ta != "none":
                raise Unsupported(f"is / is not None of a {ta}")
            return mk_is_some(a) if isinstance(op, ast.IsNot) else mk_not(mk_is_some(a))
        if isinstance(op, (ast.Eq, ast.NotEq)):
            r = None
            if ta == tb and ta in ("bool", "list", "optint", "optbool", "optlist"):
                r = mk_eq(a, b)
            elif ta in OPT_BASE and tb == OPT_BASE[ta]:          # `None == 3` is False
                r = mk_eq(a, ("some", b))
            elif tb in OPT_BASE and ta == OPT_BASE[tb]:
                r = mk_eq(("some", a), b)
            elif ta in OPT_BASE or tb in OPT_BASE or ta in ("list", "none") or tb in ("list", "none"):
                raise Unsupported(f"== between {ta} and {tb}")
            else:
                r = mk_eq(self.to_int(a, ta), self.to_int(b, tb))
            return r if isinstance(op, ast.Eq) else mk_not(r)
        x, y = self.to_int(a, ta), self.to_int(b, tb)
        if isinstance(op, ast.Lt):
            return mk_lt(x, y)
        if isinstance(op, ast.LtE):
            return mk_le(x, y)
        if isinstance(op, ast.Gt):
            return mk_lt(y, x)
        if isinstance(op, ast.GtE):
            return mk_le(y, x)
        raise Unsupported(f"comparison {type(op).__name__}")

    def expr(self, n, env):
        """(term, type tag) of a python expression"""
        if isinstance(n, ast.Constant):
            if isinstance(n.value, bool):
                return (TRUE if n.value else FALSE), "bool"
            if isinstance(n.value, int):
                if n.value < 0:
                    raise Unsupported("negative literal")
                return lit(n.value), "int"
            if n.value is None:
                return NONE, "none"
            raise Unsupported(f"constant {n.value!r}")
        d = dotted(n)
        if d is not None:
            if d in env:
                if env[d].unbound:
                    raise Unsupported(f"local {d} may be unbound where it is read")
                return env[d].ir, env[d].type
            if d in self.mapping:
                return ("const", self.mapping[d][0]), self.mapping[d][1]
            if d in self.calls:
                return ("const", self.calls[d][0]), self.calls[d][1]
            om = self.object_member(d, env)
            if om is not None:                                     # a property of an object
                recv, (lean, argts, rt) = om
                if argts or rt == "mut":
                    raise Unsupported(f"method {d} used as a value")
                if lean.startswith("const:"):                      # a constant of its class, read through the object
                    return ("const", lean[len("const:"):]), rt
                return ("app", lean, [recv]), rt
            raise Unsupported(f"unknown name {d}")
        if isinstance(n, ast.BinOp):
            if type(n.op) not in BINOPS:
                raise Unsupported(f"operator {type(n.op).__name__}")
            if isinstance(n.op, ast.Mult) and isinstance(n.left, ast.List) and not n.left.elts:       # `[] * 256`
                self.to_int(*self.expr(n.right, env))
                return NIL, "list"
            a, ta = self.expr(n.left, env)
            b, tb = self.expr(n.right, env)
            return mk_bin(BINOPS[type(n.op)], self.to_int(a, ta), self.to_int(b, tb)), "int"
        if isinstance(n, ast.UnaryOp) and isinstance(n.op, ast.Not):
            return self.truth(n, env), "bool"
        if isinstance(n, ast.BoolOp):
            # `a and b` is one of its operands: a Bool only when all of them are
            if any(self.expr(v, env)[1] != "bool" for v in n.values):
                raise Unsupported("and / or of non-bool operands used as a value")
            return self.truth(n, env), "bool"
        if isinstance(n, ast.Compare):
            left = n.left
            parts = []
            for op, right in zip(n.ops, n.comparators):
                parts.append(self.compare(op, *self.expr(left, env), *self.expr(right, env)))
                left = right
            return mk_junction("and", parts), "bool"
        if isinstance(n, ast.IfExp):
            c = self.truth(n.test, env)
            a, ta = self.expr(n.body, env)
            b, tb = self.expr(n.orelse, env)
            t = unify(ta, tb) if "none" in (ta, tb) or ta in OPT_BASE or tb in OPT_BASE or ta == tb else "int"
            return mk_ite(c, self.coerce(a, ta, t), self.coerce(b, tb, t)), t
        if isinstance(n, ast.Call):
            f = dotted(n.func)
            if n.keywords:
                raise Unsupported(f"keyword arguments in call {f}")
            if f == "len" and len(n.args) == 1:
                a, ta = self.expr(n.args[0], env)
                base = OPT_BASE.get(ta, ta)
                if base in OBJECTS:                                # len(object) is its __len__
                    m = self.objmethods.get(base, {}).get("__len__")
                    if m is None or m[1] or m[2] != "int":
                        raise Unsupported(f"len() of a {ta}")
                    return ("app", m[0], [self.convert(a, ta, base)]), "int"
                return ("len", self.to_list(a, ta)), "int"
            if f == "cast" and len(n.args) == 2 and dotted(n.args[0]) in ("int", "bytes", "bytearray", "bool"):
                # typing.cast is the identity; the translation is total: None is used as the default of the type
                a, ta = self.expr(n.args[1], env)
                want = {"int": "int", "bool": "bool"}.get(dotted(n.args[0]), "list")
                return self.convert(a, ta, want), want
            if f == "cast" and len(n.args) == 2 and dotted(n.args[0]) in self.constructors:
                # typing.cast to the class of an opaque object: the identity (None is used as the default object)
                a, ta = self.expr(n.args[1], env)
                want = self.constructors[dotted(n.args[0])][1]
                return self.convert(a, ta, want), want
            if f == "bool" and len(n.args) == 1:
                return self.truth(n.args[0], env), "bool"
            if f in ("bytes", "bytearray") and not n.args:
                return NIL, "list"
            if f in ("bytes", "bytearray") and len(n.args) == 1:                       # copy of a byte string
                a, ta = self.expr(n.args[0], env)
                if ta != "list":
                    raise Unsupported(f"{f}() of a {ta}")
                return a, "list"
            if f in self.callfns:
                lean, argts, rt = self.callfns[f]
                if len(argts) != len(n.args):
                    raise Unsupported(f"call {f}: {len(n.args)} arguments, {len(argts)} expected")
                args = [self.convert(*self.expr(x, env), want) for x, want in zip(n.args, argts)]
                return (("app", lean, args) if args else ("const", "(" + lean + ")")), rt
            if f in ("max", "min") and len(n.args) == 2:
                a, ta = self.expr(n.args[0], env)
                b, tb = self.expr(n.args[1], env)
                return ("app", f, sorted([self.to_int(a, ta), self.to_int(b, tb)], key=ckey)), "int"
            if f in self.calls and not n.args:
                return ("const", self.calls[f][0]), self.calls[f][1]
            if f in self.constructors and not n.args:
                return ("const", self.constructors[f][0]), self.constructors[f][1]
            if f in self.selfcalls or f in self.effects:
                # only as a statement, as the whole right-hand side of an assignment, or as the returned value
                raise Unsupported(f"call of the state-changing method {f} inside an expression")
            om = self.object_member(f, env) if f else None
            if om is not None:                                     # a method of an object that answers a value
                recv, (lean, argts, rt) = om
                if rt == "mut" or lean.startswith("const:"):
                    raise Unsupported(f"call of the object-changing method / of the constant {f} inside an expression")
                if len(argts) != len(n.args):
                    raise Unsupported(f"call {f}: {len(n.args)} arguments, {len(argts)} expected")
                return ("app", lean, [recv] + [self.convert(*self.expr(x, env), want) for x, want in zip(n.args, argts)]), rt
            raise Unsupported(f"call {f}")
        if isinstance(n, ast.Subscript):
            a, ta = self.expr(n.value, env)
            if ta != "list":
                raise Unsupported("subscript of a non-list")
            if isinstance(n.slice, ast.Slice):
                if n.slice.step is not None:
                    raise Unsupported("slice step")
                k = self.neg_literal(n.slice.lower)
                if k is not None:
                    # x[-k:] starts at max(len(x) - k, 0): exactly the truncated subtraction of Nat
                    if n.slice.upper is not None:
                        raise Unsupported("slice with a negative start and an end")
                    return mk_drop(a, ("bin", "-", ("len", a), lit(k))), "list"
                lo = self.to_int(*self.expr(n.slice.lower, env)) if n.slice.lower else lit(0)
                if n.slice.upper is None:
                    return mk_drop(a, lo), "list"
                up = n.slice.upper
                if (isinstance(up, ast.UnaryOp) and isinstance(up.op, ast.USub) and isinstance(up.operand, ast.Constant)
                        and type(up.operand.value) is int and up.operand.value > 0):
                    # x[lo:-k] ends at max(len(x) - k, 0): exactly the truncated subtraction of Nat
                    return mk_drop(("take", a, ("bin", "-", ("len", a), lit(up.operand.value))), lo), "list"
                hi = self.to_int(*self.expr(n.slice.upper, env))
                return mk_drop(("take", a, hi), lo), "list"
            k = self.neg_literal(n.slice)
            if k is not None:
                # x[-k] is x[len(x) - k] when k <= len(x); python raises otherwise, the translation is total (the
                # truncated subtraction of Nat; the theorems state the guards, as for every index)
                return mk_get(a, ("bin", "-", ("len", a), lit(k))), "int"
            i = self.to_int(*self.expr(n.slice, env))
            return mk_get(a, i), "int"
        if isinstance(n, ast.List) and not n.elts:
            return NIL, "list"
        raise Unsupported(f"expression {type(n).__name__}")

    @staticmethod
    def neg_literal(n):
        """k of the expression `-k` with a literal k > 0, else None"""
        if (isinstance(n, ast.UnaryOp) and isinstance(n.op, ast.USub) and isinstance(n.operand, ast.Constant)
                and type(n.operand.value) is int and n.operand.value > 0):
            return n.operand.value
        return None

    def object_holder(self, d, env):
        """d = <name bound to an object or an Optional object>.<configured member path>: (name, member path), else None"""
        parts = d.split(".")
        for k in range(len(parts) - 1, 0, -1):
            p = ".".join(parts[:k])
            if p in env:
                base = OPT_BASE.get(env[p].type, env[p].type)
                if base in OBJECTS and ".".join(parts[k:]) in self.objmethods.get(base, {}):
                    return p, ".".join(parts[k:])
                return None
        return None

    def object_member(self, d, env):
        """(the object as a term, (lean function, argument types, result type)) of a configured member, else None.
        A member of None: python raises, the translation uses the default object (the theorems state the guards)."""
        h = self.object_holder(d, env)
        if h is None:
            return None
        p, member = h
        v = env[p]
        if v.unbound:
            raise Unsupported(f"local {p} may be unbound where it is read")
        base = OPT_BASE.get(v.type, v.type)
        return self.convert(v.ir, v.type, base), self.objmethods[base][member]

    # ---------------------------------------------------------------- statements
    @staticmethod
    def skipped(st):
        if isinstance(st, ast.Pass):
            return True
        if isinstance(st, ast.Expr) and isinstance(st.value, ast.Constant) and isinstance(st.value.value, str):
            return True                                            # docstring
        if isinstance(st, ast.Expr) and isinstance(st.value, ast.Call):
            return (dotted(st.value.func) or "").startswith("_LOGGER.")      # logging
        return False

    def simple(self, body):
        """only assignments (and `if`s of such): the block is a function from environments to environments"""
        for st in body:
            if self.skipped(st) or isinstance(st, (ast.Assign, ast.AugAssign)):
                continue
            if self.stmt_call(st) is not None or isinstance(st, ast.Assert):
                continue
            if isinstance(st, ast.If) and self.simple(st.body) and self.simple(st.orelse):
                # an `if` that calls other methods of the object is translated path by path (`if c then <state after
                # A> else <state after B>`, as with a `return` inside), not attribute by attribute
                if not any(isinstance(x, ast.Call) and dotted(x.func) in self.selfcalls for x in ast.walk(st)):
                    continue
            return False
        return True

    def state_names(self):
        """what a call of another method of the object may assign: the mutated attributes and the ghosts"""
        return list(self.mutates) + ["$" + g for g in self.ghosts]

    def stmt_call(self, st):
        """A statement `f(..)` that changes a variable: the python names it may assign, else None.  (By name only: the
        types are checked when the statement is executed.)  `x.append(v)`, `x.clear()`, a configured object-changing
        method `x.m(..)`, a configured effect, a call of another translated method of the object."""
        if not (isinstance(st, ast.Expr) and isinstance(st.value, ast.Call)):
            return None
        f = dotted(st.value.func) or ""
        if f in self.selfcalls:
            return self.state_names()
        if f in self.effects:
            return ["$" + self.effects[f]]
        if "." in f:
            recv, m = f.rsplit(".", 1)
            if m in ("append", "clear") or any(ms.get(m, ("", [], ""))[2] == "mut" for ms in self.objmethods.values()):
                return [recv]
        return None

    def assigned(self, body):
        """python names (locals and mutated attributes) a block may assign, loop variables excluded"""
        res = []

        def visit(x):
            d = None
            if isinstance(x, ast.Assign):
                d = dotted(x.targets[0])
            elif isinstance(x, ast.AugAssign):
                d = dotted(x.target)
            if isinstance(x, ast.Assign) and isinstance(x.value, ast.Call) and dotted(x.value.func) in self.selfcalls:
                for g in self.state_names():
                    if g not in res:
                        res.append(g)
            for g in [d] if d is not None else (self.stmt_call(x) or []):
                if g not in res:
                    res.append(g)
            for c in ast.iter_child_nodes(x):          # source order
                visit(c)
        for st in body:
            visit(st)
        return res

    def assign(self, d, e, te, env):
        env = dict(env)
        if d in self.mutates:
            env[d] = V(self.coerce(e, te, self.mutates[d][1]), self.mutates[d][1], False)
        else:
            env[d] = V(e, te, False)
        return env

    def exec_simple(self, body, env):
        for st in body:
            if self.skipped(st):
                continue
            if isinstance(st, ast.If):
                env = self.join(self.truth(st.test, env), self.exec_simple(st.body, env), self.exec_simple(st.orelse, env))
                continue
            if isinstance(st, ast.Assert):
                # a no-op (python raises when the test is false: the theorems state the asserted fact where they need
                # it); the test is translated, and dropped, so that an unsupported expression in it is still rejected
                self.truth(st.test, env)
                continue
            if isinstance(st, ast.Expr):                           # a statement call that changes a variable
                env = self.exec_call(st.value, env)
                continue
            if isinstance(st, ast.Assign):
                if len(st.targets) != 1:
                    raise Unsupported("multiple assignment")
                target, value = st.targets[0], st.value
            else:
                if type(st.op) not in BINOPS:
                    raise Unsupported("augmented operator")
                target = st.target                                 # x op= e  is  x = x op e
                value = ast.BinOp(left=target, op=st.op, right=st.value)
            d = dotted(target)
            if d is None or not (isinstance(target, ast.Name) or d in self.mutates):
                raise Unsupported(f"assignment target {ast.dump(target)[:40]}")
            if d == "self" or (d in self.mapping and d not in env):
                raise Unsupported(f"assignment to {d}")
            if isinstance(value, ast.Call) and dotted(value.func) in self.selfcalls:
                env, e, te = self.selfcall(value, env)             # x = self.method(..)
                if te is None:
                    raise Unsupported(f"{d} = {dotted(value.func)}(..), which returns None")
            else:
                e, te = self.expr(value, env)
            dv = dotted(value)
            if te == "list" and self.appends and (isinstance(value, ast.Name) or dv in self.mutates):
                raise Unsupported(f"{d} = {dv}: two names for one list that may be changed in place")
            if OPT_BASE.get(te, te) in OBJECTS and self.inplace and dv is not None:
                raise Unsupported(f"{d} = {dv}: two names for one object that may be changed in place")
            env = self.assign(d, e, te, env)
        return env

    def exec_call(self, call, env):
        """the environment after a statement `f(..)` that changes a variable (see stmt_call)"""
        f = dotted(call.func) or ""
        if call.keywords:
            raise Unsupported(f"keyword arguments in call {f}")
        if f in self.selfcalls:
            return self.selfcall(call, env)[0]
        if f in self.effects:
            if call.args:
                raise Unsupported(f"call {f} with arguments")
            return self.assign("$" + self.effects[f], TRUE, "bool", env)
        tgt, m = f.rsplit(".", 1)
        if tgt in env and not env[tgt].unbound and OPT_BASE.get(env[tgt].type, env[tgt].type) in OBJECTS:
            om = self.object_member(f, env)
            if om is None or om[1][2] != "mut":
                raise Unsupported(f"statement call {f}")
            if tgt not in self.mutates and (tgt in self.mapping or "." in tgt):
                raise Unsupported(f"{f}: changes an object that is not a local or a mutated attribute")
            recv, (lean, argts, _) = om
            if len(argts) != len(call.args):
                raise Unsupported(f"call {f}: {len(call.args)} arguments, {len(argts)} expected")
            args = [self.convert(*self.expr(x, env), want) for x, want in zip(call.args, argts)]
            return self.assign(tgt, ("app", lean, [recv] + args), OPT_BASE.get(env[tgt].type, env[tgt].type), env)
        if m not in ("append", "clear"):
            raise Unsupported(f"statement call {f}")
        # x.append(v), x.clear() of a list: a local, or a mutated attribute (its final value is answered)
        if tgt not in env or (tgt in self.mapping and tgt not in self.mutates):
            raise Unsupported(f"{m} to {tgt}, which is not a local")
        l, tl = self.expr(call.func.value, env)
        if tl != "list":
            raise Unsupported(f"{m} to a {tl}")
        if m == "clear":
            if call.args:
                raise Unsupported("clear with arguments")
            return self.assign(tgt, NIL, "list", env)
        if len(call.args) != 1:
            raise Unsupported("append with other than one argument")
        return self.assign(tgt, ("append1", l, self.to_int(*self.expr(call.args[0], env))), "list", env)

    def state_term(self, env):
        """the current state of the object, as the argument of another translated method"""
        vals = [self.coerce(env[d].ir, env[d].type, t) for d, (_, t) in self.mutates.items()]
        if any(env[d].unbound for d in self.mutates):
            raise Unsupported("internal: unbound attribute")
        if self.record:
            return [mk_rec(self.record[0], [(lean, v) for (lean, _), v in zip(self.mutates.values(), vals)])]
        return vals

    def layout(self):
        """the components of what a function with `mutates` / `ghosts` answers"""
        comps = [("state", None)] if self.record else [("field", d) for d in self.mutates]
        comps += [("ghost", g) for g in self.ghosts]
        return comps + ([("ret", None)] if self.pyret is not None else [])

    def selfcall(self, call, env):
        """`self.method(args)` for another translated method of the same object (`selfcalls`): the generated
        definition of that method is applied to the current state, and the state afterwards (and its ghosts) are
        the components of its answer.  Answers (environment, returned value or None, its type or None)."""
        f = dotted(call.func)
        g = self.selfcalls[f]
        if call.keywords:
            raise Unsupported(f"keyword arguments in call {f}")
        if g.failed or isinstance(g.obj, _Missing):
            raise Unsupported(f"call {f}: the callee {g.name} is not translatable")
        if (g.record, g.mutates) != (self.record, self.mutates):
            raise Unsupported(f"call {f}: the callee {g.name} has another state")
        if any(x not in self.ghosts for x in g.ghosts):
            raise Unsupported(f"call {f}: an effect of the callee {g.name} is not recorded here")
        pyparams = [a for a in inspect.signature(unwrap_fn(g.obj)).parameters if a != "self"]
        if len(pyparams) != len(call.args):
            raise Unsupported(f"call {f}: {len(call.args)} arguments, {len(pyparams)} expected")
        byname = {}
        for a, x in zip(pyparams, call.args):
            if a not in g.mapping:
                raise Unsupported(f"call {f}: parameter {a} of the callee is not configured")
            lean, t = g.mapping[a]
            byname[lean] = self.convert(*self.expr(x, env), t)
        state = self.state_term(env)
        statenames = [g.record[1]] if g.record else [lean + "0" for lean, _ in g.mutates.values()]
        args = []
        for n, ty in g.params:
            if n in statenames:
                args.append(state[statenames.index(n)])
            elif n in byname:
                args.append(byname.pop(n))
            elif (n, ty) in self.params:
                args.append(("const", n))                          # the configuration of the object: passed on
            else:
                raise Unsupported(f"call {f}: no value for the parameter {n} of {g.name}")
        if byname:
            raise Unsupported(f"call {f}: internal: unused arguments")
        res = ("app", g.name, args) if args else ("const", g.name)
        comps = g.layout()
        env = dict(env)
        ret = None
        for j, (kind, x) in enumerate(comps):
            c = res if len(comps) == 1 else mk_proj(res, tuple_path(j, len(comps)))
            if kind == "state":
                for d, (lean, t) in self.mutates.items():
                    env[d] = V(mk_proj(c, lean), t, False)
            elif kind == "field":
                env[x] = V(c, self.mutates[x][1], False)
            elif kind == "ghost":
                env["$" + x] = V(mk_or([env["$" + x].ir, c]), "bool", False)
            else:
                ret = c
        return env, ret, g.pyret

    def join(self, c, ea, eb):
        """the environment after `if c: A else: B`, from the environments after A and after B"""
        env = {}
        for d in list(ea) + [x for x in eb if x not in ea]:
            va, vb = ea.get(d), eb.get(d)
            if va is None or vb is None:       # bound on one side only: reading it is rejected
                v = va or vb
                env[d] = V(v.ir, v.type, True)
                continue
            if va.ir == vb.ir and va.type == vb.type:
                env[d] = V(va.ir, va.type, va.unbound or vb.unbound)
                continue
            t = unify(va.type, vb.type)
            env[d] = V(mk_ite(c, self.coerce(va.ir, va.type, t), self.coerce(vb.ir, vb.type, t)), t, va.unbound or vb.unbound)
        return env

    def ret_tag(self):
        for tag, ty in LEAN_TY.items():
            if ty == self.ret:
                return tag
        raise Unsupported(f"return type {self.ret}")

    def final_state(self, env, ret=None):
        """what a function that mutates attributes answers: their final values (as one record, with `record`), the
        ghosts, and what python returns"""
        comps = self.state_term(env) + [env["$" + g].ir for g in self.ghosts]
        if self.pyret is not None:
            comps.append(ret)
        n = len(comps)
        if n > 1 and all(c[0] == "proj" and c[2] == tuple_path(j, n) for j, c in enumerate(comps)) and len({show(c[1], None) for c in comps}) == 1:
            return comps[0][1]                 # all the components of one tuple: that tuple
        return ("tuple", comps)

    def do_return(self, value, env):
        """`return value` (value None: a bare `return`, or the end of the body) of a function with a state"""
        none = value is None or (isinstance(value, ast.Constant) and value.value is None)
        if self.pyret is None:
            if not none:
                raise Unsupported("a value is returned from a function that is configured to return None")
            return self.final_state(env)
        if none:
            return self.final_state(env, self.coerce(NONE, "none", self.pyret))
        if isinstance(value, ast.Call) and dotted(value.func) in self.selfcalls:
            env, e, te = self.selfcall(value, env)                 # return self.method(..)
            if te is None:
                e, te = NONE, "none"
        else:
            e, te = self.expr(value, env)
        return self.final_state(env, self.coerce(e, te, self.pyret))

    def block(self, body, env, k):
        """the value of running `body` in `env` and then the continuation `k` (a function of the environment)"""
        for pos, st in enumerate(body):
            rest = body[pos + 1:]
            if self.skipped(st):
                continue
            if self.simple([st]):
                env = self.exec_simple([st], env)
                continue
            if isinstance(st, ast.If):
                c = self.truth(st.test, env)
                return mk_ite(c, self.block(st.body + rest, env, k), self.block(st.orelse + rest, env, k))
            if isinstance(st, ast.Return):
                if self.in_for:
                    raise Unsupported("return inside a for loop")
                if self.mutates or self.ghosts:
                    return self.do_return(st.value, env)
                if st.value is None:
                    return self.coerce(NONE, "none", self.ret_tag())
                return self.coerce(*self.expr(st.value, env), self.ret_tag())
            if isinstance(st, ast.For):
                return self.do_for(st, rest, env, k)
            if isinstance(st, ast.While):
                return self.do_while(st, env)          # no break: what follows the loop is never reached
            if isinstance(st, ast.Expr) and isinstance(st.value, ast.Call):
                raise Unsupported(f"statement call {dotted(st.value.func)}")
            raise Unsupported(f"statement {type(st).__name__}")
        return k(env)

    # ---------------------------------------------------------------- loops
    def loop_state(self, state, env, run):
        """Translate a loop body whose state is the python names `state`.  run(body env, ids, types) answers the
        body term; it calls self.leaf(env) where an iteration ends.  The types of the state are those on entry,
        widened (int -> Option int, ...) or found (unbound on entry) from what an iteration leaves."""
        types = {d: (env[d].type if d in env else None) for d in state}
        for _ in range(4):
            ids = {d: self.new_id(self.lname(d)) for d in state}
            benv = dict(env)
            for d in state:
                benv[d] = V(("var", ids[d]), types[d], d not in env or env[d].unbound)
            seen = dict(types)
            saved = self.leaf

            def leaf(e, types=types, seen=seen, state=state):
                out = []
                for d in state:
                    v = e[d]
                    if types[d] is not None and v.type is not None:
                        try:
                            out.append(self.coerce(v.ir, v.type, types[d]))
                            continue
                        except Unsupported:
                            pass
                    seen[d] = unify(seen[d], v.type)
                    out.append(v.ir)
                return out
            self.leaf = leaf
            try:
                body = run(benv, ids, types)
            finally:
                self.leaf = saved
            if seen == types:
                if any(t is None for t in types.values()):
                    raise Unsupported("a loop variable whose type cannot be found")
                return ids, types, body
            types = seen
        raise Unsupported("the types of the loop state do not settle")

    def do_for(self, st, rest, env, k):
        """`for x in coll: body` without break / continue / return: a left fold.  State: the names assigned in the
        body (first-assignment order of the function), pruned afterwards to those that are needed."""
        if st.orelse:
            raise Unsupported("for-else")
        if not isinstance(st.target, ast.Name):
            raise Unsupported("for target")
        if any(isinstance(x, (ast.Break, ast.Continue)) for s2 in st.body for x in ast.walk(s2)):
            raise Unsupported("break / continue")
        tgt = st.target.id
        it = st.iter
        if isinstance(it, ast.Call) and dotted(it.func) == "range":
            if it.keywords or not 1 <= len(it.args) <= 2:
                raise Unsupported("range with a step")
            args = [self.to_int(*self.expr(a, env)) for a in it.args]
            lo, hi = (lit(0), args[0]) if len(args) == 1 else args
            coll = ("range", lo, hi if lo == lit(0) else mk_bin("-", hi, lo))      # start and number of items
        else:
            e, te = self.expr(it, env)
            if te != "list":
                raise Unsupported("for over a non-list")
            coll = e
        names = self.assigned(st.body)
        state = [d for d in self.order if d in names and d != tgt]
        item = self.new_id(self.lname(tgt))

        def run(benv, ids, types):
            benv[tgt] = V(("var", item), "int", False)
            was, self.in_for = self.in_for, True
            try:
                return self.block(st.body, benv, lambda e: ("yield", self.leaf(e)))
            finally:
                self.in_for = was
        ids, types, body = self.loop_state(state, env, run)
        env2 = dict(env)
        env2.pop(tgt, None)                    # python leaves the last item (or nothing) in it: reading it is rejected
        for x in ast.walk(st):                 # ... and so for the variables of inner loops
            if isinstance(x, ast.For) and isinstance(x.target, ast.Name):
                env2.pop(x.target.id, None)
        if not state:
            return self.block(rest, env2, k)
        outs = [self.new_id(self.lname(d)) for d in state]
        inits = []
        for d, o in zip(state, outs):
            if d in env:
                inits.append(self.coerce(env[d].ir, env[d].type, types[d]))
            else:
                inits.append(DEFAULT_IR[types[d]])
            env2[d] = V(("var", o), types[d], d not in env or env[d].unbound)
        return ("letfold", outs, [ids[d] for d in state], item, [types[d] for d in state], body, inits, coll,
                self.block(rest, env2, k))

    def do_while(self, st, env):
        """`while True:` without break/continue (so whatever follows it is never reached from the loop).  The loop becomes an
        auxiliary definition by recursion on a fuel argument, whose body is the translated loop body followed by
        the recursive call; the state is ALL locals of the function, in order of first assignment (a local that is
        not bound yet is passed as the default of its type; it cannot be read before it is assigned).  A `return`
        in the body is a return of the function, as in Python.  Python's loop has no bound: when the fuel runs out
        the auxiliary definition answers its extra argument `oof`, and the equivalence theorem is stated for every
        `oof` and every large enough fuel — so it also proves that the fuel the definition grants (`Fn.fuel`) is
        never used up."""
        if not (isinstance(st.test, ast.Constant) and st.test.value is True):
            raise Unsupported("while with a condition other than True")
        if st.orelse:
            raise Unsupported("while-else")
        if any(isinstance(x, (ast.Break, ast.Continue, ast.While)) for s2 in st.body for x in ast.walk(s2)):
            raise Unsupported("break / continue / nested while in `while True`")
        if self.fuel is None:
            raise Unsupported("`while True` in a function without a configured fuel")
        if self.in_for or self.in_while:
            raise Unsupported("`while True` inside another loop")
        state = [d for d in self.order if d not in self.loop_targets]
        name = f"{self.name}.loop{len(self.aux) + 1}"
        pargs = " ".join(n for n, _ in self.params)

        def run(benv, ids, types):
            self.in_while = True
            try:
                return self.block(st.body, benv, lambda e: ("app", f"{name} {pargs} oof fuel", self.leaf(e)))
            finally:
                self.in_while = False
        ids, types, body = self.loop_state(state, env, run)
        head = [f"def {name} " + " ".join(f"({n} : {t})" for n, t in self.params) + f" (oof : {self.ret}) : Nat → "
                + " → ".join(LEAN_TY[types[d]] for d in state) + f" → {self.ret}",
                "  | 0, " + ", ".join("_" for _ in state) + " => oof"]
        self.aux.append((head, [ids[d] for d in state], body))
        args = [self.coerce(env[d].ir, env[d].type, types[d]) if d in env else DEFAULT_IR[types[d]] for d in state]
        oof = {"optint": "(none : Option Nat)", "optbool": "(none : Option Bool)", "optlist": "(none : Option (List Nat))",
               "int": "0", "bool": "false", "list": "([] : List Nat)"}[self.ret_tag()]
        return ("app", f"{name} {pargs} {oof} ({self.fuel})", args)

    leaf = None

    # ---------------------------------------------------------------- dead state
    def project(self, body, keep):
        """the body of a fold with only the components `keep` of its state"""
        t = body[0]
        if t == "yield":
            return ("yield", [body[1][j] for j in keep])
        if t == "ite":
            return mk_ite(body[1], self.project(body[2], keep), self.project(body[3], keep))
        if t == "letfold":
            return body[:8] + (self.project(body[8], keep),)
        raise Unsupported("internal: fold body")

    def prune(self, e):
        """drop the components of fold states that nothing needs (and folds that nothing needs)"""
        t = e[0]
        if t == "ite":
            return mk_ite(e[1], self.prune(e[2]), self.prune(e[3]))
        if t != "letfold":
            return e
        _, outs, ins, item, types, body, inits, coll, rest = e
        rest = self.prune(rest)
        used = uses(rest)
        keep = [j for j, o in enumerate(outs) if o in used]
        while True:
            pbody = self.prune(self.project(body, keep))
            need = uses(pbody)
            more = [j for j, i in enumerate(ins) if i in need and j not in keep]
            if not more:
                break
            keep = sorted(keep + more)
        if not keep:
            return rest
        pick = lambda xs: [xs[j] for j in keep]
        return ("letfold", pick(outs), pick(ins), item, pick(types), pbody, pick(inits), coll, rest)

    # ---------------------------------------------------------------- printing
    def name_binders(self, e, taken, names):
        """readable names for the binders of a statement-position term, unique in the definition"""
        def fresh(hint):
            n, i = hint, 0
            while n in taken:
                i += 1
                n = f"{hint}_{i}"
            taken.add(n)
            return n
        t = e[0]
        if t == "ite":
            self.name_binders(e[2], taken, names)
            self.name_binders(e[3], taken, names)
        if t != "letfold":
            return
        _, outs, ins, item, types, body, inits, coll, rest = e
        n = len(outs)
        ub = uses(body)
        names[item] = fresh(self.hints[item]) if item in ub else "_"
        if n == 1:
            names[outs[0]] = fresh(self.hints[outs[0]])
            names[ins[0]] = fresh(self.hints[ins[0]]) if ins[0] in ub else "_"
        else:
            r, s = fresh("r"), fresh("s")
            names[("tuple", ins[0])], names[("tuple", outs[0])] = s, r
            for j in range(n):
                names[ins[j]] = s + proj_path(j, n)
                names[outs[j]] = r + proj_path(j, n)
        self.name_binders(body, taken, names)
        self.name_binders(rest, taken, names)

    def lines(self, e, names, ind):
        """Lean text (lines) of a statement-position term"""
        pad = "  " * ind
        t = e[0]
        if t == "letfold":
            _, outs, ins, item, types, body, inits, coll, rest = e
            n = len(outs)
            ty = " × ".join(LEAN_TY[x] for x in types)
            res = []
            if n == 1:
                sname, rname = names[ins[0]], names[outs[0]]
            else:
                sname, rname = names[("tuple", ins[0])], names[("tuple", outs[0])]
                res.append(f"{pad}-- {sname}, {rname} = (" + ", ".join(self.hints[i] for i in ins) + ")")
            blines = self.lines(body, names, ind + 2)
            init = show(("tuple", inits), names)
            head = f"{pad}let {rname} := List.foldl (fun ({sname} : {ty}) ({names[item]} : Nat) =>"
            tail = f") {init if atomic(init) else '(' + init + ')'} {show(coll, names)}"
            if len(blines) == 1 and len(head) + len(blines[0].strip()) + len(tail) < 150:
                res.append(f"{head} {blines[0].strip()}{tail}")
            else:
                res += [head] + blines[:-1] + [blines[-1] + tail]
            return res + self.lines(rest, names, ind)
        if t == "ite" and (size(e) > 40 or self.has_fold(e)):
            return ([f"{pad}if {show(e[1], names)} then"] + self.lines(e[2], names, ind + 1)
                    + [f"{pad}else"] + self.lines(e[3], names, ind + 1))
        return [pad + show(e, names)]

    def has_fold(self, e):
        return e[0] == "letfold" or (e[0] == "ite" and (self.has_fold(e[2]) or self.has_fold(e[3])))

    def reserved(self):
        words = {"s", "r", "fuel", "oof", "some", "none", "true", "false", "max", "min", "decide", "List", "Nat", "Bool",
                 "Option", "end", "at", "from", "do", "then", "else", "fun", "let", "if", "in", "with", "match", "have", "show",
                 "by", "open", "def", "theorem", "instance", "structure", "class", "where", "namespace", "section", "import",
                 "mut", "for", "return", "Type", "Prop", "Sort", "using", "variable", "universe", "example", "local", "private"}
        for n, _ in self.params:
            words.add(n)
        for m in (self.mapping, self.calls):
            for lean, _ in m.values():
                words.update(re.findall(r"[A-Za-z_]\w*", lean))
        for lean, _, _ in self.callfns.values():
            words.update(re.findall(r"[A-Za-z_]\w*", lean))
        return words

    def translate(self):
        if isinstance(self.obj, _Missing):
            raise Unsupported(f"{self.obj.path} does not exist in the source")
        src = textwrap.dedent(inspect.getsource(unwrap_fn(self.obj)))
        return self.render(self.term(ast.parse(src).body[0]))

    def term(self, fn):
        """the term of the function definition `fn` (an ast.FunctionDef); loops of `while True` go to self.aux"""
        if not isinstance(fn, (ast.FunctionDef,)):
            raise Unsupported("not a plain function")
        if fn.args.vararg or fn.args.kwarg or fn.args.kwonlyargs or fn.args.defaults:
            raise Unsupported("parameters other than plain positional ones")
        env = {}
        for py, (lean, t) in self.mutates.items():
            entry = mk_proj(("const", self.record[1]), lean) if self.record else ("const", lean + "0")
            env[py] = V(entry, t, False)
        for g in self.ghosts:
            env["$" + g] = V(FALSE, "bool", False)
        for py, (lean, t) in self.mapping.items():
            if "." not in py and py != "self":         # a python parameter: may be assigned
                env[py] = V(("const", lean), t, False)
        for a in fn.args.args:
            if a.arg != "self" and a.arg not in env:
                raise Unsupported(f"parameter {a.arg} is not configured")
        self.order = self.assigned(fn.body)
        self.order = [d for d in self.mutates if d in self.order] + [d for d in self.order if d not in self.mutates]
        self.loop_targets = {x.target.id for x in ast.walk(fn) if isinstance(x, ast.For) and isinstance(x.target, ast.Name)}
        self.appends = any(isinstance(x, ast.Call) and (dotted(x.func) or "").endswith((".append", ".clear")) for x in ast.walk(fn))
        # may an object be changed in place (by a method of it, or by another method of `self`)?
        muts = {"." + m for ms in self.objmethods.values() for m, sig in ms.items() if sig[2] == "mut"}
        self.inplace = any(isinstance(x, ast.Call) and ((dotted(x.func) or "") in self.selfcalls or (dotted(x.func) or "").endswith(tuple(muts) or ("\0",)))
                           for x in ast.walk(fn))
        for f in self.once:
            sites = [x for x in ast.walk(fn) if isinstance(x, (ast.Call, ast.Attribute)) and dotted(x) == f]
            loops = [y for x in ast.walk(fn) if isinstance(x, (ast.For, ast.While)) for y in ast.walk(x) if dotted(y) == f]
            if len(sites) > 1 or loops:
                raise Unsupported(f"{f} is used more than once")

        def end(e):
            if self.mutates or self.ghosts:
                if self.pyret is not None and self.pyret not in OPT_BASE:
                    raise Unsupported("the function can end without a return")
                return self.do_return(None, e)
            if self.ret_tag() in OPT_BASE:             # falling off the end answers None
                return NONE
            raise Unsupported("the function can end without a return")
        ir = self.prune(self.block(fn.body, env, end))
        if size(ir) > MAX_SIZE:
            raise Unsupported("the translation is too large")
        self.aux = [(head, ids, self.prune(body)) for head, ids, body in self.aux]
        return ir

    def render(self, ir):
        """Lean text of the definition (and of its auxiliary loops)"""
        out = []
        taken = self.reserved()
        for head, ids, body in self.aux:
            names = {}
            ub = uses(body)
            for i in ids:
                n = self.hints[i]
                while n in taken:
                    n += "'"
                taken.add(n)
                names[i] = n if i in ub else "_" + n
            self.name_binders(body, taken, names)
            out.append("\n".join(head + ["  | fuel + 1, " + ", ".join(names[i] for i in ids) + " =>"] + self.lines(body, names, 2)))
        names = {}
        self.name_binders(ir, taken, names)
        head = f"def {self.name} " + " ".join(f"({n} : {t})" for n, t in self.params) + f" : {self.ret} :="
        out.append("\n".join([head] + self.lines(ir, names, 1)))
        return "\n\n".join(out)


def generate(han):
    """han: dict of imported modules. Returns ({file name: lean text}, problems)."""
    # attribute look-ups through _Safe never raise: a function the changed source no longer has becomes a _Missing
    # object, whose translation is reported as a problem (and a stub) for that one function only
    ffc, hdlc, dlde, mc = (_Safe(han[k], k) for k in ("fastframecheck", "hdlc", "dlde", "meter_connection"))
    F = ffc.FastFrameCheckSequence16
    H = hdlc.HdlcFrameHeader
    HF = hdlc.HdlcFrame
    tbl = {"FastFrameCheckSequence16.fast_frame_check_crc_table": ("Amshan.Gen.fcsTable", "list"),
           "FastFrameCheckSequence16.INIT_FCS_16": ("Amshan.Gen.fcsInit", "int"),
           "self.INIT_FCS_16": ("Amshan.Gen.fcsInit", "int"), "self.GOOD_FCS_16": ("Amshan.Gen.fcsGood", "int")}
    frame = {"self._frame": ("data", "list"), "self._frame.as_bytes": ("data", "list")}
    hdr = {**frame, "self._control_position": ("controlPosition", "optint")}                      # inside HdlcFrameHeader
    adr = {"self._get_address": ("hdlcGetAddress data", ["int"], "optlist")}
    frm = {"self": ("data", "list"), "self._frame_data": ("data", "list")}                         # inside HdlcFrame (len(self))
    infopos = {"self._header.information_position": ("(hdlcInformationPosition controlPosition)", "optint")}
    fns = [
        Fn("computeFcsTable", ffc._compute_fcs_16_crc_table, [], "List Nat"),
        Fn("fcsNext", F._next, [("crc", "Nat"), ("byte", "Nat")], "Nat", mapping={**tbl, "crc": ("crc", "int"), "byte": ("byte", "int")}),
        Fn("fcsChecksum", unwrap_fn(F.checksum), [("crcValue", "Nat")], "Nat", mapping={"self._crc_value": ("crcValue", "int")}),
        Fn("fcsIsGood", unwrap_fn(F.is_good), [("crcValue", "Nat")], "Bool", mapping={**tbl, "self._crc_value": ("crcValue", "int")}),
        Fn("fcsComputeChecksum", F.compute_checksum, [("data", "List Nat"), ("start", "Nat"), ("length", "Nat")], "Nat",
           mapping={**tbl, "data": ("data", "list"), "start": ("start", "int"), "length": ("length", "int")},
           callfns={"FastFrameCheckSequence16._next": ("fcsNext", ["int", "int"], "int")}),
        Fn("backoffFailure", mc.ExponentialBackOff.failure, [("delay0", "Nat")], "Nat", mutates={"self._delay": "delay"}),
        Fn("backoffReset", mc.ExponentialBackOff.reset, [("delay0", "Nat")], "Nat", mutates={"self._delay": "delay"}),
        Fn("backoffCurrent", unwrap_fn(mc.ExponentialBackOff.current_delay_sec), [("delay", "Nat"), ("maxDelay", "Nat")], "Nat",
           mapping={"self._delay": ("delay", "int"), "self.max_delay": ("maxDelay", "int")}),
        Fn("getBackOffTime", mc.ConnectionManager._get_back_off_time, [("currentDelay", "Nat"), ("sleepFlag", "Bool"), ("sleepSec", "Nat")], "Nat",
           mapping={"self.back_off_connect_error.current_delay_sec": ("currentDelay", "int"),
                    "self._connection_lost_sleep_before_reconnect": ("sleepFlag", "bool"),
                    "self.connection_lost_back_off_sleep_sec": ("sleepSec", "int")}),
        Fn("p1CalculateCrc16", dlde.DataReadout._calculate_crc16, [("readout", "List Nat"), ("endPos", "Nat")], "Nat",
           mapping={"self._readout": ("readout", "list"), "self._end_pos": ("endPos", "int")}),
        Fn("hdlcFrameFormat", unwrap_fn(H.frame_format), [("data", "List Nat")], "Option Nat", mapping=frame),
        Fn("hdlcFrameFormatType", unwrap_fn(H.frame_format_type), [("data", "List Nat")], "Option Nat",
           mapping=frame, calls={"self.frame_format": ("(hdlcFrameFormat data)", "optint")}),
        Fn("hdlcSegmentation", unwrap_fn(H.segmentation), [("data", "List Nat")], "Option Bool",
           mapping=frame, calls={"self.frame_format": ("(hdlcFrameFormat data)", "optint")}),
        Fn("hdlcFrameLength", unwrap_fn(H.frame_length), [("data", "List Nat")], "Option Nat",
           mapping=frame, calls={"self.frame_format": ("(hdlcFrameFormat data)", "optint")}),
        Fn("hdlcInformationPosition", unwrap_fn(H.information_position), [("controlPosition", "Option Nat")], "Option Nat",
           mapping={"self._control_position": ("controlPosition", "optint")}),
        # header: fields at the cached control position
        Fn("hdlcControl", unwrap_fn(H.control), [("data", "List Nat"), ("controlPosition", "Option Nat")], "Option Nat", mapping=hdr),
        Fn("hdlcHeaderCheckSequence", unwrap_fn(H.header_check_sequence), [("data", "List Nat"), ("controlPosition", "Option Nat")], "Option Nat",
           mapping=hdr),
        # header: addresses (`while True` loop; fuel len(frame) + 1, proved never to run out)
        Fn("hdlcGetAddress", H._get_address, [("data", "List Nat"), ("position", "Nat")], "Option (List Nat)",
           mapping={**frame, "position": ("position", "int")}, fuel="(data).length + 1"),
        Fn("hdlcDestinationAddress", unwrap_fn(H.destination_address), [("data", "List Nat")], "Option (List Nat)", mapping=frame, callfns=adr),
        Fn("hdlcSourceAddress", unwrap_fn(H.source_address), [("data", "List Nat")], "Option (List Nat)", mapping=frame, callfns=adr,
           calls={"self.destination_address": ("(hdlcDestinationAddress data)", "optlist")}),
        Fn("hdlcGetControlFieldPosition", H._get_control_field_position, [("data", "List Nat")], "Option Nat", mapping=frame,
           calls={"self.destination_address": ("(hdlcDestinationAddress data)", "optlist"),
                  "self.source_address": ("(hdlcSourceAddress data)", "optlist")}),
        Fn("hdlcHeaderUpdate", H.update, [("data", "List Nat"), ("isGoodFfc", "Bool"), ("controlPosition0", "Option Nat"), ("isHeaderGood0", "Option Bool")],
           "Option Nat × Option Bool", mapping={**frame, "self._frame.is_good_ffc": ("isGoodFfc", "bool")},
           mutates={"self._control_position": ("controlPosition", "optint"), "self._is_header_good": ("isHeaderGood", "optbool")},
           callfns={"self._get_control_field_position": ("hdlcGetControlFieldPosition data", [], "optint")}),
        # frame
        Fn("hdlcIsGoodFfc", unwrap_fn(HF.is_good_ffc), [("ffcIsGood", "Bool")], "Bool", mapping={"self._ffc.is_good": ("ffcIsGood", "bool")}),
        Fn("hdlcIsExpectedLength", unwrap_fn(HF.is_expected_length), [("data", "List Nat")], "Bool", mapping=frm,
           calls={"self._header.frame_length": ("(hdlcFrameLength data)", "optint")}),
        Fn("hdlcFrameCheckSequence", unwrap_fn(HF.frame_check_sequence), [("data", "List Nat"), ("controlPosition", "Option Nat")], "Option Nat",
           mapping=frm, calls=infopos),
        Fn("hdlcPayload", unwrap_fn(HF.payload), [("data", "List Nat"), ("controlPosition", "Option Nat")], "Option (List Nat)",
           mapping=frm, calls=infopos),
        Fn("hdlcIsValid", unwrap_fn(HF.is_valid), [("isGoodFfc", "Bool"), ("data", "List Nat")], "Bool",
           mapping={"self.is_good_ffc": ("isGoodFfc", "bool")}, calls={"self.is_expected_length": ("(hdlcIsExpectedLength data)", "bool")}),
    ]
    # ---- the state machine core of HdlcFrameReader: methods that change the reader (state passing).
    # `self` is the record Core of the attributes they assign (_unescape_next, _raw_frame_data, _frame) plus the
    # configuration Cfg (_use_octet_stuffing, _use_abort_sequence: read only).  The frame object is opaque: its
    # constructor, append, len and the accessors are mapped to the model's Frame functions (their own translations are
    # proved equal to those in C01Gen).  `_buffer.trim_buffer_to_flag_or_end()` does not touch this state: it is
    # recorded in the flag `trimmed` of the answer; `_buffer.pop()` (once) is the parameter `octet`.
    register_object("frame", "Frame")
    R = hdlc.HdlcFrameReader
    core = {"self._unescape_next": ("unescapeNext", "bool"), "self._raw_frame_data": ("raw", "list"), "self._frame": ("frame", "optframe")}
    rcfg = {"self._use_octet_stuffing": ("cfg.stuffing", "bool"), "self._use_abort_sequence": ("cfg.abort", "bool")}
    for cls in ("self", "HdlcFrameReader"):
        rcfg[cls + ".CONTROL_ESCAPE"] = ("Amshan.Gen.escOctet", "int")
        rcfg[cls + ".FLAG_SEQUENCE"] = ("Amshan.Gen.flagOctet", "int")
    rcfg["HdlcFrame.MAX_FRAME_LENGTH"] = ("Amshan.Gen.maxFrameLen", "int")
    robj = dict(objmethods={"frame": {
        "append": ("Frame.append", ["int"], "mut"), "__len__": ("Frame.len", [], "int"),
        "header.header_check_sequence": ("Frame.hcs", [], "optint"), "is_expected_length": ("Frame.isExpectedLength", [], "bool"),
        "header.frame_length": ("Frame.frameLength", [], "optint"), "header.frame_format": ("Frame.frameFormat", [], "optint"),
        "header.control": ("Frame.control", [], "optint"), "header.information_position": ("Frame.infoPos", [], "optint"),
        "is_good_ffc": ("Frame.isGoodFfc", [], "bool"), "is_valid": ("Frame.isValid", [], "bool"),
        "as_bytes": ("Frame.data", [], "list"), "frame_check_sequence": ("Frame.fcsField", [], "optint"),
        "payload": ("Frame.payload", [], "optlist"), "MAX_FRAME_LENGTH": ("const:Amshan.Gen.maxFrameLen", [], "int")}},
        constructors={"HdlcFrame": ("Frame.empty", "frame")}, record=("Core", "s"), mutates=core)
    trim = {"self._buffer.trim_buffer_to_flag_or_end": "trimmed"}
    r_append = Fn("hdlcAppendToFrame", R._append_to_frame, [("cfg", "Cfg"), ("s", "Core"), ("current", "Nat")], "Core",
                  mapping={**rcfg, "current": ("current", "int")}, **robj)
    r_start = Fn("hdlcStartFrame", R._start_frame, [("s", "Core")], "Core", mapping=rcfg, **robj)
    r_hunt = Fn("hdlcGotoHuntMode", R._goto_hunt_mode, [("s", "Core")], "Core × Bool", mapping=rcfg, ghosts=["trimmed"], effects=trim, **robj)
    rcalls = {"self._append_to_frame": r_append, "self._start_frame": r_start, "self._goto_hunt_mode": r_hunt}
    r_flag = Fn("hdlcHandleFlagSequence", R._handle_flag_sequence, [("cfg", "Cfg"), ("s", "Core")], "Core × Bool × Bool", mapping=rcfg,
                ghosts=["trimmed"], effects=trim, pyret="bool", selfcalls=rcalls, **robj)
    r_next = Fn("hdlcReadNext", R._read_next, [("cfg", "Cfg"), ("s", "Core"), ("octet", "Nat")], "Core × Bool × Bool", mapping=rcfg,
                ghosts=["trimmed"], effects=trim, pyret="bool", selfcalls={**rcalls, "self._handle_flag_sequence": r_flag},
                calls={"self._buffer.pop": ("octet", "int")}, once=["self._buffer.pop"], **robj)
    reader = [r_append, r_start, r_hunt, r_flag, r_next]
    groups = {"Fcs": fns[0:5], "BackOff": fns[5:9], "P1": fns[9:10], "Hdlc": fns[10:], "HdlcReader": reader}
    # what a group's file needs besides Amshan.Generated: (imports, lines after `namespace Amshan.GenCode`)
    extra = {"HdlcReader": (["import Amshan.Model.Hdlc"], ["open Amshan.Hdlc", ""])}
    problems = []
    files = {}
    for g, gfns in groups.items():
        out = ["/- GENERATED by harness/pytrans.py from the current /repo working tree (mechanical translation of Python",
               "   function bodies). Do not edit. Props/*Gen.lean prove these equal to the hand-written models.",
               "   One file per property group, so that a change to one function cannot break another group's proofs. -/",
               "import Amshan.Generated"] + extra.get(g, ([], []))[0] + ["set_option linter.unusedVariables false", "namespace Amshan.GenCode", ""]
        out += extra.get(g, ([], []))[1]
        for fn in gfns:
            try:
                out.append(fn.translate())
            except Exception as ex:  # Unsupported or a changed signature: emit a stub that breaks the equivalence theorem
                fn.failed = True
                problems.append(f"GeneratedCode{g}: pytrans: {fn.name}: {type(ex).__name__}: {ex}")
                out.append(f"/- untranslatable: {ex} -/\ndef {fn.name} : Unit := ()")
            out.append("")
        out.append("end Amshan.GenCode")
        files[f"GeneratedCode{g}.lean"] = "\n".join(out) + "\n"
    return files, problems
