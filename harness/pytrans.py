"""A small translator from a subset of Python (the arithmetic / bit-twiddling cores of han/*.py) to Lean 4 terms.
Its output, lean/Amshan/GeneratedCode{Fcs,BackOff,P1,Hdlc,HdlcReader,HdlcRead,P1Read,Auto,Proto}.lean, is REGENERATED from the working tree on every
run; Props/*Gen.lean prove each generated definition equal to the hand-written model, so for these functions
the tie between model and code is a kernel-checked theorem about a mechanical translation of the source, not a
sample.

The translation is a symbolic execution of the function body into a PURE term, built so that behaviour-preserving
rewrites of the source give the same (or a more uniform) term:

  * every local is substituted by its value (no `let` for temporaries: introducing, removing or renaming a
    temporary does not change the output; locals that are never read disappear); `x op= e` is `x = x op e`;
  * an `if` statement whose branches only assign becomes, per variable, `if c then a else b` (the same term as a
    conditional expression; a variable with the same value on both sides is not touched); an `if` with a `return`
    (or a loop) in a branch becomes `if c then <branch; rest> else <other branch; rest>`, so `if a: return x` +
    `return y`, `if a: return x else: return y` and `return x if a else y` coincide;
  * `for` loops (no break / continue / return inside) become `List.foldl` over the list or `List.range' lo (hi - lo)`.
    The fold state is the variables assigned in the body, in order of first assignment in the function; components
    that are neither read after the loop nor needed by a component that is (loop-local temporaries, dead stores)
    are pruned, and a loop variable is just the bound item (`_` when unused);
  * expressions are canonicalised: chains of an associative-commutative operator (`^ & | + *`) are flattened and
    their operands ordered (literals last, folded), operands of `==` are ordered, `a > b` is `b < a`, `a >= b` is `b <= a`, `!=` is `not ==`, `x is None` is `not (x is not None)`,
    Booleans are built from `<`, `==`, `and`, `not` only (`a <= b` is `not b < a`, `a or b` is `not (not a and not
    b)`: terms equal by De Morgan or the total order coincide; the printer writes `≤` and `||` again), comparisons
    with a literal k are `k < x` or its negation (`x >= 2`, `x > 1`, `not x < 2` are all `1 < x`), `if not c then a
    else b` is `if c then b else a`, nested `if`s that share a branch are one `if` of an `and`, operands of `and` /
    `max` / `min` are ordered, truthiness of `len(x)` / a list is `0 < len`, `x % 2` is `x & 1`, `(x & 1) == 1` is
    `(x & 1) != 0`, `a[0:n]` is `a[:n]`, literal arithmetic is folded, `True if c else False` is `c`.

Supported: int/bool/list/Optional[int] values, bytes/bytearray (as `List Nat`), Optional[bytes] (as
`Option (List Nat)`), Optional[bool], assignments (plain and augmented), if/else, for over range(...) or a list,
return, list.append, len/max/min, indexing and slicing (total: out-of-range index = 0 — the theorems state the
guards; `x[a:-k]` with a literal k), comparisons (`opt == int` is `opt == some int`, as `None == 3` is False),
and/or/not, conditional expressions, `is (not) None`, `cast(int | bytes | bool, x)`, `bool(x)`, `bytes(x)`, `bytearray()`, calls of other
translated functions, and `while True:` without break (the last statement of its block; see `Fn.do_while`).
Logging calls and docstrings are dropped.  A read of a local that may be unbound is rejected.  Anything else raises
Unsupported: the check then reports the function as untranslatable (an obligation that no longer checks).

Methods that CHANGE THEIR OBJECT (the state machine core of HdlcFrameReader) are translated as state-passing functions
(`Fn(record=, mutates=, ghosts=, effects=, pyret=, selfcalls=, objmethods=, constructors=, once=)`):
  * `self` is a record (`record`: a Lean structure and the parameter of that type) of the attributes the method may
    assign (`mutates`: bool / int / list / Optional object fields); attributes that are only read are `mapping`
    entries (the configuration).  The definition answers (new record, ghosts .., python's return value);
  * `self.x = e`, `self.x.append(v)`, `self.x.clear()` on such attributes are assignments to the field;
  * opaque objects (`register_object`): a configured constructor (`HdlcFrame()`), configured methods and properties
    (`objmethods`: `x.append(v)` changes x, `len(x)`, `x.header.header_check_sequence`, `x.is_expected_length`) are
    mapped to Lean functions on the object's model type - configured like `calls` / `callfns`, not translated here.
    A member of None uses `default` (python raises: the theorems state the guards).  A second name for a list or an
    object that may be changed in place is rejected (aliasing is not tracked);
  * `self.m(args)` for another translated method (`selfcalls`) - as a statement, as the whole right-hand side of an
    assignment, or as the returned value, never inside an expression - applies the GENERATED definition of m to the
    current record and continues with the record (and ghosts, and value) it answers;
  * a call whose effect lies outside the record (`effects`: `self._buffer.trim_buffer_to_flag_or_end()`) is a no-op on
    the record and is RECORDED in a Boolean ghost of the answer (false on entry; a callee's ghost is or-ed in);
    `self._buffer.pop()` is a parameter (`calls` + `once`: more than one use, or a use in a loop, is rejected);
  * `assert` is a no-op (its test is still translated, so that an unsupported expression is rejected);
  * an `if` that only assigns attributes / locals is joined attribute by attribute as before; an `if` that calls
    another method is translated path by path (`if c then <answer after A; rest> else <answer after B; rest>`);
  * `x[-k]` is `x[len(x) - k]`, `x[-k:]` is `x.drop (len(x) - k)` (exactly Python's clamping, in Nat), and an index
    into a suffix is an index into the list (`x[-1:][0]` and `x[-1]` are the same term).

LOOPS WITH EARLY EXITS, EXCEPTIONS, LISTS OF OBJECTS (AutoDecoder.decode_message_payload, SmartMeterBaseProtocol.data_received):
  * a `for` loop with `break` / `continue` / `return` in its body (or that an exception can leave) is the combinator
    `GenRt.forLoop list state (fun state item => body) (fun state => what follows)` of lean/Amshan/GenRuntime.lean: the body
    answers `Step.next state` (end of the body, `continue`), `Step.brk state` (`break`) or `Step.ret a` (the FUNCTION answers
    a); the state is the names the body assigns, as for folds, pruned to what is needed (a name that is only assigned on
    paths that leave the function is not part of it).  Loops nest; a loop without exits stays a fold;
  * `Fn(raises=True)`: the function answers `Except PyExc ..`.  What can raise, each a STATEMENT of its own:
    `a, b = TABLE[i]` for a configured constant table of tuples (`tables`: `match column[i]? with | some a => .. | none =>
    IndexError`; `len(TABLE)` is configured too; a target `_` is not bound, and `_` may not be read anywhere) and
    `v = f(x)` / `f(x)` / `return f(x)` for a local f that holds an OPAQUE CALLABLE (an object type with `objmethods:
    "__call__": (.., "raises:<type>")`: `match f x with | .ok v => .. | .error e => <raise e>`).  An exception that nothing
    catches makes the function answer `.error e` (through the enclosing loops: `Step.ret`).  `%` / `//` need a divisor that
    is known to be positive (a literal, the item count of an enclosing range loop): ZeroDivisionError is not modelled;
  * `try: A except <classes>: B` (one handler, no name / else / finally, one `try` per function): the clause is the
    configured predicate `catch` (a parameter PyExc -> Bool; the class list itself is data, pinned by extract.py).  Where A
    raises e the value is `if catch e then <B; what follows> else <raised further>`, in the environment of that place;
  * `x if x else 0` / `x or 0` on an Optional[int] are `x.getD 0` (None and 0 are false); the private attribute
    `self.__previous_success` is an attribute like any other (the AST keeps the unmangled name);
  * lists of opaque objects (`list:<tag>`), loops over them, `[]`, `append`, `clear()`; a method that changes its object AND
    answers a value (`objmethods: .. "mut:<type>"`, the lean function answers the pair): `v = x.m(..)` as a statement;
  * effects with an argument: a ghost `(name, list type)` is a LOG, `self.message_received(msg)` appends msg to it;
  * `for x in self.L:` whose body changes its items in place (`x.read(data)`) is `GenRt.forLoopMut`: an iteration also
    answers its item as it is now, and what follows gets the list with the visited items replaced.  Inside the body L is
    not available, except `self.L.clear()`: a flag of the state - Python's list iterator then finds the list empty, so the
    loop ends with this iteration, and L is `[]` afterwards.  `self.a = x` for the loop variable x (a second name for the
    object) is accepted as a MOVE only when `self.L.clear()` is the next statement and nothing changes x / self.a later
    in the iteration (see `is_move`); the items of a list are taken to be pairwise distinct objects.  `return` inside such
    a loop, re-binding L inside it, and `clear()` / `append` on the list a plain loop iterates over are rejected;
  * the truth value of an object needs `register_object(.., truthy=True)` (no `__bool__` / `__len__`: checked in `generate`
    for the reader classes): `if self._selected_reader:` is `is not None`.  An object with a configured `__len__` (and no
    `__bool__`: checked in `generate` for HdlcFrame) is true when its length is not 0 (`if not self._frame:` is `None or empty`).

BUFFER LEVEL (the `_ReaderBuffer` classes, HdlcFrameReader.read, ModeDReader.read; groups HdlcRead, P1Read):
  * `while <condition>:` and `while True:` with `break` / `continue` / `return`, followed by more statements: an auxiliary
    definition by recursion on fuel, `if c then <body; recursive call> else <what follows the loop>` (`continue`: the recursive
    call; `break`: what follows).  Its state: the names the body may assign, pruned to those that something reads (a
    temporary of one iteration is no state; a name the body does not assign keeps its value, a term over the parameters).
    Out of fuel it answers its argument `oof`; `Fn.fuel` is a stated measure of the state on entry, and the theorem is
    stated for every larger fuel and every `oof`.  (`loop_state="all"`: the older shape - all locals - of hdlcGetAddress.loop1.)
  * ints that may be negative (type tag `sint`, Lean `Int`): `-k`, `x.find(v)` / `x.find(v, start)` (`GenRt.find` /
    `findFrom`: -1 when absent), `+ - *` and all comparisons with them (on `Int`; with a literal: `s < k` or its negation),
    slices with such a bound (`GenRt.sliceFrom` / `slice`: Python's rule for negative bounds and clamping).  A signed value is
    used as a Nat only where it cannot be negative by construction (`find(..) + k`, k >= 1: `Int.toNat`); else rejected.
  * lists: `x.extend(y)`, `x += y`, `x + y`, `[a, b]`, `x += [a]` (is `x.append(a)`), `del x[:n]` (is `x = x[n:]`); annotated
    assignments (`x: list[C] = []` types the list); an Optional byte string is used as b"" where it is indexed / sliced;
  * an attribute that holds an object OF A TRANSLATED CLASS (`self._buffer`): `objmethods` maps its methods and properties to
    the GENERATED definitions of that class (`depends`: when one of them is untranslatable, so is the user);
  * `L.append(self.a)` (`cast` or not) for an Optional object attribute, in a function that changes objects in place, is a second
    reference: accepted as a MOVE when the next statement (calls of methods of other object attributes aside) re-binds self.a
    to a fresh object - directly or as the first thing a straight-line translated method does (see `append_is_move`); objects
    of a type without configured object-changing methods may be appended freely;
  * `if [not] self.m():` for a translated method is `t = self.m()`, `if [not] t:`; a pure property of `self` (`inline`:
    `self.is_in_hunt_mode`) is the one expression its body returns, in the current state;
  * `raisefns`: a class / function that may raise (`DataReadout(raw)`), as a statement `v = F(args)`: `match F args with ..`;
    `listmethods`: methods of byte strings mapped to lean functions (`isascii()`, `decode("ascii")`: total, the theorems
    show the guard).

HELPER METHODS THAT THE CONFIGURATION DOES NOT NAME, READ-ONLY LOCAL ALIASES (so that extracting statements into a method of the
same class, or naming an attribute in a local, raises no alarm; see the comment before `Fn.owner_class` and `Fn.resolve_aliases`):
  * `self.h(args)` / the property `self.p` for a method / property of the SAME class (found through the class object) that no entry
    of the configuration names is translated ON THE FLY at the place of the call, with the caller's configuration (the same record
    for `self`, the same object members; named integer constants are resolved in the helper's module / class): its body is run
    symbolically on the current state with its parameters bound to the arguments.  There is no generated definition for the
    helper: the caller's term is the term of the statements in line, and the equivalence proofs never see the helper.
    A helper that is a function of the environment (assignments, `if`s, guard clauses) is joined attribute by attribute, like an
    `if` that only assigns (inside expressions it is a value; a Boolean value is written with and / or / not); a helper that
    calls translated methods on some paths, or has a loop, is translated path by path (what follows the call is translated once
    per return path), like an `if` with a `return`; a call statement of a helper without any effect (logging, temporaries for
    logging) is a no-op.  Recursion, `return` inside a loop of a helper, an exception inside a helper, a list / object argument
    of a state-changing helper and in-place changes through a parameter are rejected (Unsupported, as an unknown call);
  * a local bound once, by `x = self.a` / `x = cast(C, self.a)` for a list / object attribute of the state, and read only in the
    statements that follow it in its block, none of which (up to the last read) can re-bind the attribute, is read as `self.a`
    itself.  Otherwise the rule above stays: a second name for a list / object that may be changed in place is rejected.

RENAMED PRIVATE ATTRIBUTES, AND MORE SPELLINGS OF THE SAME STATEMENTS (each is a rewriting of the parsed source before it is translated, or
a normalisation of the term; the comment at each function says why it keeps the meaning):
  * the private attributes that the configuration names (`self._buffer_pos`, `self.__previous_success`) are found by their ROLE in the
    `__init__` of their class - position and kind of the initial value, see `attr_renames` - so a consistent rename gives the same term;
    when `__init__` cannot be read that way the literal names are used;
  * `any(<test> for x in l [if c])` / `all(..)` over a list or a range (generator expression or list comprehension) is
    `l.any (fun x => test)` (`all` is written as its De Morgan dual);
  * `for <targets> in self.g():` for a generator method g of the same class of the shape `<assignments>; for x in coll: <statements>;
    yield <names>` is that loop with the caller's body in the place of the `yield` (`inline_generators`);
  * `S; while c: B; S` is `while True: S; if not c: break; B` (`rotate_loops`); a bare `return` in the last loop of a function that
    answers None is `break` (used where the loop changes its items: `do_for`);
  * `self.h(x.m(d))` with an object-changing method call as an argument is `t = x.m(d); self.h(t)` (`hoist_arguments`); a list that
    nothing changes in place may be given to a helper method that changes the state (`passable_list`);
  * a local that only logging reads, with a right-hand side free of effects, goes away with the logging (`drop_log_temporaries`); a
    column of a configured table that the function does not use may be unpacked into a name that nothing reads (as into `_`);
  * the truth value of an Optional byte string is `x is not None and len(x) > 0` (one term for both spellings)."""
from __future__ import annotations

import ast
import copy
import inspect
import re
import textwrap
from collections import namedtuple


class _Missing:
    def __init__(self, path):
        self.path = path

    def __getattr__(self, name):
        if name.startswith("__"):
            raise AttributeError(name)
        return _Missing(self.path + "." + name)


class _Safe:
    """getattr that yields a _Missing marker instead of raising; classes are wrapped again, functions are returned raw"""

    def __init__(self, obj, path):
        object.__setattr__(self, "_o", obj)
        object.__setattr__(self, "_p", path)

    def __getattr__(self, name):
        o = object.__getattribute__(self, "_o")
        p = object.__getattribute__(self, "_p") + "." + name
        try:
            v = inspect.getattr_static(o, name)
        except AttributeError:
            return _Missing(p)
        return _Safe(v, p) if inspect.isclass(v) else v


def unwrap_fn(x):
    """the plain function behind a property / functools.cached_property / staticmethod / classmethod"""
    if isinstance(x, _Missing):
        return x
    for attr in ("fget", "func", "__func__"):
        f = getattr(x, attr, None)
        if callable(f):
            return f
    return x


class Unsupported(Exception):
    pass


BINOPS = {ast.Add: "+", ast.Sub: "-", ast.Mult: "*", ast.FloorDiv: "/", ast.Mod: "%", ast.BitXor: "^^^",
          ast.BitAnd: "&&&", ast.BitOr: "|||", ast.LShift: "<<<", ast.RShift: ">>>"}
COMMUTATIVE = {"+", "*", "^^^", "&&&", "|||"}
PYOP = {"+": lambda a, b: a + b, "-": lambda a, b: a - b, "*": lambda a, b: a * b,
        "/": lambda a, b: a // b if b else -1, "%": lambda a, b: a % b if b else -1, "^^^": lambda a, b: a ^ b,
        "&&&": lambda a, b: a & b, "|||": lambda a, b: a | b, "<<<": lambda a, b: a << b if b < 4096 else -1,
        ">>>": lambda a, b: a >> b}

LEAN_TY = {"int": "Nat", "bool": "Bool", "list": "List Nat", "optint": "Option Nat", "optbool": "Option Bool",
           "optlist": "Option (List Nat)"}
OPT_BASE = {"optint": "int", "optbool": "bool", "optlist": "list"}
OPT_OF = {v: k for k, v in OPT_BASE.items()}
MAX_SIZE = 4000          # nodes of one translated function: `if`s with a return duplicate what follows them
OBJECTS = set()          # tags of opaque object types (register_object)
TRUTHY = set()           # ... whose instances are always true
LEAN_TY["list:list"] = "List (List Nat)"       # a list of byte strings (a recorded queue of payloads)
LEAN_TY["sint"] = "Int"                        # an int that may be negative (what `bytes.find` answers, `-1`)
LEAN_TY["text"] = "List Nat"                   # a str (its code points): only passed on to configured functions
BUILTIN_CALLS = {"len", "cast", "bool", "bytes", "bytearray", "max", "min", "range", "isinstance", "str", "int", "any", "all", "list"}


class _NeedExit(Exception):
    """raised while a loop is tried as a fold: the body leaves the loop early (return / an exception)"""

# ---------------------------------------------------------------- the term language
# ("lit", n) ("true",) ("false",) ("none",) ("nil",) ("var", id) ("const", lean text)
# ("bin", op, a, b) ("not", a) ("and", [..]) ("eq", a, b) ("lt", a, b) ("ite", c, a, b)
# ("app", head text, [args]) ("len", l) ("getD", l, i) ("take", l, n) ("drop", l, n) ("append1", l, x)
# ("some", a) ("isSome", a) ("ogetD", a, default) ("tuple", [..]) ("range", lo, count)
# ("rec", lean structure name, [(field, a) ..]) ("proj", a, "field" | "2.1")
# ("nilof", list type) ("getq", l, i)  l[i]?   ("call", f, [args])  a callable value applied   ("ok", a) ("error", e)
# ("cat", l, m)  l ++ m
# ("anyl", item id, item type, name hint, body, l)   l.any (fun item => body): `any(<body> for item in l)`; `all(..)` is its De Morgan dual
# ("again", head text, [state ..])   statement position: the recursive call of the auxiliary definition of a `while` loop
# signed integers (type tag "sint", Lean Int): ("ilit", k) ("ofnat", a) ("ibin", op, a, b) ("ilt", a, b) ("ieq", a, b)
# ("tonat", a)  a signed term that is known to be >= 0 (nonneg_sint), as a Nat
# statement positions only:
# ("yield", [..])   the new state of the enclosing fold
# ("letfold", out ids, in ids, item id, types, body, inits, coll, rest)
# ("letloop", out ids, in ids, item id, types, body, inits, coll, rest, list id | None)   a loop with early exits
# ("next", [..], item | None) ("brk", [..], item | None)   an iteration of the enclosing letloop ends / `break`
# ("retn", a)   the function answers a (through the enclosing letloop)
# ("mopt", scrutinee, id, some branch, none branch)  ("mexc", scrutinee, ok id, ok branch, error id, error branch)
TRUE, FALSE, NONE, NIL = ("true",), ("false",), ("none",), ("nil",)
DEFAULT_IR = {"int": ("lit", 0), "bool": FALSE, "list": NIL, "optint": NONE, "optbool": NONE, "optlist": NONE,
              "list:list": ("nilof", "list:list"), "sint": ("ilit", 0)}

V = namedtuple("V", "ir type unbound")      # value of a python name: term, type tag, "may be unbound here"


def register_object(tag, lean_type, truthy=False):
    """An opaque object type: its values are only built, changed and observed through configured constructors and
    methods (`Fn.constructors`, `Fn.objmethods`), which are mapped to Lean functions on `lean_type` - they are not
    translated here.  `opt<tag>` is the Optional of it, `list:<tag>` a Python list of such objects.  Where Python
    would raise on None (a method of None) the translation is total and uses `default` (the theorems state the
    guards).  truthy: instances are always true (the class has neither `__bool__` nor `__len__`), so `if x:` on an
    Optional object is `x is not None`; without it the truth value of an object is not translated."""
    paren = f"({lean_type})" if " " in lean_type else lean_type
    LEAN_TY[tag] = lean_type
    LEAN_TY["opt" + tag] = f"Option {paren}"
    LEAN_TY["list:" + tag] = f"List {paren}"
    OPT_BASE["opt" + tag] = tag
    OPT_OF[tag] = "opt" + tag
    DEFAULT_IR[tag] = ("const", f"(default : {lean_type})")
    DEFAULT_IR["opt" + tag] = NONE
    DEFAULT_IR["list:" + tag] = ("nilof", "list:" + tag)
    OBJECTS.add(tag)
    TRUTHY.discard(tag)
    if truthy:
        TRUTHY.add(tag)


def elem_type(t):
    """type tag of the items of a list type (None: not a list)"""
    if t == "list":
        return "int"
    if isinstance(t, str) and t.startswith("list:"):
        return t[5:]
    return None


def nil_of(t):
    return NIL if t == "list" else ("nilof", t)


def lit(n):
    return ("lit", n)


def ckey(e):
    """rename-invariant order of operands: literals last, then by the canonical text (binders print as #id)"""
    return (1 if e[0] in ("lit", "ilit") else 0, show(e, None))


def one_bit(e):
    """is the value of e 0 or 1?"""
    return e[0] == "bin" and e[1] == "&&&" and lit(1) in (e[2], e[3])


def mk_bin(op, a, b):
    if a[0] == "lit" and b[0] == "lit":
        r = PYOP[op](a[1], b[1])
        if r >= 0:
            return lit(r)
    if op == "%" and b == lit(2):              # x % 2  is  x & 1 (python: also for a negative x)
        return mk_bin("&&&", a, lit(1))
    if op == "-" and b[0] != "lit":            # (x + y) - y  is  x (the number of items of `range(y, x + y)`)
        parts, x = [], a
        while x[0] == "bin" and x[1] == "+":
            parts.append(x[3])
            x = x[2]
        parts.append(x)
        if len(parts) > 1 and b in parts:
            parts.remove(b)
            res = parts[-1]
            for y in reversed(parts[:-1]):
                res = mk_bin("+", res, y)
            return res
    if op in COMMUTATIVE:                      # associative too: one left-nested chain, ordered, literals folded
        parts = []
        for x in (a, b):
            while x[0] == "bin" and x[1] == op:
                parts.append(x[3])
                x = x[2]
            parts.append(x)
        lits = [x for x in parts if x[0] == "lit"]
        parts = sorted((x for x in parts if x[0] != "lit"), key=ckey)
        if lits:
            k = lits[0][1]
            for x in lits[1:]:
                k = PYOP[op](k, x[1])
            parts.append(lit(k))
        res = parts[0]
        for x in parts[1:]:
            res = ("bin", op, res, x)
        return res
    return ("bin", op, a, b)


# Booleans are built from `<`, `==`, `and` and `not` only (`a <= b` is `not b < a`, `a or b` is `not (not a and not b)`;
# the printer writes `≤` and `||` again), so terms that are equal by De Morgan or by the total order coincide.
# Comparisons with a literal k are  k < x  or  not (k < x):  x > k, x >= k+1, not x <= k, not x < k+1.
def mk_lt(a, b):
    if a[0] == "lit" and b[0] == "lit":
        return TRUE if a[1] < b[1] else FALSE
    if b[0] == "lit" and b[1] >= 1 and a[0] != "lit":          # x < k  is  not (k-1 < x)
        return ("not", ("lt", lit(b[1] - 1), a))
    return ("lt", a, b)


def mk_le(a, b):
    return mk_not(mk_lt(b, a))                 # integers are totally ordered


def mk_not(a):
    if a == TRUE:
        return FALSE
    if a == FALSE:
        return TRUE
    if a[0] == "not":
        return a[1]
    if a[0] == "lt" and a[2][0] == "lit" and a[2][1] == 0:     # not (x < 0): kept as it is (x is not below 0 - 1)
        return ("not", a)
    if a[0] == "lt" and a[1][0] != "lit" and a[2][0] == "lit":
        return mk_lt(lit(a[2][1] - 1), a[1])   # unreachable: mk_lt never builds x < k for k >= 1
    return ("not", a)


def mk_eq(a, b):
    if a[0] == "lit" and b[0] == "lit":
        return TRUE if a[1] == b[1] else FALSE
    if ckey(b) < ckey(a):
        a, b = b, a
    if a[0] == "len" and b == lit(0):          # a length is never negative
        return ("not", ("lt", lit(0), a))
    if one_bit(a) and b == lit(1):             # a bit is 1 when it is not 0
        return ("not", ("eq", a, lit(0)))
    return ("eq", a, b)


def mk_and(parts):
    """all terms are total and pure, so the operands can be ordered"""
    flat = []
    for p in parts:
        for q in (p[1] if p[0] == "and" else [p]):
            if q != TRUE and q not in flat:
                flat.append(q)
    if FALSE in flat or any(("not", q) in flat for q in flat):
        return FALSE
    if not flat:
        return TRUE
    return flat[0] if len(flat) == 1 else ("and", sorted(flat, key=ckey))


def mk_or(parts):
    return mk_not(mk_and([mk_not(p) for p in parts]))


def mk_junction(tag, parts):
    return mk_and(parts) if tag == "and" else mk_or(parts)


def mk_ite(c, a, b):
    if c == TRUE:
        return a
    if c == FALSE:
        return b
    if a == b:
        return a
    if c[0] == "not":
        return mk_ite(c[1], b, a)
    if a == TRUE and b == FALSE:
        return c
    if a == FALSE and b == TRUE:
        return mk_not(c)
    # nested `if`s that share a branch are one `if`
    if a[0] == "ite" and a[3] == b:            # if c: (if d: x else: y) else: y   is   if c and d: x else: y
        return mk_ite(mk_and([c, a[1]]), a[2], b)
    if a[0] == "ite" and a[2] == b:            # if c: (if d: y else: x) else: y   is   if c and not d: x else: y
        return mk_ite(mk_and([c, mk_not(a[1])]), a[3], b)
    if b[0] == "ite" and b[2] == a:            # if c: x else: (if d: x else: y)   is   if c or d: x else: y
        return mk_ite(mk_or([c, b[1]]), a, b[3])
    if b[0] == "ite" and b[3] == a:            # if c: x else: (if d: y else: x)   is   if c or not d: x else: y
        return mk_ite(mk_or([c, mk_not(b[1])]), a, b[2])
    if c[0] == "eq" and ((a == c[2] and b == c[1]) or (a == c[1] and b == c[2])):
        return b                               # if x == k: k else: x   is   x
    if c[0] == "isSome" and a == ("ogetD", c[1], b):
        return a                               # if x is not None: x else: d   (as a value with default d)   is   x.getD d
    return ("ite", c, a, b)


def bool_term(e):
    """a Boolean term without `if` at its root: `if c then a else false` is `c and a`, and so on (the value of a helper with guard
    clauses - `if not c: return False` .. `return a` - is the term of the condition `c and a` that it stands for)"""
    if e[0] != "ite":
        return e
    c, a, b = e[1], bool_term(e[2]), bool_term(e[3])
    if b == FALSE:
        return mk_and([c, a])
    if a == FALSE:
        return mk_and([mk_not(c), b])
    if a == TRUE:
        return mk_or([c, b])
    if b == TRUE:
        return mk_or([mk_not(c), a])
    return mk_ite(c, a, b)


def mk_is_some(a):
    if a == NONE:
        return FALSE
    if a[0] == "some":
        return TRUE
    return ("isSome", a)


def mk_oget(a, d):
    if a == NONE:
        return d
    if a[0] == "some":
        return a[1]
    if a[0] == "ite" and (a[2] == NONE or a[3] == NONE or "some" in (a[2][0], a[3][0])):
        return mk_ite(a[1], mk_oget(a[2], d), mk_oget(a[3], d))       # the default goes into the branches (one of them is known)
    return ("ogetD", a, d)


def mk_drop(l, n):
    return l if n == lit(0) else ("drop", l, n)


def mk_get(l, i):
    """l[i] (0 when out of range); an index into a suffix is an index into the list: x[n:][i] is x[n + i]"""
    if l[0] == "drop":
        return mk_get(l[1], l[2] if i == lit(0) else mk_bin("+", l[2], i))
    return ("getD", l, i)


def mk_cat(a, b):
    """a ++ b; `l ++ [x]` is the term of `l.append(x)`"""
    if b in (NIL,) or b[0] == "nilof":
        return a
    if a in (NIL,) or a[0] == "nilof":
        return b
    if b[0] == "append1":
        return ("append1", mk_cat(a, b[1]), b[2])
    return ("cat", a, b)


# Signed integers (Lean Int): the value of `x.find(..)` (-1: not found), `-k`, and arithmetic / comparisons with them.
# Comparisons with a literal k are  s < k  or its negation (`s > k` is `not s < k+1`, `s >= k` is `not s < k`).
def mk_ofnat(a):
    return ("ilit", a[1]) if a[0] == "lit" else ("ofnat", a)


def mk_ibin(op, a, b):
    if a[0] == "ilit" and b[0] == "ilit":
        return ("ilit", {"+": a[1] + b[1], "-": a[1] - b[1], "*": a[1] * b[1]}[op])
    if op in ("+", "*") and ckey(b) < ckey(a):
        a, b = b, a
    return ("ibin", op, a, b)


def mk_ilt(a, b):
    if a[0] == "ilit" and b[0] == "ilit":
        return TRUE if a[1] < b[1] else FALSE
    if a[0] == "ilit":                         # k < s  is  not (s < k+1)
        return ("not", ("ilt", b, ("ilit", a[1] + 1)))
    return ("ilt", a, b)


def mk_ieq(a, b):
    if a[0] == "ilit" and b[0] == "ilit":
        return TRUE if a[1] == b[1] else FALSE
    if ckey(b) < ckey(a) or a[0] == "ilit":
        a, b = b, a
    return ("ieq", a, b)


def nonneg_sint(e):
    """is the signed term known to be >= 0?  A literal >= 0, a Nat, and `x.find(..) + k` for a literal k >= 1 (find answers
    -1 at least: GenRt.find_ge / findFrom_ge), sums and products of such terms."""
    if e[0] == "ilit":
        return e[1] >= 0
    if e[0] == "ofnat":
        return True
    if e[0] == "ibin" and e[1] == "+":
        a, b = e[2], e[3]
        for x, y in ((a, b), (b, a)):
            if x[0] == "app" and x[1] in ("Amshan.GenRt.find", "Amshan.GenRt.findFrom") and y[0] == "ilit" and y[1] >= 1:
                return True
        return nonneg_sint(a) and nonneg_sint(b)
    if e[0] == "ibin" and e[1] == "*":
        return nonneg_sint(e[2]) and nonneg_sint(e[3])
    if e[0] == "ite":
        return nonneg_sint(e[2]) and nonneg_sint(e[3])
    return False


def tuple_path(j, n):
    """component j of a right-nested n-tuple, as a projection path: "1", "2.1", "2.2" for n = 3"""
    return ".".join(["2"] * j + (["1"] if j < n - 1 else []))


def mk_proj(a, path):
    """a field of a record / a component (tuple_path) of a right-nested tuple"""
    if a[0] == "rec" and path in dict(a[2]):
        return dict(a[2])[path]
    if a[0] == "tuple" and len(a[1]) > 1:
        for j in range(len(a[1])):
            if tuple_path(j, len(a[1])) == path:
                return a[1][j]
    return ("proj", a, path)


def mk_rec(name, fields):
    """a record; `{ a := x.a, b := x.b }` with all the fields of one x is x"""
    if all(v[0] == "proj" and v[2] == f for f, v in fields) and len({show(v[1], None) for _, v in fields}) == 1:
        return fields[0][1][1]
    return ("rec", name, list(fields))


def children(e):
    t = e[0]
    if t in ("lit", "true", "false", "none", "nil", "var", "const", "ilit"):
        return []
    if t in ("bin", "ibin"):
        return [e[2], e[3]]
    if t in ("and", "tuple", "yield"):
        return list(e[1])
    if t in ("app", "again"):
        return list(e[2])
    if t == "letfold":
        return [e[5]] + list(e[6]) + [e[7], e[8]]
    if t == "letloop":
        return [e[5]] + list(e[6]) + [e[7], e[8]]
    if t in ("next", "brk"):
        return list(e[1]) + ([e[2]] if e[2] is not None else [])
    if t == "mopt":
        return [e[1], e[3], e[4]]
    if t == "mexc":
        return [e[1], e[3], e[5]]
    if t == "call":
        return [e[1]] + list(e[2])
    if t == "nilof":
        return []
    if t == "rec":
        return [v for _, v in e[2]]
    if t == "proj":
        return [e[1]]
    if t == "anyl":
        return [e[4], e[5]]
    return list(e[1:])


def size(e):
    return 1 + sum(size(c) for c in children(e))


def uses(e, acc=None):
    """ids of the variables that occur in e"""
    acc = set() if acc is None else acc
    if e[0] == "var":
        acc.add(e[1])
    for c in children(e):
        uses(c, acc)
    return acc


def atomic(s):
    """is the text s one token or one parenthesised group?"""
    if re.fullmatch(r"[\w.#']+", s):
        return True
    if not (s.startswith("(") and s.endswith(")")):
        return False
    depth = 0
    for i, ch in enumerate(s):
        depth += ch == "("
        depth -= ch == ")"
        if depth == 0 and i < len(s) - 1:
            return False
    return True


def show(e, names):
    """one-line Lean text of an expression; names = None prints binders as #id (the canonical text)"""
    def a(x):
        s = show(x, names)
        return s if atomic(s) else "(" + s + ")"

    t = e[0]
    if t == "lit":
        return str(e[1])
    if t in ("true", "false", "none"):
        return t
    if t == "nil":
        return "([] : List Nat)"
    if t == "nilof":
        return f"([] : {LEAN_TY[e[1]]})"
    if t == "getq":
        return f"({a(e[1])}[{show(e[2], names)}]?)"
    if t == "call":
        return "(" + " ".join([a(e[1])] + [a(x) for x in e[2]]) + ")"
    if t == "ok":
        return f"(Except.ok {a(e[1])})"
    if t == "error":
        return f"(Except.error {a(e[1])})"
    if t in ("next", "brk"):
        st = "()" if not e[1] else show(("tuple", list(e[1])), names)
        step = f"(Amshan.GenRt.Step.{t} {st if atomic(st) else '(' + st + ')'})"
        return step if e[2] is None else f"({show(e[2], names)}, {step})"
    if t == "retn":
        return f"(Amshan.GenRt.Step.ret {a(e[1])})"
    if t in ("mopt", "mexc", "letloop") and names is None:         # only for the canonical text
        return f"({t} " + " ".join(show(c, names) for c in children(e)) + ")"
    if t == "var":
        return f"#{e[1]}" if names is None else names[e[1]]
    if t == "const":
        return e[1]
    if t == "bin":
        return f"({a(e[2])} {e[1]} {a(e[3])})"
    if t == "ilit":
        return f"({e[1]} : Int)"
    if t == "ofnat":
        return f"(Int.ofNat {a(e[1])})"
    if t == "tonat":
        return f"(Int.toNat {a(e[1])})"
    if t == "ibin":
        return f"({a(e[2])} {e[1]} {a(e[3])})"
    if t == "ilt":
        return f"decide ({a(e[1])} < {a(e[2])})"
    if t == "ieq":
        return f"({a(e[1])} == {a(e[2])})"
    if t == "cat":
        return f"({a(e[1])} ++ {a(e[2])})"
    if t == "not":
        if names is not None and e[1][0] in ("lt", "ilt"):         # written with ≤
            return f"decide ({a(e[1][2])} ≤ {a(e[1][1])})"
        if names is not None and e[1][0] == "and" and 2 * sum(x[0] == "not" for x in e[1][1]) >= len(e[1][1]):
            return "(" + " || ".join(a(mk_not(x)) for x in e[1][1]) + ")"       # written with ||
        return f"(!{a(e[1])})"
    if t == "and":
        return "(" + " && ".join(a(x) for x in e[1]) + ")"
    if t == "eq":
        return f"({a(e[1])} == {a(e[2])})"
    if t == "lt":
        return f"decide ({a(e[1])} < {a(e[2])})"
    if t == "ite":
        return f"(if {show(e[1], names)} then {show(e[2], names)} else {show(e[3], names)})"
    if t in ("app", "again"):
        return "(" + " ".join([e[1]] + [a(x) for x in e[2]]) + ")"
    if t == "len":
        return f"{a(e[1])}.length"
    if t == "getD":
        return f"({a(e[1])}.getD {a(e[2])} 0)"
    if t == "take":
        return f"({a(e[1])}.take {a(e[2])})"
    if t == "drop":
        return f"({a(e[1])}.drop {a(e[2])})"
    if t == "append1":
        return f"({a(e[1])} ++ [{show(e[2], names)}])"
    if t == "some":
        return f"(some {a(e[1])})"
    if t == "isSome":
        return f"{a(e[1])}.isSome"
    if t == "ogetD":
        return f"({a(e[1])}.getD {a(e[2])})"
    if t in ("tuple", "yield"):
        return a(e[1][0]) if len(e[1]) == 1 else "(" + ", ".join(show(x, names) for x in e[1]) + ")"
    if t == "range":
        return f"(List.range' {a(e[1])} {a(e[2])})"
    if t == "rec":
        return "{ " + ", ".join(f"{f} := {show(v, names)}" for f, v in e[2]) + f" : {e[1]} }}"
    if t == "proj":
        return f"{a(e[1])}.{e[2]}"
    if t == "anyl":
        if names is None:
            return f"(any #{e[1]} {show(e[4], names)} {show(e[5], names)})"
        return f"({a(e[5])}.any (fun ({names[e[1]]} : {LEAN_TY[e[2]]}) => {show(e[4], names)}))"
    if t == "letfold":                         # only for the canonical text
        return "(fold " + " ".join(show(c, names) for c in children(e)) + ")"
    raise Unsupported(f"internal: cannot print {t}")


def dotted(node):
    if isinstance(node, ast.Name):
        return node.id
    if isinstance(node, ast.Attribute):
        b = dotted(node.value)
        return None if b is None else b + "." + node.attr
    return None


# ---------------------------------------------------------------- private attributes by ROLE
# The configuration names the private attributes of a class (`self._buffer_pos`, `self.__previous_success`).  So that a consistent
# RENAME of such an attribute raises no alarm, the names are resolved through the `__init__` of the class: INIT_ROLES holds, per class,
# the attributes that `__init__` assigns (in order) as the configuration knows them, each with the KIND of its initial value
# (init_kind: `bytearray()`, a literal, None, a constructor call, a parameter).  `attr_renames` reads the `__init__` of the class as it
# is NOW and pairs the attributes up:
#   0. an attribute that still has its configured name is itself (so reordering the statements of `__init__` renames nothing);
#   1. the configured attributes that are gone and the attributes that are new, when they are equally many with the same kinds in the
#      same order: by position ("the 2nd attribute, an int that starts at 0");
#   2. else, those whose kind is unique on both sides (`HdlcFrame`: THE bytearray, THE FastFrameCheckSequence16) by their kind;
#      an attribute that cannot be paired keeps its literal name.
# Only private names are ever paired with a different name (a public attribute must keep its name).  The pairing is then applied to
# the SOURCE: in every function of that class that is translated (configured functions, helpers, inlined properties) `self.<current>`
# is read as `self.<configured>` (`configured_names`), so the rest of the translator sees the names of the configuration.  This is a
# consistent renaming of attributes of one class (injective; rejected when a configured name is in use for something else in the
# class: a method, a class constant, another attribute), so the translated term is the term of the renamed source - a wrong pairing
# cannot hide a change, it can only make the equivalence proof fail.  When the `__init__` cannot be read this way (an attribute
# assigned twice or under an `if`, other kinds, no pairing) nothing is renamed: the literal names are used, as before.
# The AST keeps a name-mangled attribute unmangled (`self.__x`), so mangled names need no care here.
INIT_ROLES = {}
_RENAMES = {}


def class_of(fobj):
    """the class that defines the (unwrapped) function, found through its qualified name; None for a plain function"""
    f = unwrap_fn(fobj)
    f = inspect.unwrap(f) if callable(f) else f
    glob = getattr(f, "__globals__", None)
    qn = getattr(f, "__qualname__", "").split(".")
    if not glob or len(qn) < 2 or "<locals>" in qn:
        return None
    owner = glob.get(qn[0])
    for part in qn[1:-1]:
        try:
            owner = inspect.getattr_static(owner, part)
        except AttributeError:
            return None
    return owner if inspect.isclass(owner) else None


def init_kind(v, params):
    """the kind of the initial value of an attribute (an expression of `__init__`)"""
    if isinstance(v, ast.Constant):
        if isinstance(v.value, bool):
            return f"bool:{v.value}"
        if isinstance(v.value, int):
            return f"int:{v.value}"
        if v.value is None:
            return "none"
        return "other"
    if isinstance(v, ast.Call) and dotted(v.func) in ("bytearray", "bytes") and not v.args and not v.keywords:
        return "bytes"
    if isinstance(v, ast.List) and not v.elts:
        return "list"
    if isinstance(v, ast.Call) and dotted(v.func) is not None:
        return "call:" + dotted(v.func)
    if isinstance(v, ast.Name) and v.id in params:
        return f"param:{params.index(v.id)}"
    return "other"


def init_signature(cls):
    """[(attribute, kind) ..] of the statements `self.<attribute> [: T] = <value>` of the body of `cls.__init__`, in order; None when
    the class has no `__init__` of its own, or when an attribute of self is assigned in any other way (twice, under an `if`, in a
    loop, by a tuple / augmented assignment)"""
    init = cls.__dict__.get("__init__")
    if not inspect.isfunction(init):
        return None
    try:
        fn = ast.parse(textwrap.dedent(inspect.getsource(init))).body[0]
    except (OSError, TypeError, SyntaxError, IndexError):
        return None
    if not isinstance(fn, ast.FunctionDef) or not fn.args.args or fn.args.args[0].arg != "self":
        return None
    params = [a.arg for a in fn.args.args]
    sig, plain = [], set()
    for st in fn.body:
        tg = st.targets[0] if isinstance(st, ast.Assign) and len(st.targets) == 1 else st.target if isinstance(st, ast.AnnAssign) and st.value is not None else None
        if isinstance(tg, ast.Attribute) and isinstance(tg.value, ast.Name) and tg.value.id == "self":
            sig.append((tg.attr, init_kind(st.value, params)))
            plain.add(id(tg))
    for x in ast.walk(fn):
        if (isinstance(x, ast.Attribute) and isinstance(x.ctx, (ast.Store, ast.Del)) and isinstance(x.value, ast.Name) and x.value.id == "self"
                and id(x) not in plain):
            return None
    if len({a for a, _ in sig}) != len(sig):
        return None
    return sig


def attr_renames(cls):
    """{current attribute name: configured attribute name} for the private attributes of cls that were renamed (see above)"""
    if cls is None:
        return {}
    if cls in _RENAMES:
        return _RENAMES[cls]
    _RENAMES[cls] = {}
    want = INIT_ROLES.get((getattr(cls, "__module__", ""), getattr(cls, "__qualname__", "")))
    have = init_signature(cls) if want else None
    if not want or not have:
        return {}
    # an attribute that still has its configured name is itself (reordering `__init__` renames nothing); the others are paired up
    now = {h for h, _ in have}
    known = {w for w, _ in want}
    want = [(w, k) for w, k in want if w not in now]
    have = [(h, k) for h, k in have if h not in known]
    pairs = []
    if [k for _, k in want] == [k for _, k in have]:
        pairs = [(h, w) for (w, _), (h, _) in zip(want, have)]
    else:
        wk, hk = [k for _, k in want], [k for _, k in have]
        for w, k in want:
            if k != "other" and wk.count(k) == 1 and hk.count(k) == 1:
                pairs.append((have[hk.index(k)][0], w))
    ren = {h: w for h, w in pairs if h != w}
    if not ren:
        return {}
    ok = all(h.startswith("_") and w.startswith("_") for h, w in ren.items()) and len(set(ren.values())) == len(ren)
    # a configured name that comes into use must be free in the class: no method / constant of that name (in the class or its
    # bases), no attribute access of that name anywhere in the class body (unless that name is itself renamed away)
    try:
        body = ast.parse(textwrap.dedent(inspect.getsource(cls)))
    except (OSError, TypeError, SyntaxError):
        ok = False
    if ok:
        used = {x.attr for x in ast.walk(body) if isinstance(x, ast.Attribute)} | {x.id for x in ast.walk(body) if isinstance(x, ast.Name)}
        for h, w in ren.items():
            mangled = "_" + cls.__name__.lstrip("_") + w if w.startswith("__") and not w.endswith("__") else w
            try:
                inspect.getattr_static(cls, mangled)
                ok = False
            except AttributeError:
                pass
            if w in used and w not in ren:
                ok = False
    if ok:
        _RENAMES[cls] = ren
    return _RENAMES[cls]


def configured_names(fobj, tree):
    """the parsed source of a function of a class, with `self.<current name>` read as `self.<configured name>` (attr_renames)"""
    ren = attr_renames(class_of(fobj))
    if ren:
        for x in ast.walk(tree):
            if isinstance(x, ast.Attribute) and isinstance(x.value, ast.Name) and x.value.id == "self" and x.attr in ren:
                x.attr = ren[x.attr]
    return tree


def parse_function(fobj):
    """the ast.FunctionDef of a function object (a property / static method is unwrapped), in the names of the configuration"""
    f = unwrap_fn(fobj)
    return configured_names(f, ast.parse(textwrap.dedent(inspect.getsource(f)))).body[0]


def unify(ta, tb):
    """the type that holds a value of type ta or tb (None: not known yet)"""
    if ta is None or ta == tb:
        return tb
    if tb is None:
        return ta
    for x, y in ((ta, tb), (tb, ta)):
        if x == "list" and elem_type(y) is not None:      # the literal `[]` (coerce rejects any other List Nat)
            return y
        if x == "none":
            return y if y in OPT_BASE else OPT_OF.get(y) or _unsup(f"no optional of {y}")
        if x in OPT_BASE and OPT_BASE[x] == y:
            return x
    raise Unsupported(f"a variable holds a {ta} and a {tb}")


def _unsup(msg):
    raise Unsupported(msg)


def proj_path(j, n):
    """component j of a right-nested n-tuple"""
    return ".2" * j + (".1" if j < n - 1 else "")


Cx = namedtuple("Cx", "levels brk cont handler")
# a method / property of the class of the translated function that the configuration does not name (see Fn.helper):
# kind "method" | "static" | "class" | "property"; fn: its ast.FunctionDef; params: its python parameters (without self / cls)
Helper = namedtuple("Helper", "name kind fn params obj")
PURE_BUILTINS = {"len", "cast", "bool", "bytes", "bytearray", "max", "min", "isinstance", "str", "int", "any", "all", "list", "repr", "hex",
                 "abs", "sum", "tuple", "sorted", "format", "ord", "chr", "round", "float", "type", "id", "range", "enumerate", "zip"}
PURE_METHODS = {"hex", "decode", "isascii", "find", "format", "join", "upper", "lower", "strip", "startswith", "endswith", "count", "index",
                "get", "keys", "values", "items", "copy", "isdigit", "encode", "rjust", "ljust", "zfill"}


class Fn:
    """one Python function -> one Lean definition"""

    def __init__(self, name, obj, params, ret, mapping=None, mutates=None, calls=None, callfns=None, fuel=None,
                 record=None, pyret=None, ghosts=None, effects=None, selfcalls=None, objmethods=None, constructors=None,
                 once=None, tparams="", raises=False, catch=None, tables=None, depends=None, inline=None,
                 raisefns=None, listmethods=None, loop_state=None):
        self.name = name                  # Lean name
        self.obj = obj                    # Python function object
        self.params = params              # [(lean name, lean type)]
        self.ret = ret                    # 'Nat' | 'Bool' | 'List Nat' | 'Option Nat' | 'Option Bool'
        self.mapping = mapping or {}      # python dotted name -> (lean expr, type); a bare name is a python parameter
        # python dotted attribute -> (lean name of the final value, type); a bare name means int. The value on entry
        # is the parameter <lean name>0; all final values are returned
        self.mutates = {k: ((v, "int") if isinstance(v, str) else v) for k, v in (mutates or {}).items()}
        self.calls = calls or {}          # python dotted callee/property -> (lean expr, type)
        self.callfns = callfns or {}      # python dotted callee with arguments -> (lean function (partially applied), [argument types], result type)
        self.fuel = fuel                  # lean expression: number of iterations granted to a `while True:` loop
        # --- methods that change the state of their object (state passing) ---
        # record = (lean structure, lean parameter): the mutated attributes are the fields (the lean names of
        # `mutates`) of ONE parameter of that structure type, and the final state is answered as such a record.
        # The answer of a function with `mutates` / `ghosts` is the tuple (state, ghosts .., python's return value):
        # the state is the record, or - without `record` - the final values of the mutated attributes.
        self.record = record
        self.pyret = pyret                # type of what the python function returns (None: it returns None)
        # ghosts: Boolean flags, false on entry; effects: python dotted callee (a statement `f()`) -> ghost that it
        # sets.  A call whose effect lies outside the translated state (the reader's input buffer is trimmed) is a
        # no-op on the state, and RECORDED: the flag is part of the answer.
        # a ghost (name, list type) is a LOG instead of a flag: an effect `f(x)` appends its argument (`[]` on entry)
        self.ghost_types = {(g if isinstance(g, str) else g[0]): ("bool" if isinstance(g, str) else g[1]) for g in (ghosts or [])}
        self.ghosts = list(self.ghost_types)
        self.effects = effects or {}
        self.tparams = tparams            # lean binders before the parameters (`{α β : Type}`)
        # raises: the function may raise: its answer is `Except PyExc <what it answers otherwise>` (`ret` is that whole
        # type).  What can raise: a lookup in a configured table (IndexError) and the call of an opaque callable
        # (objmethods: "__call__" with the result type "raises:<type>").  Arithmetic and list indexing stay total.
        self.raises = raises
        # catch: the lean predicate (a parameter: PyExc -> Bool) that stands for THE `except <classes>:` clause of the
        # function (one `try` at most): an exception e is caught iff `catch e`.  The class list itself is data
        # (extract.py: caughtPayload / caughtMessage).
        self.catch = catch
        # tables: python dotted name of a constant list of tuples -> {"len": lean expr, "cols": [(lean list, item type) | None ..]}
        self.tables = tables or {}
        self.selfcalls = selfcalls or {}  # python dotted callee -> Fn of another translated method of the same object
        # type tag of an object -> {python method / property path: (lean function, [argument types], result type)};
        # result type "mut": the method changes its object (a statement `x.m(..)` is `x = lean x ..`); "__len__" is len(x);
        # lean function "const:<lean expr>": a constant of the class, read through the object
        self.objmethods = objmethods or {}
        self.constructors = constructors or {}   # python dotted class, called without arguments -> (lean expr, type)
        self.once = set(once or ())       # python dotted callees (`calls`) that may occur once only, outside loops
        # other translated functions whose GENERATED definitions the configuration names (`objmethods` of an object whose
        # class is translated too): when one of them is untranslatable, so is this function
        self.depends = list(depends or ())
        # python dotted name of a pure property of the object (`self.is_in_hunt_mode`) -> its function: a read of it is the
        # value of the ONE `return <expression>` its body consists of, in the current state
        self.inline = inline or {}
        # raisefns: python name of a class / function that may raise (`DataReadout(raw)`) -> (lean function answering
        # `Except PyExc <type>`, [argument types], result type); used as a STATEMENT `v = F(args)` / `F(args)` / `return F(args)`
        self.raisefns = raisefns or {}
        # listmethods: method of a byte string (`x.isascii()`, `x.decode("ascii")`) -> (lean function, [argument types or a
        # quoted string literal that the argument must be], result type); total, like indexing (the theorems state the guards)
        self.listmethods = listmethods or {}
        # loop_state="all": the auxiliary definition of a `while True:` loop without `break` gets ALL locals as its state
        # (the shape of the first translated loop, hdlcGetAddress.loop1, which a theorem statement names)
        self.loop_state_all = loop_state == "all"
        self.failed = False               # its translation raised: callers are untranslatable too
        self.aux = []                     # auxiliary definitions (loops): (head lines, state ids, body term)
        self.hints = {}                   # binder id -> name hint
        self.tuples = {}                  # binder id of a component -> (binder id of the tuple, j, n)
        self.in_while = False
        self.order = []                   # python locals in order of first assignment
        # the control context of the statement being translated: levels - the enclosing `for` loops, innermost last
        # ("fold" | "exit" | "mut"); brk / cont - what `break` / `continue` mean here (functions of the environment);
        # handler - the enclosing `try` (the context of the try statement, function of exception term and environment)
        self.cx = Cx((), None, None, None)
        self.positive = []                # terms known to be > 0 here (the item counts of the enclosing range loops)
        self.readonly_items = []          # variables of the enclosing loops that do not write their items back
        self.detached = {}                # list attribute that is being iterated by a loop that changes its items -> loop variable
        self.mutloops = []                # ... those loops: (loop variable, list attribute, ast.For)
        # --- helper methods of the same class that the configuration does not name (see `helper`): translated on the fly, at the
        # call site, with this function's configuration
        self.helper_cache = {}            # python dotted name -> Helper | None
        self.memo = {}                    # (analysis, helper name) -> bool
        self.retk = None                  # inside a helper: what its `return` means (function of environment, term, type, value node)
        self.in_helper = False
        self.end_k = None                 # the continuation "the function ends here" of the function being translated
        self.frozen = set()               # parameters of the helper that hold a list / an object of the caller: not changed in place
        self.scope = None                 # the python function whose module / class resolves named constants (None: self.obj)
        self.inlining = []                # names of the helpers being translated (recursion is rejected)
        self.assigning = []               # ... being analysed by `assigned`

    # ---------------------------------------------------------------- binders
    def new_id(self, hint):
        i = len(self.hints) + 1
        self.hints[i] = hint
        return i

    def lname(self, py):
        if py in self.mutates:
            return self.mutates[py][0]
        py = re.sub(r"^\$g\d+_", "", py.split(".")[-1]).lstrip("$")
        return py.replace("_", "v_", 1) if py.startswith("_") else py

    # ---------------------------------------------------------------- conversions
    def to_int(self, e, t):
        if t == "int":
            return e
        if t == "optint":                 # total: None is used as 0 (the theorems state the guards)
            return mk_oget(e, lit(0))
        if t == "bool":
            return mk_ite(e, lit(1), lit(0))
        if t == "sint" and nonneg_sint(e):    # a signed value that cannot be negative (`x.find(v) + 1`)
            return e[1] if e[0] == "ofnat" else lit(e[1]) if e[0] == "ilit" else ("tonat", e)
        raise Unsupported(f"cannot use {t} as int")

    def to_bool(self, e, t):
        if t == "bool":
            return e
        if t == "int":
            return mk_not(mk_eq(e, lit(0)))
        if t == "optint":                 # truthiness: None and 0 are false
            return mk_not(mk_eq(mk_oget(e, lit(0)), lit(0)))
        if t == "optbool":
            return mk_oget(e, FALSE)
        if t == "list":
            return mk_lt(lit(0), ("len", e))
        if t == "optlist":                # (`x is not None and len(x) > 0` is the same term)
            return mk_and([mk_is_some(e), mk_lt(lit(0), ("len", mk_oget(e, NIL)))])
        if t == "none":
            return FALSE
        if elem_type(t) is not None:      # a list of objects
            return mk_lt(lit(0), ("len", e))
        if t in TRUTHY:                   # an object whose class defines neither __bool__ nor __len__
            return TRUE
        if t in OPT_BASE and OPT_BASE[t] in TRUTHY:
            return mk_is_some(e)
        base = OPT_BASE.get(t, t)
        m = self.objmethods.get(base, {}).get("__len__") if base in OBJECTS else None
        if m is not None and not m[1] and m[2] == "int" and "__bool__" not in self.objmethods.get(base, {}):
            # an object with a configured __len__ (and no __bool__): true when its length is not 0; None is false
            nonempty = mk_lt(lit(0), ("app", m[0], [self.convert(e, t, base)]))
            return nonempty if t == base else mk_and([mk_is_some(e), nonempty])
        raise Unsupported(f"cannot use {t} as bool")

    def to_sint(self, e, t):
        """a Python int as a Lean Int"""
        if t == "sint":
            return e
        return mk_ofnat(self.to_int(e, t))

    def to_list(self, e, t):
        if t == "list":
            return e
        if t == "optlist":                # total: None is used as b"" (the theorems state the guards)
            return mk_oget(e, NIL)
        raise Unsupported(f"cannot use {t} as bytes/list")

    def coerce(self, e, te, want):
        """value of type `te` stored in / returned as a `want`: the same type, or an Optional of it (python
        values keep their type: an int stored where the other values are bools is rejected, not converted)"""
        if te == want or want is None or te is None:
            return e
        if e == NIL and te == "list" and elem_type(want) is not None:      # the literal `[]`
            return nil_of(want)
        if te == "sint" and want == "int" and nonneg_sint(e):
            return self.to_int(e, te)
        if want in OPT_BASE and te == "none":
            return NONE
        if want in OPT_BASE and te == OPT_BASE[want]:
            return ("some", e)
        raise Unsupported(f"cannot use {te} as {want}")

    def convert(self, e, te, want):
        """argument of a translated function: python converts nothing either, but None is passed as the default
        (the theorems state the guards)"""
        if te in OPT_BASE and want == OPT_BASE[te]:
            return mk_oget(e, DEFAULT_IR[want])
        return self.coerce(e, te, want)

    def int_constant(self, d):
        """value of `NAME`, `self.NAME`, `cls.NAME` or `ClassName.NAME` when that is a plain non-negative int constant of the
        function's module / class (a literal that was given a name); None otherwise"""
        f = unwrap_fn(self.scope if self.scope is not None else self.obj)
        f = inspect.unwrap(f) if callable(f) else f
        glob = getattr(f, "__globals__", None)
        if not glob:
            return None
        parts = d.split(".")
        v = None
        if len(parts) == 1:
            v = glob.get(parts[0])
        elif len(parts) == 2:
            if parts[0] in ("self", "cls"):
                qn = getattr(f, "__qualname__", "").split(".")
                owner = glob.get(qn[0]) if len(qn) >= 2 else None
            else:
                owner = glob.get(parts[0])
            if inspect.isclass(owner):
                try:
                    v = inspect.getattr_static(owner, parts[1])
                except AttributeError:
                    v = None
        if isinstance(v, int) and not isinstance(v, bool) and v >= 0:
            return int(v)
        return None

    # ---------------------------------------------------------------- expressions
    def truth(self, n, env):
        """a python expression in a boolean context"""
        if isinstance(n, ast.BoolOp):
            return mk_junction("and" if isinstance(n.op, ast.And) else "or", [self.truth(v, env) for v in n.values])
        if isinstance(n, ast.UnaryOp) and isinstance(n.op, ast.Not):
            return mk_not(self.truth(n.operand, env))
        return self.to_bool(*self.expr(n, env))

    def compare(self, op, a, ta, b, tb):
        if isinstance(op, (ast.Is, ast.IsNot)):
            if tb != "none":
                raise Unsupported("is / is not with a non-None operand")
            if ta not in OPT_BASE and ta != "none":
                raise Unsupported(f"is / is not None of a {ta}")
            return mk_is_some(a) if isinstance(op, ast.IsNot) else mk_not(mk_is_some(a))
        if isinstance(op, (ast.Eq, ast.NotEq)):
            r = None
            if ta == tb and ta in ("bool", "list", "optint", "optbool", "optlist"):
                r = mk_eq(a, b)
            elif ta in OPT_BASE and tb == OPT_BASE[ta]:          # `None == 3` is False
                r = mk_eq(a, ("some", b))
            elif tb in OPT_BASE and ta == OPT_BASE[tb]:
                r = mk_eq(("some", a), b)
            elif ta in OPT_BASE or tb in OPT_BASE or ta in ("list", "none") or tb in ("list", "none"):
                raise Unsupported(f"== between {ta} and {tb}")
            elif "sint" in (ta, tb):
                r = mk_ieq(self.to_sint(a, ta), self.to_sint(b, tb))
            else:
                r = mk_eq(self.to_int(a, ta), self.to_int(b, tb))
            return r if isinstance(op, ast.Eq) else mk_not(r)
        if "sint" in (ta, tb):                 # signed comparison (Lean Int)
            x, y = self.to_sint(a, ta), self.to_sint(b, tb)
            if isinstance(op, ast.Lt):
                return mk_ilt(x, y)
            if isinstance(op, ast.LtE):
                return mk_not(mk_ilt(y, x))
            if isinstance(op, ast.Gt):
                return mk_ilt(y, x)
            if isinstance(op, ast.GtE):
                return mk_not(mk_ilt(x, y))
            raise Unsupported(f"comparison {type(op).__name__}")
        x, y = self.to_int(a, ta), self.to_int(b, tb)
        if isinstance(op, ast.Lt):
            return mk_lt(x, y)
        if isinstance(op, ast.LtE):
            return mk_le(x, y)
        if isinstance(op, ast.Gt):
            return mk_lt(y, x)
        if isinstance(op, ast.GtE):
            return mk_le(y, x)
        raise Unsupported(f"comparison {type(op).__name__}")

    def expr(self, n, env):
        """(term, type tag) of a python expression"""
        if isinstance(n, ast.Constant):
            if isinstance(n.value, bool):
                return (TRUE if n.value else FALSE), "bool"
            if isinstance(n.value, int):
                if n.value < 0:
                    raise Unsupported("negative literal")
                return lit(n.value), "int"
            if n.value is None:
                return NONE, "none"
            raise Unsupported(f"constant {n.value!r}")
        d = dotted(n)
        if d is not None:
            if d in self.detached:
                raise Unsupported(f"{d} is read inside the loop that iterates over it and changes its items")
            if d in env:
                if env[d].unbound:
                    raise Unsupported(f"local {d} may be unbound where it is read")
                return env[d].ir, env[d].type
            if d in self.mapping and ("." in d or not self.in_helper):      # (a parameter of the caller is no name of a helper)
                return ("const", self.mapping[d][0]), self.mapping[d][1]
            if d in self.calls:
                return ("const", self.calls[d][0]), self.calls[d][1]
            if d in self.inline:
                return self.expr(self.inline_body(d), env)
            om = self.object_member(d, env)
            if om is not None:                                     # a property of an object
                recv, (lean, argts, rt) = om
                if argts or rt.startswith(("mut", "raises:")):
                    raise Unsupported(f"method {d} used as a value")
                if lean.startswith("const:"):                      # a constant of its class, read through the object
                    return ("const", lean[len("const:"):]), rt
                return ("app", lean, [recv]), rt
            k = self.int_constant(d)
            if k is not None:                                      # a named integer constant of the class or module
                return lit(k), "int"
            h = self.helper(d)
            if h is not None and h.kind == "property":             # a property of the class that the configuration does not name
                return self.helper_value(h, None, env)
            raise Unsupported(f"unknown name {d}")
        if isinstance(n, ast.BinOp):
            if type(n.op) not in BINOPS:
                raise Unsupported(f"operator {type(n.op).__name__}")
            if isinstance(n.op, ast.Mult) and isinstance(n.left, ast.List) and not n.left.elts:       # `[] * 256`
                self.to_int(*self.expr(n.right, env))
                return NIL, "list"
            a, ta = self.expr(n.left, env)
            b, tb = self.expr(n.right, env)
            if isinstance(n.op, ast.Add) and elem_type(ta) is not None and elem_type(tb) is not None:      # l + m
                t = unify(ta, tb)
                return mk_cat(self.coerce(a, ta, t), self.coerce(b, tb, t)), t
            if "sint" in (ta, tb):
                if not isinstance(n.op, (ast.Add, ast.Sub, ast.Mult)):
                    raise Unsupported(f"operator {type(n.op).__name__} on an int that may be negative")
                return mk_ibin(BINOPS[type(n.op)], self.to_sint(a, ta), self.to_sint(b, tb)), "sint"
            if self.raises and isinstance(n.op, (ast.Mod, ast.FloorDiv)):
                # ZeroDivisionError is not modelled: where exceptions matter, the divisor must be known to be positive -
                # a literal, or the number of items of an enclosing `for .. in range(..)` loop (whose body runs only then)
                d = self.to_int(b, tb)
                if not ((d[0] == "lit" and d[1] > 0) or d in self.positive):
                    raise Unsupported("division by a value that may be 0 in a function that can raise")
            return mk_bin(BINOPS[type(n.op)], self.to_int(a, ta), self.to_int(b, tb)), "int"
        if isinstance(n, ast.UnaryOp) and isinstance(n.op, ast.Not):
            return self.truth(n, env), "bool"
        if self.neg_literal(n) is not None:                        # `-k`: a signed int
            return ("ilit", -self.neg_literal(n)), "sint"
        if isinstance(n, ast.BoolOp):
            # `a and b` is one of its operands: a Bool only when all of them are
            if any(self.expr(v, env)[1] != "bool" for v in n.values):
                if len(n.values) == 2:         # `a or b` is `a if a else b`, `a and b` is `b if a else a` (a is pure)
                    x, y = n.values
                    return self.expr(ast.IfExp(test=x, body=x, orelse=y) if isinstance(n.op, ast.Or) else ast.IfExp(test=x, body=y, orelse=x), env)
                raise Unsupported("and / or of non-bool operands used as a value")
            return self.truth(n, env), "bool"
        if isinstance(n, ast.Compare):
            left = n.left
            parts = []
            for op, right in zip(n.ops, n.comparators):
                parts.append(self.compare(op, *self.expr(left, env), *self.expr(right, env)))
                left = right
            return mk_junction("and", parts), "bool"
        if isinstance(n, ast.IfExp):
            c = self.truth(n.test, env)
            a, ta = self.expr(n.body, env)
            b, tb = self.expr(n.orelse, env)
            t = unify(ta, tb) if "none" in (ta, tb) or ta in OPT_BASE or tb in OPT_BASE or ta == tb else "int"
            return mk_ite(c, self.coerce(a, ta, t), self.coerce(b, tb, t)), t
        if isinstance(n, ast.Call):
            f = dotted(n.func)
            if n.keywords and self.helper_call(n) is None:
                raise Unsupported(f"keyword arguments in call {f}")
            if f == "len" and len(n.args) == 1 and dotted(n.args[0]) in self.tables and dotted(n.args[0]) not in env:
                return ("const", "(" + self.tables[dotted(n.args[0])]["len"] + ")"), "int"
            if f == "len" and len(n.args) == 1:
                a, ta = self.expr(n.args[0], env)
                if elem_type(ta) is not None and ta != "list":
                    return ("len", a), "int"
                base = OPT_BASE.get(ta, ta)
                if base in OBJECTS:                                # len(object) is its __len__
                    m = self.objmethods.get(base, {}).get("__len__")
                    if m is None or m[1] or m[2] != "int":
                        raise Unsupported(f"len() of a {ta}")
                    return ("app", m[0], [self.convert(a, ta, base)]), "int"
                return ("len", self.to_list(a, ta)), "int"
            if f == "cast" and len(n.args) == 2 and dotted(n.args[0]) in ("int", "bytes", "bytearray", "bool"):
                # typing.cast is the identity; the translation is total: None is used as the default of the type
                a, ta = self.expr(n.args[1], env)
                want = {"int": "int", "bool": "bool"}.get(dotted(n.args[0]), "list")
                return self.convert(a, ta, want), want
            if f == "cast" and len(n.args) == 2 and dotted(n.args[0]) in self.constructors:
                # typing.cast to the class of an opaque object: the identity (None is used as the default object)
                a, ta = self.expr(n.args[1], env)
                want = self.constructors[dotted(n.args[0])][1]
                return self.convert(a, ta, want), want
            if f == "bool" and len(n.args) == 1:
                return self.truth(n.args[0], env), "bool"
            if f in ("bytes", "bytearray") and not n.args:
                return NIL, "list"
            if f in ("bytes", "bytearray") and len(n.args) == 1:                       # copy of a byte string
                a, ta = self.expr(n.args[0], env)
                if ta == "optlist":                                # total: None is used as b"" (python raises TypeError)
                    a, ta = self.to_list(a, ta), "list"
                if ta != "list":
                    raise Unsupported(f"{f}() of a {ta}")
                return a, "list"
            if f in self.callfns:
                lean, argts, rt = self.callfns[f]
                if len(argts) != len(n.args):
                    raise Unsupported(f"call {f}: {len(n.args)} arguments, {len(argts)} expected")
                args = [self.convert(*self.expr(x, env), want) for x, want in zip(n.args, argts)]
                return (("app", lean, args) if args else ("const", "(" + lean + ")")), rt
            if isinstance(n.func, ast.Attribute) and n.func.attr in self.listmethods and self.object_holder(f or "", env) is None:
                lean, argts, rt = self.listmethods[n.func.attr]
                l, tl = self.expr(n.func.value, env)
                l = self.to_list(l, tl)
                if len(argts) != len(n.args):
                    raise Unsupported(f"call {n.func.attr}: {len(n.args)} arguments, {len(argts)} expected")
                args = []
                for x, want in zip(n.args, argts):
                    if want.startswith("'"):                       # the argument must be this string literal (`decode("ascii")`)
                        if not (isinstance(x, ast.Constant) and x.value == want.strip("'")):
                            raise Unsupported(f"call {n.func.attr}: the argument must be {want}")
                    else:
                        args.append(self.convert(*self.expr(x, env), want))
                return ("app", lean, [l] + args), rt
            if isinstance(n.func, ast.Attribute) and n.func.attr == "find" and 1 <= len(n.args) <= 2 and self.object_holder(f or "", env) is None:
                # bytes.find(octet[, start]): the position of the first such octet (from start on), -1 when there is none
                l, tl = self.expr(n.func.value, env)
                if tl != "list":
                    raise Unsupported(f"find() of a {tl}")
                v, tv = self.expr(n.args[0], env)
                if tv != "int":
                    raise Unsupported(f"find() of a {tv} in a byte string")
                if len(n.args) == 1:
                    return ("app", "Amshan.GenRt.find", [l, v]), "sint"
                st, tst = self.expr(n.args[1], env)
                if tst != "int":
                    raise Unsupported(f"find() from a {tst}")
                return ("app", "Amshan.GenRt.findFrom", [l, v, st]), "sint"
            if f in ("any", "all") and len(n.args) == 1 and isinstance(n.args[0], (ast.GeneratorExp, ast.ListComp)) and f not in env:
                # any(<test> for x in l [if c]) / all(..): `l.any (fun x => test)`; all is `not any(not test)`.  The tests have no
                # effects (a call that changes something is rejected inside an expression), so the short-circuit cannot be seen
                g = n.args[0]
                if len(g.generators) != 1 or g.generators[0].is_async or not isinstance(g.generators[0].target, ast.Name):
                    raise Unsupported(f"{f}() over more than one `for` / a tuple target")
                gen = g.generators[0]
                x = gen.target.id
                if x == "self" or x in self.mutates or x in self.detached:
                    raise Unsupported(f"{f}(): the variable {x}")
                coll, ity = self.loop_coll(gen, env)
                item = self.new_id(self.lname(x))
                benv = dict(env)
                benv[x] = V(("var", item), ity, False)
                self.readonly_items.append(x)
                try:
                    conds = [self.truth(c, benv) for c in gen.ifs]
                    test = self.truth(g.elt, benv)
                finally:
                    self.readonly_items.pop()
                if f == "any":
                    return ("anyl", item, ity, self.lname(x), mk_and(conds + [test]), coll), "bool"
                return mk_not(("anyl", item, ity, self.lname(x), mk_and(conds + [mk_not(test)]), coll)), "bool"
            if f in ("max", "min") and len(n.args) == 2:
                a, ta = self.expr(n.args[0], env)
                b, tb = self.expr(n.args[1], env)
                return ("app", f, sorted([self.to_int(a, ta), self.to_int(b, tb)], key=ckey)), "int"
            if f in self.calls and not n.args:
                return ("const", self.calls[f][0]), self.calls[f][1]
            if f in self.constructors and not n.args:
                return ("const", self.constructors[f][0]), self.constructors[f][1]
            if f in self.selfcalls or f in self.effects:
                # only as a statement, as the whole right-hand side of an assignment, or as the returned value
                raise Unsupported(f"call of the state-changing method {f} inside an expression")
            om = self.object_member(f, env) if f else None
            if om is not None:                                     # a method of an object that answers a value
                recv, (lean, argts, rt) = om
                if rt.startswith(("mut", "raises:")) or lean.startswith("const:"):
                    raise Unsupported(f"call of the object-changing / raising method / of the constant {f} inside an expression")
                if len(argts) != len(n.args):
                    raise Unsupported(f"call {f}: {len(n.args)} arguments, {len(argts)} expected")
                return ("app", lean, [recv] + [self.convert(*self.expr(x, env), want) for x, want in zip(n.args, argts)]), rt
            h = self.helper_call(n)
            if h is not None:                                      # a method of the class that the configuration does not name
                return self.helper_value(h, n, env)
            raise Unsupported(f"call {f}")
        if isinstance(n, ast.Subscript):
            a, ta = self.expr(n.value, env)
            if ta == "optlist":                                    # total: None is used as b"" (the theorems state the guards)
                a, ta = self.to_list(a, ta), "list"
            if ta != "list":
                raise Unsupported("subscript of a non-list")
            if isinstance(n.slice, ast.Slice):
                if n.slice.step is not None:
                    raise Unsupported("slice step")
                k = self.neg_literal(n.slice.lower)
                if k is not None:
                    # x[-k:] starts at max(len(x) - k, 0): exactly the truncated subtraction of Nat
                    if n.slice.upper is not None:
                        raise Unsupported("slice with a negative start and an end")
                    return mk_drop(a, ("bin", "-", ("len", a), lit(k))), "list"
                lo_t = self.expr(n.slice.lower, env) if n.slice.lower else (lit(0), "int")
                up_t = self.expr(n.slice.upper, env) if n.slice.upper is not None and self.neg_literal(n.slice.upper) is None else None
                if lo_t[1] == "sint" or (up_t is not None and up_t[1] == "sint"):
                    # a bound that may be negative: Python's slice (a negative bound counts from the end, all bounds are clamped)
                    if n.slice.upper is None:
                        return ("app", "Amshan.GenRt.sliceFrom", [a, self.to_sint(*lo_t)]), "list"
                    if up_t is None:
                        raise Unsupported("slice with a signed start and a negative literal end")
                    return ("app", "Amshan.GenRt.slice", [a, self.to_sint(*lo_t), self.to_sint(*up_t)]), "list"
                lo = self.to_int(*lo_t)
                if n.slice.upper is None:
                    return mk_drop(a, lo), "list"
                up = n.slice.upper
                if (isinstance(up, ast.UnaryOp) and isinstance(up.op, ast.USub) and isinstance(up.operand, ast.Constant)
                        and type(up.operand.value) is int and up.operand.value > 0):
                    # x[lo:-k] ends at max(len(x) - k, 0): exactly the truncated subtraction of Nat
                    return mk_drop(("take", a, ("bin", "-", ("len", a), lit(up.operand.value))), lo), "list"
                hi = self.to_int(*self.expr(n.slice.upper, env))
                return mk_drop(("take", a, hi), lo), "list"
            k = self.neg_literal(n.slice)
            if k is not None:
                # x[-k] is x[len(x) - k] when k <= len(x); python raises otherwise, the translation is total (the
                # truncated subtraction of Nat; the theorems state the guards, as for every index)
                return mk_get(a, ("bin", "-", ("len", a), lit(k))), "int"
            i = self.to_int(*self.expr(n.slice, env))
            return mk_get(a, i), "int"
        if isinstance(n, ast.List) and not n.elts:
            return NIL, "list"
        if isinstance(n, ast.List):                                # [a, b]: ints, or objects of one type
            items = [self.expr(x, env) for x in n.elts]
            if any(isinstance(x, ast.Starred) for x in n.elts):
                raise Unsupported("starred list item")
            if all(t in ("int",) for _, t in items):
                res = NIL
                for v, _ in items:
                    res = ("append1", res, v)
                return res, "list"
            bases = {OPT_BASE.get(t, t) for _, t in items}
            if len(bases) == 1 and next(iter(bases)) in OBJECTS and all(t in OBJECTS for _, t in items):
                if self.inplace:
                    raise Unsupported("a list of objects is built in a function that changes objects in place")
                tag = "list:" + next(iter(bases))
                res = nil_of(tag)
                for v, _ in items:
                    res = ("append1", res, v)
                return res, tag
            raise Unsupported("list literal of mixed / unsupported items")
        raise Unsupported(f"expression {type(n).__name__}")

    def inline_body(self, d):
        """the expression that the pure property `d` returns (its body: a docstring, logging, and one `return <expression>`)"""
        obj = self.inline[d]
        if isinstance(obj, _Missing):
            raise Unsupported(f"{obj.path} does not exist in the source")
        try:
            fn = parse_function(obj)
        except (OSError, TypeError, SyntaxError) as ex:
            raise Unsupported(f"the source of {d} cannot be read: {ex}")
        body = [x for x in fn.body if not self.skipped(x)]
        if not (isinstance(fn, ast.FunctionDef) and [a.arg for a in fn.args.args] == ["self"] and len(body) == 1
                and isinstance(body[0], ast.Return) and body[0].value is not None):
            raise Unsupported(f"the property {d} is not one return statement")
        if any(isinstance(x, ast.Call) and (dotted(x.func) in self.selfcalls or dotted(x.func) in self.effects) for x in ast.walk(body[0])):
            raise Unsupported(f"the property {d} calls a state-changing method")
        if any(isinstance(x, (ast.Attribute, ast.Name)) and dotted(x) == d for x in ast.walk(body[0])):
            raise Unsupported(f"the property {d} reads itself")
        return body[0].value

    # ---------------------------------------------------------------- helper methods that the configuration does not name
    # `self.<name>(args)` / `self.<name>` for a method / property of the SAME class (found through the class object) that no entry
    # of the configuration names is translated ON THE FLY, at the place of the call, with this function's configuration (the same
    # record for `self`, the same object members): the helper's body is executed symbolically in an environment that holds the
    # current state and its parameters, so extracting statements into a helper method (or putting them back) does not change the
    # term.  Three ways, chosen by the shape of the helper (the shapes mirror how the same statements are translated in line):
    #   * a helper that is a function of the environment (assignments, `if`s, guard clauses with `return`: `joinable`) is JOINED:
    #     the environments (and values) of its return paths are joined attribute by attribute, as for an `if` that only assigns;
    #     the statement is `simple`.  A helper without effects is a value inside expressions (a property too);
    #   * any other helper (it calls translated methods on some paths only, it has loops) is translated path by path: what follows
    #     the call is translated once per return path (`inline_cps`), as for an `if` with a `return` / a call in a branch;
    #   * a call statement of a helper that has no effect at all (logging, temporaries for logging: `effect_free`) is a no-op.
    # Rejected (Unsupported, as an unknown call was before): recursion, `return` inside a loop of the helper, an exception inside
    # a helper, a list / object argument of a helper that changes the state (a second name), in-place changes through a parameter.
    def owner_class(self):
        f = unwrap_fn(self.obj)
        f = inspect.unwrap(f) if callable(f) else f
        glob = getattr(f, "__globals__", None)
        qn = getattr(f, "__qualname__", "").split(".")
        if not glob or len(qn) < 2 or "<locals>" in qn:
            return None
        owner = glob.get(qn[0])
        for part in qn[1:-1]:
            try:
                owner = inspect.getattr_static(owner, part)
            except AttributeError:
                return None
        return owner if inspect.isclass(owner) else None

    def configured(self, d):
        return any(d in m for m in (self.mapping, self.calls, self.callfns, self.selfcalls, self.effects, self.inline, self.mutates,
                                    self.constructors, self.tables, self.raisefns))

    def helper(self, d):
        """the Helper behind the dotted name d = `self.<name>` (`cls.<name>`, `<ClassName>.<name>`), when the configuration does not
        name it and the class of the translated function has a plain method / static method / class method / property <name>;
        else None"""
        if not d or d in self.helper_cache:
            return self.helper_cache.get(d) if d else None
        self.helper_cache[d] = None
        parts = d.split(".")
        if len(parts) != 2 or self.configured(d):
            return None
        cls = self.owner_class()
        if cls is None or not (parts[0] in ("self", "cls") or parts[0] == cls.__name__):
            return None
        try:
            raw = inspect.getattr_static(cls, parts[1])
        except AttributeError:
            return None
        if isinstance(raw, staticmethod):
            kind = "static"
        elif isinstance(raw, classmethod):
            kind = "class"
        elif isinstance(raw, property) or type(raw).__name__ == "cached_property":
            kind = "property"
        elif inspect.isfunction(raw):
            kind = "method"
        else:
            return None
        if parts[0] not in ("self", "cls") and kind in ("method", "property"):
            return None
        f = unwrap_fn(raw)
        try:
            fn = parse_function(f)
        except (OSError, TypeError, SyntaxError, IndexError):
            return None
        if not isinstance(fn, ast.FunctionDef) or fn.args.vararg or fn.args.kwarg or fn.args.kwonlyargs or fn.args.defaults or fn.args.posonlyargs:
            return None
        params = [a.arg for a in fn.args.args]
        if kind != "static":
            if not params:
                return None
            if params[0] != "self" and kind != "class":
                return None            # the body names the object otherwise than the configuration does
            params = params[1:]
        if any(isinstance(x, (ast.Yield, ast.YieldFrom, ast.Await, ast.Global, ast.Nonlocal, ast.FunctionDef, ast.Lambda, ast.ClassDef))
               for st in fn.body for x in ast.walk(st)):
            return None
        self.drop_log_temporaries(fn)
        self.rotate_loops(fn)
        h = Helper(parts[1], kind, fn, params, f)
        self.helper_cache[d] = h
        self.resolve_aliases(fn)
        return h

    def helper_call(self, call):
        """the Helper that the call node calls (a method, not a property), else None"""
        if not isinstance(call, ast.Call):
            return None
        h = self.helper(dotted(call.func))
        return h if h is not None and h.kind != "property" else None

    @staticmethod
    def top_names(fn):
        """the maximal dotted names and the calls of a function, in source order: [(dotted name, is it called)]"""
        res = []

        def visit(x, inner):
            if isinstance(x, ast.Call):
                d = dotted(x.func)
                if d is not None:
                    res.append((d, True))
                    for c in x.args + [k.value for k in x.keywords]:
                        visit(c, False)
                    return
            if isinstance(x, (ast.Attribute, ast.Name)) and not inner:
                d = dotted(x)
                if d is not None:
                    res.append((d, False))
                    return
            for c in ast.iter_child_nodes(x):
                visit(c, False)
        for st in fn.body:
            visit(st, False)
        return res

    def called_helpers(self, fn):
        """the helpers that the function uses (calls, or reads as a property), directly"""
        res = []
        for d, called in self.top_names(fn):
            h = self.helper(d)
            if h is not None and (called or h.kind == "property") and h not in res:
                res.append(h)
        return res

    def collect_helpers(self, fn):
        """... directly or through other helpers"""
        res, todo = [], [fn]
        while todo:
            for h in self.called_helpers(todo.pop()):
                if h not in res:
                    res.append(h)
                    todo.append(h.fn)
        return res

    def analysis(self, key, h, compute):
        """memoised analysis of a helper; a helper that is being analysed answers `True` (recursion is rejected where the helper
        is translated: see helper_env)"""
        k = (key, h.name)
        if k not in self.memo:
            self.memo[k] = True
            self.memo[k] = compute()
        return self.memo[k]

    def changes_state(self, h):
        """may the helper change the state of the object (syntactically: it assigns an attribute / an item, it changes a list / an
        object reached through self in place, it calls a translated state-changing method, a recorded effect, or such a helper)?"""
        def compute():
            muts = {m for ms in self.objmethods.values() for m, sig in ms.items() if sig[2].startswith("mut")} | {"append", "clear", "extend"}
            for x in ast.walk(h.fn):
                if isinstance(x, (ast.Assign, ast.AugAssign, ast.AnnAssign, ast.Delete)):
                    tg = x.targets if isinstance(x, (ast.Assign, ast.Delete)) else [x.target]
                    for t in tg:
                        for el in (t.elts if isinstance(t, ast.Tuple) else [t]):
                            if not isinstance(el, ast.Name):
                                return True
                if isinstance(x, ast.Call):
                    f = dotted(x.func) or ""
                    if f in self.selfcalls or f in self.effects:
                        return True
                    recv, _, m = f.rpartition(".")
                    if m in muts and (recv == "self" or recv.startswith("self.")):
                        return True
                    g = self.helper_call(x)
                    if g is not None and self.changes_state(g):
                        return True
            return False
        return self.analysis("changes", h, compute)

    def effect_free(self, h):
        """has a call of the helper no effect at all (its value aside)?  No state change, and no call other than logging, pure
        builtins, pure methods of values, configured pure functions / members, and helpers of this kind."""
        def compute():
            if self.changes_state(h):
                return False
            logged = {id(y) for x in ast.walk(h.fn) if isinstance(x, ast.Call) and (dotted(x.func) or "").startswith("_LOGGER.") for y in ast.walk(x)}
            for x in ast.walk(h.fn):
                if isinstance(x, (ast.For, ast.While, ast.Try, ast.With, ast.Raise, ast.Import, ast.ImportFrom)):
                    return False
                if not isinstance(x, ast.Call) or id(x) in logged:
                    continue
                f = dotted(x.func)
                if f is None:
                    return False
                if f in PURE_BUILTINS or f in self.callfns or f in self.calls or f in self.constructors:
                    continue
                g = self.helper_call(x)
                if g is not None:
                    if self.effect_free(g):
                        continue
                    return False
                m = f.rpartition(".")[2]
                if "." in f and (m in PURE_METHODS or m in self.listmethods
                                 or any(m in ms and not ms[m][2].startswith(("mut", "raises:")) for ms in self.objmethods.values())):
                    continue
                return False
            return True
        return self.analysis("free", h, compute)

    def joinable(self, h):
        """is the helper a function of the environment: assignments, in-place changes of lists / objects, `assert`, `if`s and
        `return`s (guard clauses) only - no loops, nothing that can raise, no helper inside that is not of this kind; and, when it
        calls translated methods, no `if` (an `if` with such a call is translated path by path: see `simple`)"""
        def compute():
            calls = ifs = False
            for x in ast.walk(h.fn):
                if isinstance(x, ast.Call):
                    f = dotted(x.func) or ""
                    calls = calls or f in self.selfcalls
                    g = self.helper_call(x)
                    if g is not None and not self.joinable(g):
                        return False
                    if g is not None:
                        calls = calls or self.uses_selfcalls(g)
                        ifs = ifs or any(isinstance(y, (ast.If, ast.IfExp)) for y in ast.walk(g.fn))
                ifs = ifs or isinstance(x, ast.If)

            def ok(body):
                for st in body:
                    if self.skipped(st) or isinstance(st, ast.Assert):
                        continue
                    if self.raise_site(st) is not None:
                        return False
                    if isinstance(st, ast.Return):
                        continue
                    if isinstance(st, ast.If):
                        if ok(st.body) and ok(st.orelse):
                            continue
                        return False
                    if isinstance(st, (ast.Assign, ast.AugAssign)) or (isinstance(st, ast.AnnAssign) and st.value is not None and st.simple):
                        continue
                    if self.del_prefix(st) is not None:
                        continue
                    if isinstance(st, ast.Expr) and isinstance(st.value, ast.Call) and (self.stmt_call(st) is not None or self.helper_call(st.value) is not None):
                        continue
                    return False
                return True
            return ok(h.fn.body) and not (calls and ifs)
        return self.analysis("join", h, compute)

    def uses_selfcalls(self, h):
        def compute():
            for x in ast.walk(h.fn):
                if isinstance(x, ast.Call):
                    if dotted(x.func) in self.selfcalls:
                        return True
                    g = self.helper_call(x)
                    if g is not None and g.name != h.name and self.uses_selfcalls(g):
                        return True
            return False
        return self.analysis("selfcalls", h, compute)

    def helper_stmt(self, st):
        """(form, call node, Helper) when the statement is the call of a helper, in one of the forms `self.h(..)` ("expr"),
        `x = self.h(..)` ("assign"), `return self.h(..)` ("return"), `if [not] self.h(..):` ("if"); else None"""
        if isinstance(st, ast.Expr):
            form, call = "expr", st.value
        elif isinstance(st, ast.Assign) and len(st.targets) == 1 and isinstance(st.targets[0], ast.Name):
            form, call = "assign", st.value
        elif isinstance(st, ast.Return):
            form, call = "return", st.value
        elif isinstance(st, ast.If):
            form, call = "if", (st.test.operand if isinstance(st.test, ast.UnaryOp) and isinstance(st.test.op, ast.Not) else st.test)
        else:
            return None
        h = self.helper_call(call)
        return None if h is None else (form, call, h)

    def is_state_name(self, d):
        return d in self.mutates or (d.startswith("$") and (d[1:] in self.ghosts or d.startswith("$clr:")))

    def helper_assigns(self, h):
        """the state names (mutated attributes, ghosts) that a call of the helper may assign"""
        if h.name in self.assigning:
            return []
        self.assigning.append(h.name)
        try:
            return [d for d in self.assigned(h.fn.body) if self.is_state_name(d)]
        finally:
            self.assigning.pop()

    def ctx_get(self):
        return (self.retk, self.cx, self.in_helper, self.frozen, self.scope, tuple(self.inlining))

    def ctx_set(self, c):
        self.retk, self.cx, self.in_helper, self.frozen, self.scope, inl = c
        self.inlining = list(inl)

    def helper_env(self, h, call, env):
        """the environment in which the body of the helper runs: the current state, and its parameters bound to the arguments
        (translated in the caller's environment).  Answers (environment, the parameters that hold a list / an object)."""
        if h.name in self.inlining:
            raise Unsupported(f"the helper method {h.name} is recursive")
        args = list(call.args) if call is not None else []
        kws = list(call.keywords) if call is not None else []
        if any(isinstance(x, ast.Starred) for x in args) or any(k.arg is None for k in kws):
            raise Unsupported(f"call of the helper method {h.name} with * / ** arguments")
        if len(args) > len(h.params):
            raise Unsupported(f"call of the helper method {h.name}: {len(args)} arguments, {len(h.params)} expected")
        bound = dict(zip(h.params, args))
        for k in kws:
            if k.arg in bound or k.arg not in h.params:
                raise Unsupported(f"call of the helper method {h.name}: keyword {k.arg}")
            bound[k.arg] = k.value
        if len(bound) != len(h.params):
            raise Unsupported(f"call of the helper method {h.name}: {len(bound)} arguments, {len(h.params)} expected")
        henv = {d: v for d, v in env.items() if self.is_state_name(d)}
        frozen = set()
        for p in h.params:
            arg = bound[p]
            while (isinstance(arg, ast.Call) and dotted(arg.func) == "cast" and len(arg.args) == 2 and not arg.keywords
                   and dotted(arg.args[0]) in self.constructors):
                arg = arg.args[1]          # typing.cast is the identity at run time: the helper gets the value itself (None stays None)
            e, te = self.expr(arg, env)
            if elem_type(te) is not None or OPT_BASE.get(te, te) in OBJECTS:
                if self.changes_state(h) and not self.passable_list(arg, te):
                    raise Unsupported(f"a list / an object is passed to the helper method {h.name}, which changes the state (a second name)")
                frozen.add(p)
            henv[p] = V(e, te, False)
        return henv, frozen

    def passable_list(self, arg, te):
        """may the list `arg` (of type te) be given to a helper method that changes the state?  The parameter is a second name for
        it; the helper cannot change it through the parameter (`frozen`).  Accepted when nothing else can change it either while
        the helper runs: no statement of the function or of its helpers changes a list of that name in place (`appended`: the
        rule for `x = y` between two names of a list), and its items are no objects that a configured method changes."""
        et = elem_type(te)
        if et is None:
            return False
        if et in OBJECTS and any(sig[2].startswith("mut") for sig in self.objmethods.get(et, {}).values()):
            return False
        while isinstance(arg, ast.Call) and dotted(arg.func) == "cast" and len(arg.args) == 2 and not arg.keywords:
            arg = arg.args[1]
        names = {dotted(x) for x in ast.walk(arg) if isinstance(x, (ast.Name, ast.Attribute))}
        return not any(d in self.appended or d in self.detached for d in names if d is not None)

    def enter_helper(self, h, frozen, ret):
        self.retk = ret
        self.cx = self.cx._replace(brk=None, cont=None)
        self.in_helper = True
        self.frozen = frozen
        self.scope = h.obj
        self.inlining = self.inlining + [h.name]

    def merge_back(self, env, henv):
        env2 = dict(env)
        for d, v in henv.items():
            if self.is_state_name(d):
                env2[d] = v
        return env2

    def returned_alias(self, node, te):
        """is the value that a helper returns (the expression node, its type) a list / an object that has another name?"""
        while isinstance(node, ast.Call) and dotted(node.func) == "cast" and len(node.args) == 2:
            node = node.args[1]
        if node is None or dotted(node) is None:
            return False
        return (elem_type(te) is not None and bool(self.appended)) or (OPT_BASE.get(te, te) in OBJECTS and self.inplace)

    def inline_join(self, call, h, env):
        """The helper as a function of the environment (`joinable`): its body is run in the current state; the environments and
        values where it returns are joined (`if c then .. else ..` per attribute, as for an `if` statement that only assigns).
        Answers (the caller's environment afterwards, the returned value, its type)."""
        outer = self.ctx_get()
        henv, frozen = self.helper_env(h, call, env)
        levels = self.cx.levels
        leaves = []

        def ret(e2, v, tv, node):
            if self.cx.levels != levels:
                raise Unsupported(f"return inside a loop of the helper method {h.name}")
            if self.returned_alias(node, tv):
                raise Unsupported(f"the helper method {h.name} returns a list / an object that has another name")
            leaf = {d: x for d, x in e2.items() if self.is_state_name(d)}
            leaf["$ret"] = V(v, tv, False)
            leaves.append(leaf)
            return ("hret", len(leaves) - 1)
        self.enter_helper(h, frozen, ret)
        try:
            tree = self.block(h.fn.body, henv, lambda e: ret(e, NONE, "none", None))
        finally:
            self.ctx_set(outer)

        def fold(t):
            if t[0] == "hret":
                return leaves[t[1]]
            if t[0] == "ite":
                return self.join(t[1], fold(t[2]), fold(t[3]))
            raise Unsupported(f"the helper method {h.name} is not a function of the environment")
        joined = fold(tree)
        rv = joined.pop("$ret")
        env2 = dict(env)
        env2.update(joined)
        return env2, (bool_term(rv.ir) if rv.type == "bool" else rv.ir), rv.type

    def helper_value(self, h, call, env):
        """a helper (a property: call None) inside an expression: its value; it must not change the state"""
        if self.changes_state(h):
            raise Unsupported(f"call of the state-changing helper method {h.name} inside an expression")
        if not self.joinable(h):
            raise Unsupported(f"the helper method {h.name} (loops / calls that can raise) inside an expression")
        _, e, te = self.inline_join(call, h, env)
        return e, te

    def bind_result(self, st, env, e, te):
        """`x = <value of a helper>`: the checks of an assignment to a local (see exec_simple)"""
        d = st.targets[0].id
        if d == "self" or (d in self.mapping and d not in env) or d in self.mutates:
            raise Unsupported(f"assignment to {d}")
        if d in self.detached or any(d == v for v, _, _ in self.mutloops):
            raise Unsupported(f"the variable {d} of a loop that changes its items is assigned")
        return self.assign(d, e, te, env)

    def inline_cps(self, form, call, h, st, rest, env, k):
        """A helper that is no function of the environment (a translated method is called on some of its paths, it has a loop):
        translated path by path - what follows the call (`rest`, then k) is translated where the helper returns, once per return
        path, in the state of that path (as for an `if` with a `return` or a call of a translated method in a branch)."""
        outer = self.ctx_get()
        henv, frozen = self.helper_env(h, call, env)
        levels = self.cx.levels

        def ret(e2, v, tv, node):
            if self.cx.levels != levels:
                raise Unsupported(f"return inside a loop of the helper method {h.name}")
            if form == "assign" and self.returned_alias(node, tv):
                raise Unsupported(f"the helper method {h.name} returns a list / an object that has another name")
            here = self.ctx_get()
            self.ctx_set(outer)
            try:
                env2 = self.merge_back(env, e2)
                if form == "assign":
                    env2 = self.bind_result(st, env2, v, tv)
                return self.block(rest, env2, k)
            finally:
                self.ctx_set(here)
        self.enter_helper(h, frozen, ret)
        try:
            return self.block(h.fn.body, henv, lambda e: ret(e, NONE, "none", None))
        finally:
            self.ctx_set(outer)

    def hoist_arguments(self, st, env):
        """`self.h(x.m(d))` / `v = self.h(..)` / `return self.h(..)` for a helper / translated method / recorded effect h, with an
        argument that is the call of an object-changing method (`self._selected_reader.read(data)`: only a statement of its own
        is translated): the arguments up to the last such call are bound to fresh locals first, left to right - Python's order
        of evaluation (the callee `self.h` is a bound method: looking it up has no effect).  Answers the statements, or None."""
        call = st.value if isinstance(st, (ast.Expr, ast.Assign, ast.Return)) else None
        if not isinstance(call, ast.Call) or call.keywords or any(isinstance(a, ast.Starred) for a in call.args):
            return None
        f = dotted(call.func)
        if not (f in self.selfcalls or f in self.effects or self.helper_call(call) is not None):
            return None
        muts = [j for j, a in enumerate(call.args) if isinstance(a, ast.Call) and self.mut_value_call(a, env) is not None]
        if not muts:
            return None
        out, args = [], list(call.args)
        for j in range(muts[-1] + 1):
            if isinstance(args[j], ast.Constant):
                continue
            tmp = "$a%d" % self.new_id("arg")
            out.append(ast.copy_location(ast.Assign(targets=[ast.Name(id=tmp, ctx=ast.Store())], value=args[j]), st))
            args[j] = ast.copy_location(ast.Name(id=tmp, ctx=ast.Load()), args[j])
        new = copy.copy(st)
        new.value = ast.copy_location(ast.Call(func=call.func, args=args, keywords=[]), call)
        out.append(new)
        for x in out:
            ast.fix_missing_locations(x)
        for j, x in enumerate(out):
            self.following[id(x)] = out[j + 1:] + self.following.get(id(st), [])
        return out

    def rebinds(self, st, a):
        """may the statement re-bind the attribute a (an assignment, a translated method / a helper that changes the state)?"""
        for x in ast.walk(st):
            if isinstance(x, (ast.Assign, ast.AugAssign, ast.AnnAssign, ast.Delete)):
                tg = x.targets if isinstance(x, (ast.Assign, ast.Delete)) else [x.target]
                for t in tg:
                    for el in (t.elts if isinstance(t, (ast.Tuple, ast.List)) else [t]):
                        if dotted(el) == a:
                            return True
            if isinstance(x, ast.Call):
                f = dotted(x.func)
                if f in self.selfcalls:
                    return True
                g = self.helper_call(x)
                if g is not None and self.changes_state(g):
                    return True
        return False

    def drop_log_temporaries(self, fn):
        """A local that only logging calls read (or nothing), bound by plain assignments `x = <expression>` whose right-hand sides
        are built from names, attributes, constants, operators and pure builtins / pure methods of values (`raw = message.as_bytes`,
        `text = raw.hex() if raw else "-"`), goes away with the logging: its assignments become `pass`.  (The arguments of a
        logging call are taken to be free of effects already; this is the same expression, given a name.)"""
        params = {a.arg for a in fn.args.args}
        logged = {id(y) for x in ast.walk(fn) if isinstance(x, ast.Expr) and self.skipped(x) for y in ast.walk(x)}
        binds, other = {}, set()
        for x in ast.walk(fn):
            if isinstance(x, ast.Assign) and len(x.targets) == 1 and isinstance(x.targets[0], ast.Name):
                binds.setdefault(x.targets[0].id, []).append(x)
        plain = {id(b.targets[0]) for bs in binds.values() for b in bs}
        for x in ast.walk(fn):
            if isinstance(x, ast.Name):
                if not isinstance(x.ctx, ast.Load) and id(x) not in plain:
                    other.add(x.id)
        configured_methods = {m for ms in self.objmethods.values() for m in ms} | set(self.listmethods)

        def pure(v):
            for y in ast.walk(v):
                if isinstance(y, (ast.Await, ast.Yield, ast.YieldFrom, ast.NamedExpr, ast.Lambda, ast.ListComp, ast.SetComp, ast.DictComp, ast.GeneratorExp, ast.Starred)):
                    return False
                if isinstance(y, ast.Call):
                    f = dotted(y.func)
                    if f in PURE_BUILTINS and f not in binds and f not in params:
                        continue
                    if (isinstance(y.func, ast.Attribute) and y.func.attr in PURE_METHODS and y.func.attr not in configured_methods
                            and not self.configured(f or "")):
                        continue
                    return False
            return True
        # a temporary may be built from other such temporaries: to a fixed point
        drop = {x for x in binds if x not in params and x not in other and x != "self" and all(pure(b.value) for b in binds[x])}
        while True:
            # a read inside the right-hand side of a temporary that is dropped does not count
            inside = {id(y) for x in drop for b in binds[x] for y in ast.walk(b.value)}
            keep = {x.id for x in ast.walk(fn) if isinstance(x, ast.Name) and isinstance(x.ctx, ast.Load) and id(x) not in logged and id(x) not in inside}
            new = {x for x in drop if x not in keep}
            if new == drop:
                break
            drop = new
        if not drop:
            return
        gone = {id(b) for x in drop for b in binds[x]}
        for x in ast.walk(fn):
            for field in ("body", "orelse", "finalbody"):
                blk = getattr(x, field, None)
                if isinstance(blk, list):
                    for j, y in enumerate(blk):
                        if id(y) in gone:
                            blk[j] = ast.copy_location(ast.Pass(), y)

    def generator_of(self, call, fobj):
        """the parsed generator method g behind `self.g()` (no arguments), a method of the class of `fobj` that the configuration
        does not name, when it has the one shape that is inlined (see inline_generators); else None"""
        d = dotted(call.func) if isinstance(call, ast.Call) and not call.args and not call.keywords else None
        parts = (d or "").split(".")
        if len(parts) != 2 or parts[0] != "self" or self.configured(d):
            return None
        cls = class_of(fobj)
        try:
            raw = inspect.getattr_static(cls, parts[1]) if cls is not None else None
        except AttributeError:
            return None
        if not inspect.isfunction(raw):
            return None
        try:
            g = parse_function(raw)
        except (OSError, TypeError, SyntaxError, IndexError):
            return None
        if (not isinstance(g, ast.FunctionDef) or g.decorator_list or [a.arg for a in g.args.args] != ["self"] or g.args.vararg or g.args.kwarg
                or g.args.kwonlyargs or g.args.posonlyargs):
            return None
        body = [x for x in g.body if not self.skipped(x)]
        if not body or not isinstance(body[-1], ast.For) or body[-1].orelse or not isinstance(body[-1].target, ast.Name):
            return None
        loop = body[-1]
        inner = [x for x in loop.body if not self.skipped(x)]
        if not inner or not (isinstance(inner[-1], ast.Expr) and isinstance(inner[-1].value, ast.Yield) and inner[-1].value.value is not None):
            return None
        y = inner[-1].value
        for x in ast.walk(g):
            if isinstance(x, (ast.YieldFrom, ast.Return, ast.Try, ast.With, ast.While, ast.Await, ast.Global, ast.Nonlocal, ast.FunctionDef, ast.Lambda,
                              ast.ClassDef, ast.Break, ast.Continue, ast.NamedExpr, ast.Delete)) and x is not g:
                return None
            if isinstance(x, ast.Yield) and x is not y:
                return None
            if isinstance(x, ast.For) and x is not loop:
                return None
            if isinstance(x, (ast.Attribute, ast.Subscript)) and isinstance(x.ctx, (ast.Store, ast.Del)):
                return None                     # (a generator that changes the object is not inlined)
        elts = y.value.elts if isinstance(y.value, ast.Tuple) else [y.value]
        if not all(isinstance(e, (ast.Name, ast.Constant)) for e in elts):
            return None
        return body[:-1], loop, inner[:-1], y.value

    def inline_generators(self, fn, fobj):
        """`for <targets> in self.g():` for a GENERATOR method g of the same class of the shape

            <assignments to locals>                   for <targets> in self.g():         is        <assignments to locals>
            for x in <collection>:                        <body>                                   for x in <collection>:
                <statements without yield>                                                             <statements without yield>
                yield <names / constants>                                                              <targets> = <the yielded names>
                                                                                                       <body>
        with the locals of g renamed apart.  That is the order in which Python runs these statements: calling g runs nothing; the
        first `next()` - the first thing the `for` does - runs g up to its first `yield`, every other one resumes g after the `yield`,
        which is the end of the body of its loop, and nothing follows that loop.  Leaving the caller's loop early (`break`, `return`, an
        exception) closes the generator, which has no `try` / `with` to notice it; an exception inside g comes out of the `for`
        statement, outside any `try` of the caller's body, and so it does here.  The attributes of self that g reads are read at the
        same moments.  A target `_` is not bound."""
        count = 0
        for x in list(ast.walk(fn)):
            for field in ("body", "orelse", "finalbody"):
                blk = getattr(x, field, None)
                if not (isinstance(blk, list) and blk and isinstance(blk[0], ast.stmt)):
                    continue
                j = 0
                while j < len(blk):
                    st = blk[j]
                    j += 1
                    if not isinstance(st, ast.For) or st.orelse:
                        continue
                    found = self.generator_of(st.iter, fobj)
                    if found is None:
                        continue
                    pre, loop, inner, yielded = copy.deepcopy(found)
                    own = {n.id for part in pre + [loop] for n in ast.walk(part) if isinstance(n, ast.Name) and isinstance(n.ctx, ast.Store)}
                    free = {n.id for part in pre + [loop] for n in ast.walk(part) if isinstance(n, ast.Name)} - own - {"self"}
                    if free & ({a.arg for a in fn.args.args} | {n.id for n in ast.walk(fn) if isinstance(n, ast.Name) and isinstance(n.ctx, ast.Store)}):
                        continue               # (a global name of the generator is a local of the caller)
                    targets = st.target.elts if isinstance(st.target, ast.Tuple) else [st.target]
                    values = yielded.elts if isinstance(yielded, ast.Tuple) else [yielded]
                    if isinstance(st.target, ast.Tuple) != isinstance(yielded, ast.Tuple) or len(targets) != len(values) or not all(isinstance(t, ast.Name) for t in targets):
                        continue
                    count += 1
                    for part in pre + [loop]:
                        for n in ast.walk(part):
                            if isinstance(n, ast.Name) and n.id in own:
                                n.id = "$g%d_%s" % (count, n.id)
                    binds = [ast.Assign(targets=[ast.Name(id=t.id, ctx=ast.Store())], value=v) for t, v in zip(targets, values) if t.id != "_"]
                    loop.body = inner + binds + st.body
                    new = pre + [loop]
                    for n in new:
                        ast.copy_location(n, st)
                        ast.fix_missing_locations(n)
                    blk[j - 1:j] = new
                    j += len(new) - 1

    def rotate_loops(self, fn):
        """`S; while c: B; S` for one and the same assignment S (`line = self._buffer.pop()` before the loop and as the last statement
        of its body) is `while True: S; if not c: break; B` - the same statements in the same order, as long as no `continue` of
        the loop skips the S at the end of the body (then the loop is left as it is)."""
        for x in ast.walk(fn):
            for field in ("body", "orelse", "finalbody"):
                blk = getattr(x, field, None)
                if not (isinstance(blk, list) and blk and isinstance(blk[0], ast.stmt)):
                    continue
                for i in range(len(blk) - 1):
                    first, loop = blk[i], blk[i + 1]
                    if not (isinstance(first, (ast.Assign, ast.AnnAssign)) and isinstance(loop, ast.While) and not loop.orelse and len(loop.body) >= 1):
                        continue
                    if isinstance(loop.test, ast.Constant) or ast.dump(loop.body[-1]) != ast.dump(first):
                        continue
                    if any(isinstance(y, ast.Continue) for y in self.own_exits(loop.body)):
                        continue
                    leave = ast.If(test=ast.UnaryOp(op=ast.Not(), operand=loop.test), body=[ast.Break()], orelse=[])
                    new = ast.While(test=ast.Constant(value=True), body=[first, leave] + loop.body[:-1], orelse=[])
                    blk[i] = ast.copy_location(ast.Pass(), first)
                    blk[i + 1] = ast.copy_location(new, loop)
                    ast.fix_missing_locations(blk[i + 1])

    def resolve_aliases(self, fn):
        """READ-ONLY LOCAL ALIASES.  A local that is bound exactly once, by `x = self.a` / `x = cast(C, self.a)` for an attribute a
        of the state that holds a list or an object, is another name for the attribute: every read of x becomes a read of
        `self.a` (and the binding goes away), PROVIDED that all reads of x are in the statements that follow the binding in its
        block, and that none of these statements, up to the last one that reads x, can re-bind the attribute (an assignment to it,
        a call of a translated method or of a state-changing helper).  In-place changes are seen through both names, as in
        Python.  Where the proviso fails the function is left as it is (a second name for a list / an object that may be changed
        in place is then rejected by `exec_simple`, as before)."""
        params = {a.arg for a in fn.args.args}
        stores = {}
        for x in ast.walk(fn):
            if isinstance(x, ast.Name) and isinstance(x.ctx, (ast.Store, ast.Del)):
                stores[x.id] = stores.get(x.id, 0) + 1
        blocks = []
        for x in ast.walk(fn):
            for field in ("body", "orelse", "finalbody"):
                blk = getattr(x, field, None)
                if isinstance(blk, list) and blk and isinstance(blk[0], ast.stmt):
                    blocks.append(blk)
        for blk in blocks:
            for i, st in enumerate(blk):
                if not (isinstance(st, ast.Assign) and len(st.targets) == 1 and isinstance(st.targets[0], ast.Name)):
                    continue
                x = st.targets[0].id
                if x in params or stores.get(x) != 1 or x == "self":
                    continue
                inner = st.value
                if isinstance(inner, ast.Call) and dotted(inner.func) == "cast" and len(inner.args) == 2 and not inner.keywords:
                    inner = inner.args[1]
                a = dotted(inner)
                if a is None or a not in self.mutates or not isinstance(inner, ast.Attribute):
                    continue
                t = self.mutates[a][1]
                if not (OPT_BASE.get(t, t) in OBJECTS or elem_type(t) is not None):
                    continue
                tail = blk[i + 1:]
                reads = [n for n in ast.walk(fn) if isinstance(n, ast.Name) and n.id == x and isinstance(n.ctx, ast.Load)]
                where = [next((j for j, s in enumerate(tail) if any(n is r for n in ast.walk(s))), None) for r in reads]
                if any(j is None for j in where):
                    continue
                last = max(where) if where else -1
                if any(self.rebinds(s, a) for s in tail[:last + 1]):
                    continue
                value = inner                  # (typing.cast is the identity at run time: the alias is the attribute itself)

                class Sub(ast.NodeTransformer):
                    def visit_Name(self, n):
                        if n.id == x and isinstance(n.ctx, ast.Load):
                            return ast.copy_location(copy.deepcopy(value), n)
                        return n
                for j in range(last + 1):
                    tail[j] = Sub().visit(tail[j])
                    ast.fix_missing_locations(tail[j])
                blk[i + 1:] = tail
                blk[i] = ast.copy_location(ast.Pass(), st)

    @staticmethod
    def neg_literal(n):
        """k of the expression `-k` with a literal k > 0, else None"""
        if (isinstance(n, ast.UnaryOp) and isinstance(n.op, ast.USub) and isinstance(n.operand, ast.Constant)
                and type(n.operand.value) is int and n.operand.value > 0):
            return n.operand.value
        return None

    def object_holder(self, d, env):
        """d = <name bound to an object or an Optional object>.<configured member path>: (name, member path), else None"""
        parts = d.split(".")
        for k in range(len(parts) - 1, 0, -1):
            p = ".".join(parts[:k])
            if p in env:
                base = OPT_BASE.get(env[p].type, env[p].type)
                if base in OBJECTS and ".".join(parts[k:]) in self.objmethods.get(base, {}):
                    return p, ".".join(parts[k:])
                return None
        return None

    def object_member(self, d, env):
        """(the object as a term, (lean function, argument types, result type)) of a configured member, else None.
        A member of None: python raises, the translation uses the default object (the theorems state the guards)."""
        h = self.object_holder(d, env)
        if h is None:
            return None
        p, member = h
        v = env[p]
        if v.unbound:
            raise Unsupported(f"local {p} may be unbound where it is read")
        base = OPT_BASE.get(v.type, v.type)
        return self.convert(v.ir, v.type, base), self.objmethods[base][member]

    # ---------------------------------------------------------------- statements
    @staticmethod
    def skipped(st):
        if isinstance(st, ast.Pass):
            return True
        if isinstance(st, ast.Expr) and isinstance(st.value, ast.Constant) and isinstance(st.value.value, str):
            return True                                            # docstring
        if isinstance(st, ast.Expr) and isinstance(st.value, ast.Call):
            return (dotted(st.value.func) or "").startswith("_LOGGER.")      # logging
        return False

    def simple(self, body):
        """only assignments (and `if`s of such): the block is a function from environments to environments"""
        for st in body:
            if self.raise_site(st) is not None:
                return False
            hs = self.helper_stmt(st)
            if hs is not None and hs[0] in ("expr", "assign"):
                # the call of a helper method: a function of the environment (or a no-op), or translated path by path (block)
                if self.joinable(hs[2]) or (hs[0] == "expr" and self.effect_free(hs[2])):
                    continue
                return False
            if hs is not None and hs[0] == "if" and (self.changes_state(hs[2]) or not self.joinable(hs[2])):
                return False
            if self.skipped(st) or isinstance(st, (ast.Assign, ast.AugAssign)):
                continue
            if isinstance(st, ast.AnnAssign) and st.value is not None and st.simple:
                continue
            if self.del_prefix(st) is not None:
                continue
            if self.stmt_call(st) is not None or isinstance(st, ast.Assert):
                continue
            if isinstance(st, ast.If) and self.simple(st.body) and self.simple(st.orelse):
                # an `if` that calls other methods of the object is translated path by path (`if c then <state after
                # A> else <state after B>`, as with a `return` inside), not attribute by attribute
                if not any(isinstance(x, ast.Call) and (dotted(x.func) in self.selfcalls or (self.helper_call(x) is not None and self.uses_selfcalls(self.helper_call(x))))
                           for x in ast.walk(st)):
                    continue
            return False
        return True

    def raise_site(self, st):
        """Is the statement one that may raise (so that it is translated as a `match`, not as an assignment)?
        "table": `a, b = TABLE[i]` for a configured table; "call": `x = f(..)`, `f(..)`, `return f(..)` for a plain
        name f that is no known function (whether f is a callable object is checked when the statement is executed)."""
        if isinstance(st, ast.Assign) and len(st.targets) == 1 and isinstance(st.value, ast.Subscript) and dotted(st.value.value) in self.tables:
            return "table"
        v = st.value if isinstance(st, (ast.Assign, ast.Expr, ast.Return)) else None
        if self.raises and isinstance(v, ast.Call) and isinstance(v.func, ast.Name):
            f = v.func.id
            if f not in BUILTIN_CALLS and f not in self.callfns and f not in self.calls and f not in self.constructors:
                return "call"
        return None

    def state_names(self):
        """what a call of another method of the object may assign: the mutated attributes and the ghosts"""
        return list(self.mutates) + ["$" + g for g in self.ghosts]

    def stmt_call(self, st):
        """A statement `f(..)` that changes a variable: the python names it may assign, else None.  (By name only: the
        types are checked when the statement is executed.)  `x.append(v)`, `x.clear()`, a configured object-changing
        method `x.m(..)`, a configured effect, a call of another translated method of the object."""
        if not (isinstance(st, ast.Expr) and isinstance(st.value, ast.Call)):
            return None
        f = dotted(st.value.func) or ""
        if f in self.selfcalls:
            return self.state_names()
        if f in self.effects:
            return ["$" + self.effects[f]]
        if "." in f:
            recv, m = f.rsplit(".", 1)
            if m in ("append", "clear", "extend") or any(ms.get(m, ("", [], ""))[2].startswith("mut") for ms in self.objmethods.values()):
                return [recv]
        return None

    @staticmethod
    def del_prefix(st):
        """`del x[:n]` (the first n items are removed in place): (x as an expression node, n), else None"""
        if isinstance(st, ast.Delete) and len(st.targets) == 1 and isinstance(st.targets[0], ast.Subscript):
            sub = st.targets[0]
            if isinstance(sub.slice, ast.Slice) and sub.slice.lower is None and sub.slice.upper is not None and sub.slice.step is None:
                if dotted(sub.value) is not None:
                    return sub.value, sub.slice.upper
        return None

    @staticmethod
    def append_form(st):
        """`L += [x]` (one item): the equivalent call node `L.append(x)`, else None"""
        if (isinstance(st, ast.AugAssign) and isinstance(st.op, ast.Add) and isinstance(st.value, ast.List) and len(st.value.elts) == 1
                and not isinstance(st.value.elts[0], ast.Starred) and dotted(st.target) is not None):
            recv = ast.parse(dotted(st.target), mode="eval").body
            return ast.copy_location(ast.Call(func=ast.Attribute(value=recv, attr="append", ctx=ast.Load()), args=[st.value.elts[0]], keywords=[]), st)
        return None

    def assigned(self, body):
        """python names (locals and mutated attributes) a block may assign, loop variables excluded"""
        res = []

        def visit(x):
            d = None
            if isinstance(x, ast.Assign):
                d = dotted(x.targets[0])
                if isinstance(x.targets[0], ast.Tuple):            # `a, b = TABLE[i]`
                    for el in x.targets[0].elts:
                        if isinstance(el, ast.Name) and el.id != "_" and el.id not in res:
                            res.append(el.id)
            elif isinstance(x, (ast.AugAssign, ast.AnnAssign)):
                d = dotted(x.target)
            elif self.del_prefix(x) is not None:
                d = dotted(self.del_prefix(x)[0])
            if isinstance(x, ast.Assign) and isinstance(x.value, ast.Call) and dotted(x.value.func) and "." in dotted(x.value.func):
                recv, m = dotted(x.value.func).rsplit(".", 1)      # `v = x.m(..)` for a method that changes x and answers a value
                if any(ms.get(m, ("", [], ""))[2].startswith("mut:") for ms in self.objmethods.values()) and recv not in res:
                    res.append(recv)
            if isinstance(x, ast.Assign) and isinstance(x.value, ast.Call) and dotted(x.value.func) in self.selfcalls:
                for g in self.state_names():
                    if g not in res:
                        res.append(g)
            for g in [d] if d is not None else (self.stmt_call(x) or []):
                if g not in res:
                    res.append(g)
            if isinstance(x, ast.Call) and self.helper_call(x) is not None:       # a helper method: the state names it may assign
                for g in self.helper_assigns(self.helper_call(x)):
                    if g not in res:
                        res.append(g)
            for c in ast.iter_child_nodes(x):          # source order
                visit(c)
        for st in body:
            visit(st)
        return res

    def assign(self, d, e, te, env):
        env = dict(env)
        if d in self.mutates:
            env[d] = V(self.coerce(e, te, self.mutates[d][1]), self.mutates[d][1], False)
        else:
            env[d] = V(e, te, False)
        return env

    def exec_simple(self, body, env):
        for st in body:
            if self.skipped(st):
                continue
            if isinstance(st, ast.If):
                env = self.join(self.truth(st.test, env), self.exec_simple(st.body, env), self.exec_simple(st.orelse, env))
                continue
            if isinstance(st, ast.Assert):
                # a no-op (python raises when the test is false: the theorems state the asserted fact where they need
                # it); the test is translated, and dropped, so that an unsupported expression in it is still rejected
                self.truth(st.test, env)
                continue
            self.cur_stmt = st
            if isinstance(st, ast.Expr):                           # a statement call that changes a variable
                hs = self.helper_stmt(st)
                if hs is not None and self.effect_free(hs[2]):     # a helper without any effect (logging): a no-op
                    self.helper_env(hs[2], st.value, env)          # (the arguments are translated, and dropped: see assert)
                elif hs is not None:
                    env = self.inline_join(st.value, hs[2], env)[0]
                else:
                    env = self.exec_call(st.value, env)
                continue
            if self.append_form(st) is not None and dotted(st.target) in env and elem_type(env[dotted(st.target)].type) is not None:
                env = self.exec_call(self.append_form(st), env)    # L += [x]  is  L.append(x)
                continue
            hint = None
            if self.del_prefix(st) is not None:                    # del x[:n]  is  x = x[n:], in place (x is in `appended`)
                target, n = self.del_prefix(st)
                value = ast.copy_location(ast.Subscript(value=target, slice=ast.Slice(lower=n, upper=None, step=None), ctx=ast.Load()), st)
            elif isinstance(st, ast.AnnAssign):                    # the annotation is not evaluated; `list[C]` types a `[]`
                target, value = st.target, st.value
                an = st.annotation
                if isinstance(an, ast.Subscript) and dotted(an.value) in ("list", "List") and isinstance(value, ast.List) and not value.elts:
                    c = dotted(an.slice)
                    if c in self.constructors:
                        hint = "list:" + self.constructors[c][1]
                    elif c in self.raisefns:
                        hint = "list:" + self.raisefns[c][2]
            elif isinstance(st, ast.Assign):
                if len(st.targets) != 1:
                    raise Unsupported("multiple assignment")
                target, value = st.targets[0], st.value
            else:
                if type(st.op) not in BINOPS:
                    raise Unsupported("augmented operator")
                target = st.target                                 # x op= e  is  x = x op e
                value = ast.BinOp(left=target, op=st.op, right=st.value)
            d = dotted(target)
            if d is None or not (isinstance(target, ast.Name) or d in self.mutates):
                raise Unsupported(f"assignment target {ast.dump(target)[:40]}")
            if d == "self" or (d in self.mapping and d not in env and not (self.in_helper and "." not in d)):
                raise Unsupported(f"assignment to {d}")
            if d in self.detached:
                raise Unsupported(f"{d} is re-bound inside the loop that iterates over it and changes its items")
            if any(d == v for v, _, _ in self.mutloops):
                raise Unsupported(f"the variable {d} of a loop that changes its items is assigned")
            if d in self.frozen and (isinstance(st, ast.AugAssign) or self.del_prefix(st) is not None):
                raise Unsupported(f"the parameter {d} of a helper method, which holds a list / an object of the caller, is changed in place")
            mv = self.mut_value_call(value, env) if isinstance(value, ast.Call) else None
            if self.helper_call(value) is not None and self.changes_state(self.helper_call(value)):
                env, e, te = self.inline_join(value, self.helper_call(value), env)       # x = self.helper(..), which changes the state
            elif isinstance(value, ast.Call) and dotted(value.func) in self.selfcalls:
                env, e, te = self.selfcall(value, env)             # x = self.method(..)
                if te is None:
                    raise Unsupported(f"{d} = {dotted(value.func)}(..), which returns None")
            elif mv is not None:                                   # v = x.m(..): m changes x and answers a value
                tgt, res, tbase, te = mv
                if tgt == d:
                    raise Unsupported(f"{d} = {d}.m(..) for an object-changing method")
                env = self.assign(tgt, mk_proj(res, "1"), tbase, env)
                e = mk_proj(res, "2")
            else:
                e, te = self.expr(value, env)
                if hint is not None and e == NIL:
                    e, te = nil_of(hint), hint
            vv = value                                             # (typing.cast is the identity: `x = cast(C, y)` is a second name for y)
            while isinstance(vv, ast.Call) and dotted(vv.func) == "cast" and len(vv.args) == 2 and not vv.keywords:
                vv = vv.args[1]
            dv = dotted(vv)
            if elem_type(te) is not None and (isinstance(vv, ast.Name) or dv in self.mutates) and (d in self.appended or dv in self.appended):
                raise Unsupported(f"{d} = {dv}: two names for one list that may be changed in place")
            if OPT_BASE.get(te, te) in OBJECTS and self.inplace and dv is not None and not self.is_move(d, dv, st):
                raise Unsupported(f"{d} = {dv}: two names for one object that may be changed in place")
            env = self.assign(d, e, te, env)
        return env

    def mut_value_call(self, call, env):
        """`x.m(args)` for a configured method with the result type "mut:<type>" (it changes x and answers a value: the
        lean function answers the pair): (python name of x, the pair as a term, type of x, type of the value), else None"""
        f = dotted(call.func) or ""
        if "." not in f or self.object_holder(f, env) is None:
            return None
        om = self.object_member(f, env)
        recv, (lean, argts, rt) = om
        if not rt.startswith("mut:"):
            return None
        tgt = self.object_holder(f, env)[0]
        if tgt in self.frozen:
            raise Unsupported(f"{f}: the parameter {tgt} of a helper method, which holds an object of the caller, is changed in place")
        if call.keywords or len(argts) != len(call.args):
            raise Unsupported(f"call {f}: {len(call.args)} arguments, {len(argts)} expected")
        if tgt not in self.mutates and (tgt in self.mapping or "." in tgt):
            raise Unsupported(f"{f}: changes an object that is not a local or a mutated attribute")
        if tgt in self.readonly_items:
            raise Unsupported(f"{f}: changes an item of a list that the loop does not write back")
        args = [self.convert(*self.expr(x, env), want) for x, want in zip(call.args, argts)]
        return tgt, ("app", lean, [recv] + args), OPT_BASE.get(env[tgt].type, env[tgt].type), rt[4:]

    def is_move(self, d, dv, st):
        """`self.a = x` where x is the variable of an enclosing loop over the list attribute L whose items the loop
        changes: a second name for the object - accepted as a MOVE out of the list when
          * the next statement of the same block is `L.clear()` (the list gives up its reference at once: no alias
            outlives the statement; a loop that goes on after that is rejected, see do_for_exit),
          * no object-changing method is called on x or on self.a later in the body of that loop (by source
            position), nor anywhere inside an inner loop that contains the assignment (which could repeat).
        The items of a list are taken to be pairwise distinct objects."""
        hit = [(v, L, loop) for v, L, loop in self.mutloops if v == dv]
        if not hit or d not in self.mutates:
            return False
        _, L, loop = hit[-1]
        nxt = [x for x in self.following.get(id(st), []) if not self.skipped(x)]
        if not (nxt and isinstance(nxt[0], ast.Expr) and isinstance(nxt[0].value, ast.Call) and dotted(nxt[0].value.func) == L + ".clear"):
            return False
        muts = {m for ms in self.objmethods.values() for m, sig in ms.items() if sig[2].startswith("mut")}
        def changing(x):
            f = dotted(x.func) if isinstance(x, ast.Call) else None
            return f is not None and "." in f and f.rsplit(".", 1)[0] in (d, dv) and f.rsplit(".", 1)[1] in muts
        pos = (st.lineno, st.col_offset)
        for x in ast.walk(loop):
            if changing(x) and (x.lineno, x.col_offset) > pos:
                return False
        for inner in ast.walk(loop):
            if inner is not loop and isinstance(inner, (ast.For, ast.While)) and any(y is st for y in ast.walk(inner)):
                if any(changing(x) for x in ast.walk(inner)):
                    return False
        return True

    def exec_call(self, call, env):
        """the environment after a statement `f(..)` that changes a variable (see stmt_call)"""
        f = dotted(call.func) or ""
        if call.keywords:
            raise Unsupported(f"keyword arguments in call {f}")
        if f in self.selfcalls:
            return self.selfcall(call, env)[0]
        if f in self.effects:
            g = self.effects[f]
            gt = self.ghost_types[g]
            if gt != "bool":                                       # a log: the argument is appended
                if len(call.args) != 1:
                    raise Unsupported(f"call {f} with other than one argument")
                x = self.convert(*self.expr(call.args[0], env), elem_type(gt))
                return self.assign("$" + g, ("append1", env["$" + g].ir, x), gt, env)
            if call.args:
                raise Unsupported(f"call {f} with arguments")
            return self.assign("$" + g, TRUE, "bool", env)
        tgt, m = f.rsplit(".", 1)
        if tgt in self.frozen:
            raise Unsupported(f"{f}: the parameter {tgt} of a helper method, which holds a list / an object of the caller, is changed in place")
        if tgt in self.detached:
            # the list that a loop is iterating over (and whose items it changes): `clear()` is recorded in a flag - the
            # iterator finds the list empty, so the loop ends with this iteration (see do_for_exit); nothing else
            if m != "clear" or call.args:
                raise Unsupported(f"{f} inside the loop that iterates over {tgt} and changes its items")
            return self.assign("$clr:" + tgt, TRUE, "bool", env)
        if tgt in env and not env[tgt].unbound and OPT_BASE.get(env[tgt].type, env[tgt].type) in OBJECTS:
            om = self.object_member(f, env)
            if om is None or not om[1][2].startswith("mut"):
                raise Unsupported(f"statement call {f}")
            if tgt not in self.mutates and (tgt in self.mapping or "." in tgt):
                raise Unsupported(f"{f}: changes an object that is not a local or a mutated attribute")
            if tgt in self.readonly_items:
                raise Unsupported(f"{f}: changes an item of a list that the loop does not write back")
            recv, (lean, argts, rt) = om
            if len(argts) != len(call.args):
                raise Unsupported(f"call {f}: {len(call.args)} arguments, {len(argts)} expected")
            args = [self.convert(*self.expr(x, env), want) for x, want in zip(call.args, argts)]
            res = ("app", lean, [recv] + args)
            if rt.startswith("mut:"):                              # the value it answers is dropped
                res = mk_proj(res, "1")
            return self.assign(tgt, res, OPT_BASE.get(env[tgt].type, env[tgt].type), env)
        if m not in ("append", "clear", "extend"):
            raise Unsupported(f"statement call {f}")
        # x.append(v), x.clear() of a list: a local, or a mutated attribute (its final value is answered)
        if tgt not in env or (tgt in self.mapping and tgt not in self.mutates):
            raise Unsupported(f"{m} to {tgt}, which is not a local")
        l, tl = self.expr(call.func.value, env)
        if elem_type(tl) is None:
            raise Unsupported(f"{m} to a {tl}")
        if m == "clear":
            if call.args:
                raise Unsupported("clear with arguments")
            return self.assign(tgt, nil_of(tl), tl, env)
        if len(call.args) != 1:
            raise Unsupported(f"{m} with other than one argument")
        if m == "extend":                                          # x.extend(y): x = x ++ y, in place (x is in `appended`)
            y, ty = self.expr(call.args[0], env)
            if ty == "optlist":                                    # total: None is used as b""
                y, ty = self.to_list(y, ty), "list"
            if tl != "list" or ty != "list":
                raise Unsupported(f"extend of a {tl} by a {ty}")
            return self.assign(tgt, mk_cat(l, y), "list", env)
        if tl == "list" and l == NIL:                              # the literal `[]`: a list of what is appended
            tx = self.expr(call.args[0], env)[1]
            if tx in OBJECTS:
                l, tl = nil_of("list:" + tx), "list:" + tx
        if tl != "list":
            changeable = any(sig[2].startswith("mut") for sig in self.objmethods.get(elem_type(tl), {}).values())     # (else: no configured method changes it)
            if any(tgt == L for _, L, _ in self.mutloops) or (elem_type(tl) in OBJECTS and self.inplace and changeable and not self.append_is_move(call)):
                raise Unsupported(f"append of an object to {tgt} in a function that changes objects in place")
            return self.assign(tgt, ("append1", l, self.convert(*self.expr(call.args[0], env), elem_type(tl))), tl, env)
        return self.assign(tgt, ("append1", l, self.to_int(*self.expr(call.args[0], env))), "list", env)

    def fresh_assign(self, x, a):
        """is the statement `a = C()` for a configured constructor, or `a = None`?"""
        return (isinstance(x, ast.Assign) and len(x.targets) == 1 and dotted(x.targets[0]) == a
                and ((isinstance(x.value, ast.Constant) and x.value.value is None)
                     or (isinstance(x.value, ast.Call) and not x.value.args and not x.value.keywords and dotted(x.value.func) in self.constructors)))

    def append_is_move(self, call):
        """`L.append(self.a)` / `L.append(cast(C, self.a))` for an Optional-object attribute a, in a function that changes objects
        in place: the list holds a second reference to the object.  Accepted as a MOVE when the statement that follows in the same
        block (calls of configured methods of other object attributes aside: `self._buffer.trim..()`) re-binds self.a to a
        fresh object (or None) before anything can change the object: `self.a = C()` / `self.a = None`,
        or `self.m()` for a translated method m without parameters whose body is straight-line (assignments, `x.clear()` /
        `x.append(v)` on list attributes, no other calls) and whose first statement that mentions self.a is such an assignment."""
        arg = call.args[0]
        if isinstance(arg, ast.Call) and dotted(arg.func) == "cast" and len(arg.args) == 2 and dotted(arg.args[0]) in self.constructors:
            arg = arg.args[1]
        a = dotted(arg)
        if a is None or a not in self.mutates or OPT_BASE.get(self.mutates[a][1]) not in OBJECTS:
            return False
        x = None
        for y in self.following.get(id(self.cur_stmt), []):
            if self.skipped(y):
                continue
            # a call of a configured method of ANOTHER object attribute (`self._buffer.trim..()`) cannot reach the object
            f = dotted(y.value.func) if isinstance(y, ast.Expr) and isinstance(y.value, ast.Call) else None
            recv, _, m = (f or "").rpartition(".")
            if (f and recv != a and recv in self.mutates and self.mutates[recv][1] in OBJECTS and m in self.objmethods.get(self.mutates[recv][1], {})
                    and not any(dotted(z) == a for z in ast.walk(y))):
                continue
            x = y
            break
        if x is None:
            return False
        if self.fresh_assign(x, a):
            return True
        if not (isinstance(x, ast.Expr) and isinstance(x.value, ast.Call) and dotted(x.value.func) in self.selfcalls
                and not x.value.args and not x.value.keywords):
            return False
        g = self.selfcalls[dotted(x.value.func)]
        if g.failed or isinstance(g.obj, _Missing):
            return False
        try:
            body = parse_function(g.obj).body
        except (OSError, TypeError, SyntaxError):
            return False
        for y in body:
            if g.skipped(y):
                continue
            if g.fresh_assign(y, a):
                return True
            if any(dotted(z) == a for z in ast.walk(y)) or not isinstance(y, (ast.Assign, ast.AugAssign, ast.Expr)):
                return False
            for z in ast.walk(y):
                if isinstance(z, ast.Call):
                    f = dotted(z.func) or ""
                    recv, _, m = f.rpartition(".")
                    if f in ("bytearray", "bytes") and not z.args:
                        continue
                    if m in ("clear", "append") and recv in g.mutates and elem_type(g.mutates[recv][1]) is not None:
                        continue
                    return False
        return False

    def state_term(self, env):
        """the current state of the object, as the argument of another translated method"""
        vals = [self.coerce(env[d].ir, env[d].type, t) for d, (_, t) in self.mutates.items()]
        if any(env[d].unbound for d in self.mutates):
            raise Unsupported("internal: unbound attribute")
        if self.record:
            return [mk_rec(self.record[0], [(lean, v) for (lean, _), v in zip(self.mutates.values(), vals)])]
        return vals

    def layout(self):
        """the components of what a function with `mutates` / `ghosts` answers"""
        comps = [("state", None)] if self.record else [("field", d) for d in self.mutates]
        comps += [("ghost", g) for g in self.ghosts]
        return comps + ([("ret", None)] if self.pyret is not None else [])

    def selfcall(self, call, env):
        """`self.method(args)` for another translated method of the same object (`selfcalls`): the generated
        definition of that method is applied to the current state, and the state afterwards (and its ghosts) are
        the components of its answer.  Answers (environment, returned value or None, its type or None)."""
        f = dotted(call.func)
        g = self.selfcalls[f]
        if call.keywords:
            raise Unsupported(f"keyword arguments in call {f}")
        if g.failed or isinstance(g.obj, _Missing):
            raise Unsupported(f"call {f}: the callee {g.name} is not translatable")
        if (g.record, g.mutates) != (self.record, self.mutates):
            raise Unsupported(f"call {f}: the callee {g.name} has another state")
        if any(x not in self.ghosts for x in g.ghosts):
            raise Unsupported(f"call {f}: an effect of the callee {g.name} is not recorded here")
        pyparams = [a for a in inspect.signature(unwrap_fn(g.obj)).parameters if a != "self"]
        if len(pyparams) != len(call.args):
            raise Unsupported(f"call {f}: {len(call.args)} arguments, {len(pyparams)} expected")
        byname = {}
        for a, x in zip(pyparams, call.args):
            if a not in g.mapping:
                raise Unsupported(f"call {f}: parameter {a} of the callee is not configured")
            lean, t = g.mapping[a]
            byname[lean] = self.convert(*self.expr(x, env), t)
        state = self.state_term(env)
        statenames = [g.record[1]] if g.record else [lean + "0" for lean, _ in g.mutates.values()]
        args = []
        for n, ty in g.params:
            if n in statenames:
                args.append(state[statenames.index(n)])
            elif n in byname:
                args.append(byname.pop(n))
            elif (n, ty) in self.params:
                args.append(("const", n))                          # the configuration of the object: passed on
            else:
                raise Unsupported(f"call {f}: no value for the parameter {n} of {g.name}")
        if byname:
            raise Unsupported(f"call {f}: internal: unused arguments")
        res = ("app", g.name, args) if args else ("const", g.name)
        comps = g.layout()
        env = dict(env)
        ret = None
        for j, (kind, x) in enumerate(comps):
            c = res if len(comps) == 1 else mk_proj(res, tuple_path(j, len(comps)))
            if kind == "state":
                for d, (lean, t) in self.mutates.items():
                    env[d] = V(mk_proj(c, lean), t, False)
            elif kind == "field":
                env[x] = V(c, self.mutates[x][1], False)
            elif kind == "ghost":
                env["$" + x] = V(mk_or([env["$" + x].ir, c]), "bool", False)
            else:
                ret = c
        return env, ret, g.pyret

    def join(self, c, ea, eb):
        """the environment after `if c: A else: B`, from the environments after A and after B"""
        env = {}
        for d in list(ea) + [x for x in eb if x not in ea]:
            va, vb = ea.get(d), eb.get(d)
            if va is None or vb is None:       # bound on one side only: reading it is rejected
                v = va or vb
                env[d] = V(v.ir, v.type, True)
                continue
            if va.ir == vb.ir and va.type == vb.type:
                env[d] = V(va.ir, va.type, va.unbound or vb.unbound)
                continue
            t = unify(va.type, vb.type)
            env[d] = V(mk_ite(c, self.coerce(va.ir, va.type, t), self.coerce(vb.ir, vb.type, t)), t, va.unbound or vb.unbound)
        return env

    def ret_tag(self):
        if self.raises and self.pyret is not None:
            return self.pyret                  # (`ret` is the whole `Except PyExc ..` type)
        for tag, ty in LEAN_TY.items():
            if ty == self.ret:
                return tag
        raise Unsupported(f"return type {self.ret}")

    def final_state(self, env, ret=None):
        """what a function that mutates attributes answers: their final values (as one record, with `record`), the
        ghosts, and what python returns"""
        comps = self.state_term(env) + [env["$" + g].ir for g in self.ghosts]
        if self.pyret is not None:
            comps.append(ret)
        n = len(comps)
        if n > 1 and all(c[0] == "proj" and c[2] == tuple_path(j, n) for j, c in enumerate(comps)) and len({show(c[1], None) for c in comps}) == 1:
            return comps[0][1]                 # all the components of one tuple: that tuple
        return ("tuple", comps)

    def do_return(self, value, env):
        """`return value` (value None: a bare `return`, or the end of the body) of a function with a state"""
        none = value is None or (isinstance(value, ast.Constant) and value.value is None)
        if self.pyret is None:
            if not none and not (isinstance(value, ast.Name) and value.id in env and env[value.id].type == "none"):
                raise Unsupported("a value is returned from a function that is configured to return None")
            return self.final_state(env)
        if none:
            return self.final_state(env, self.coerce(NONE, "none", self.pyret))
        if isinstance(value, ast.Call) and dotted(value.func) in self.selfcalls:
            env, e, te = self.selfcall(value, env)                 # return self.method(..)
            if te is None:
                e, te = NONE, "none"
        else:
            e, te = self.expr(value, env)
        return self.final_state(env, self.coerce(e, te, self.pyret))

    def answer(self, t):
        """what the function answers, as the value of the statement that is being translated: through the enclosing
        loops (`Step.ret`), and as `Except.ok` when the function may raise"""
        if self.raises:
            t = ("ok", t)
        return self.leave(t, len(self.cx.levels))

    def leave(self, t, n):
        """t, a value of the function (or of an enclosing statement), seen from inside the n innermost loops"""
        levels = self.cx.levels[len(self.cx.levels) - n:] if n else ()
        if "fold" in levels:
            raise _NeedExit()
        if "mut" in levels:
            raise Unsupported("return / uncaught exception inside a loop that changes the items of its list")
        for _ in levels:
            t = ("retn", t)
        return t

    def raise_term(self, e, env):
        """the value of the statement when the exception e (a term of type PyExc) is raised here: the handler of the
        enclosing `try`, else the function answers `Except.error e`"""
        if self.in_helper:
            raise Unsupported("an exception can be raised inside a helper method")
        h = self.cx.handler
        if h is None:
            if not self.raises:
                raise Unsupported("an exception can be raised in a function that is configured not to raise")
            return self.leave(("error", e), len(self.cx.levels))
        hcx, fn = h
        here, self.cx = self.cx, hcx
        try:
            t = fn(e, env)
        finally:
            self.cx = here
        return self.leave(t, len(here.levels) - len(hcx.levels))

    def bind_call(self, call, env, hint, cont):
        """`f(args)` for a local f that holds an opaque callable which may raise (objmethods: "__call__" with the result
        type "raises:<type>"): `match f args with | .ok v => cont(v, type, env) | .error e => <raise e>`"""
        f = call.func.id
        if call.keywords:
            raise Unsupported(f"keyword arguments in call {f}")
        if f in self.raisefns and f not in env:                    # a configured class / function that may raise
            lean, argts, rt = self.raisefns[f]
            if len(argts) != len(call.args):
                raise Unsupported(f"call {f}: {len(call.args)} arguments, {len(argts)} expected")
            args = [self.convert(*self.expr(x, env), want) for x, want in zip(call.args, argts)]
            vid, eid = self.new_id(hint), self.new_id("e")
            return ("mexc", ("app", lean, args), vid, cont(("var", vid), rt, env), eid, self.raise_term(("var", eid), env))
        if f not in env or env[f].unbound:
            raise Unsupported(f"call {f}")
        sig = self.objmethods.get(env[f].type, {}).get("__call__")
        if sig is None or not sig[2].startswith("raises:"):
            raise Unsupported(f"call {f}")
        lean, argts, rt = sig
        if len(argts) != len(call.args):
            raise Unsupported(f"call {f}: {len(call.args)} arguments, {len(argts)} expected")
        args = [self.convert(*self.expr(x, env), want) for x, want in zip(call.args, argts)]
        scrut = ("app", lean, [env[f].ir] + args) if lean else ("call", env[f].ir, args)
        vid, eid = self.new_id(hint), self.new_id("e")
        return ("mexc", scrut, vid, cont(("var", vid), rt[len("raises:"):], env), eid, self.raise_term(("var", eid), env))

    def do_table(self, st, rest, env, k):
        """`a, b = TABLE[i]` for a configured constant table of tuples: a, b are the items i of its columns.  Out of
        range: IndexError (`match column[i]? with | some a => .. | none => <raise IndexError>`).  A target named `_` is
        not bound (reading it is rejected)."""
        tab = self.tables[dotted(st.value.value)]
        if not self.raises:
            raise Unsupported("a table lookup in a function that is configured not to raise")
        target = st.targets[0]
        if not (isinstance(target, ast.Tuple) and all(isinstance(x, ast.Name) for x in target.elts) and len(target.elts) == len(tab["cols"])):
            raise Unsupported("a table row must be unpacked into one name per column")
        if isinstance(st.value.slice, ast.Slice):
            raise Unsupported("slice of a table")
        idx = self.to_int(*self.expr(st.value.slice, env))
        err = self.raise_term(("const", "PyExc.indexError"), env)
        used = [(x.id, col) for x, col in zip(target.elts, tab["cols"]) if x.id != "_" and not (col is None and x.id in self.never_read)]
        if any(col is None for _, col in used):
            raise Unsupported("a column of the table that is not configured is read")
        if any(n in self.mapping or n in self.mutates for n, _ in used):
            raise Unsupported("a table row is unpacked into a parameter")
        if not used:                           # (`_` is never read: see term)
            return mk_ite(mk_lt(idx, ("const", "(" + tab["len"] + ")")), self.block(rest, env, k), err)

        def go(j, env):
            if j == len(used):
                return self.block(rest, env, k)
            name, (lean, t) = used[j]
            vid = self.new_id(self.lname(name))
            env2 = dict(env)
            env2[name] = V(("var", vid), t, False)
            return ("mopt", ("getq", ("const", lean), idx), vid, go(j + 1, env2), err)
        return go(0, env)

    def do_try(self, st, rest, env, k):
        """`try: A except <classes>: B` (one handler, no name, no else / finally).  The except clause is the configured
        predicate `catch` (one `try` per function): where A raises e (a table lookup, the call of an opaque callable) the
        value is `if catch e then <B; what follows the try> else <e is raised to the outside>`, in the environment of that
        place - what A assigned before stays assigned, as in Python."""
        if len(st.handlers) != 1 or st.orelse or st.finalbody:
            raise Unsupported("try with other than one except clause / with else / finally")
        h = st.handlers[0]
        if h.name is not None:
            raise Unsupported("except .. as name")
        if self.catch is None:
            raise Unsupported("try in a function without a configured except clause")
        outer = self.cx

        def after(e):                                              # what follows the try statement, outside of it
            here, self.cx = self.cx, outer
            try:
                return self.block(rest, e, k)
            finally:
                self.cx = here

        def handler(exc, e):                                       # runs in the context `outer`
            return mk_ite(("app", self.catch, [exc]), self.block(h.body, e, lambda e2: self.block(rest, e2, k)), self.raise_term(exc, e))
        self.cx = outer._replace(handler=(outer, handler))
        try:
            return self.block(st.body, env, after)
        finally:
            self.cx = outer

    def block(self, body, env, k):
        """the value of running `body` in `env` and then the continuation `k` (a function of the environment)"""
        for pos, st in enumerate(body):
            rest = body[pos + 1:]
            if self.skipped(st):
                continue
            site = self.raise_site(st)
            if site == "table":
                return self.do_table(st, rest, env, k)
            if site == "call" and isinstance(st, ast.Assign):
                target = st.targets[0]
                if not isinstance(target, ast.Name) or target.id in self.mapping or target.id in self.mutates:
                    raise Unsupported("the result of a call that may raise must be assigned to a local")
                return self.bind_call(st.value, env, self.lname(target.id),
                                      lambda v, t, e: self.block(rest, self.assign(target.id, v, t, e), k))
            if site == "call" and isinstance(st, ast.Expr):
                return self.bind_call(st.value, env, "_v", lambda v, t, e: self.block(rest, e, k))
            if site == "call" and isinstance(st, ast.Return):
                if not (self.mutates or self.ghosts):
                    return self.bind_call(st.value, env, "v", lambda v, t, e: self.answer(self.coerce(v, t, self.ret_tag())))
                return self.bind_call(st.value, env, "v", lambda v, t, e: self.answer(self.final_state(e, self.coerce(v, t, self.pyret))))
            hoisted = self.hoist_arguments(st, env)
            if hoisted is not None:
                return self.block(hoisted + rest, env, k)
            hs = self.helper_stmt(st)
            if hs is not None and hs[0] == "return" and (self.changes_state(hs[2]) or not self.joinable(hs[2])):
                # `return self.h(..)` for a helper that is no plain value is `t = self.h(..)`, `return t` for a fresh local t
                tmp = ast.Name(id="$r%d" % len(self.hints), ctx=ast.Load())
                first = ast.copy_location(ast.Assign(targets=[ast.Name(id=tmp.id, ctx=ast.Store())], value=hs[1]), st)
                second = ast.copy_location(ast.Return(value=tmp), st)
                ast.fix_missing_locations(first)
                ast.fix_missing_locations(second)
                return self.block([first, second] + rest, env, k)
            if hs is not None and hs[0] in ("expr", "assign") and not self.simple([st]):
                return self.inline_cps(hs[0], hs[1], hs[2], st, rest, env, k)
            if self.simple([st]):
                env = self.exec_simple([st], env)
                continue
            if isinstance(st, ast.If):
                call = st.test.operand if isinstance(st.test, ast.UnaryOp) and isinstance(st.test.op, ast.Not) else st.test
                if isinstance(call, ast.Call) and (dotted(call.func) in self.selfcalls or (hs is not None and (self.changes_state(hs[2]) or not self.joinable(hs[2])))):
                    # `if [not] self.m():` is `t = self.m()` and `if [not] t:` for a fresh local t
                    tmp = ast.Name(id="$t%d" % len(self.hints), ctx=ast.Load())
                    test = ast.UnaryOp(op=ast.Not(), operand=tmp) if call is not st.test else tmp
                    first = ast.copy_location(ast.Assign(targets=[ast.Name(id=tmp.id, ctx=ast.Store())], value=call), st)
                    second = ast.copy_location(ast.If(test=ast.copy_location(test, st), body=st.body, orelse=st.orelse), st)
                    ast.fix_missing_locations(first)
                    ast.fix_missing_locations(second)
                    return self.block([first, second] + rest, env, k)
                c = self.truth(st.test, env)
                return mk_ite(c, self.block(st.body + rest, env, k), self.block(st.orelse + rest, env, k))
            if isinstance(st, ast.Return) and self.retk is not None:       # inside a helper method: the helper returns
                value = st.value
                if value is None or (isinstance(value, ast.Constant) and value.value is None):
                    return self.retk(env, NONE, "none", None)
                if isinstance(value, ast.Call) and dotted(value.func) in self.selfcalls:
                    env, e, te = self.selfcall(value, env)
                    return self.retk(env, NONE if te is None else e, te or "none", None)
                return self.retk(env, *self.expr(value, env), value)
            if isinstance(st, ast.Return):
                if self.mutates or self.ghosts:
                    return self.answer(self.do_return(st.value, env))
                if st.value is None:
                    return self.answer(self.coerce(NONE, "none", self.ret_tag()))
                return self.answer(self.coerce(*self.expr(st.value, env), self.ret_tag()))
            if isinstance(st, ast.Break):
                if self.cx.brk is None:
                    raise Unsupported("break outside a loop")
                return self.cx.brk(env)
            if isinstance(st, ast.Continue):
                if self.cx.cont is None:
                    raise Unsupported("continue outside a loop")
                return self.cx.cont(env)
            if isinstance(st, ast.Try):
                return self.do_try(st, rest, env, k)
            if isinstance(st, ast.For):
                return self.do_for(st, rest, env, k)
            if isinstance(st, ast.While):
                return self.do_while(st, rest, env, k)
            if isinstance(st, ast.Expr) and isinstance(st.value, ast.Call):
                raise Unsupported(f"statement call {dotted(st.value.func)}")
            raise Unsupported(f"statement {type(st).__name__}")
        return k(env)

    # ---------------------------------------------------------------- loops
    def loop_state(self, state, env, run):
        """Translate a loop body whose state is the python names `state`.  run(body env, ids, types) answers the
        body term; it calls self.leaf(env) where an iteration ends.  The types of the state are those on entry,
        widened (int -> Option int, ...) or found (unbound on entry) from what an iteration leaves."""
        types = {d: (env[d].type if d in env else None) for d in state}
        for _ in range(6):
            ids = {d: self.new_id(self.lname(d)) for d in state}
            benv = dict(env)
            for d in state:
                benv[d] = V(("var", ids[d]), types[d], d not in env or env[d].unbound)
            seen = dict(types)
            saved = self.leaf

            def leaf(e, types=types, seen=seen, state=state):
                out = []
                for d in state:
                    v = e[d]
                    if types[d] is not None and v.type is not None:
                        try:
                            out.append(self.coerce(v.ir, v.type, types[d]))
                            continue
                        except Unsupported:
                            pass
                    seen[d] = unify(seen[d], v.type)
                    out.append(v.ir)
                return out
            self.leaf = leaf
            try:
                body = run(benv, ids, types)
            finally:
                self.leaf = saved
            if seen == types:
                dead = [d for d in state if types[d] is None]
                if dead:
                    # not bound on entry and not bound where an iteration ends (assigned only on paths that leave the
                    # function): not part of the state; it stays unbound after the loop
                    if any(d in env for d in dead):
                        raise Unsupported("a loop variable whose type cannot be found")
                    state[:] = [d for d in state if d not in dead]
                    types = {d: t for d, t in types.items() if d not in dead}
                    continue
                return ids, types, body
            types = seen
        raise Unsupported("the types of the loop state do not settle")

    def loop_coll(self, st, env):
        """(the collection as a term, type of an item) of `for x in <range(..) | list>`"""
        it = st.iter
        if isinstance(it, ast.Call) and dotted(it.func) == "range":
            if it.keywords or not 1 <= len(it.args) <= 2:
                raise Unsupported("range with a step")
            args = [self.to_int(*self.expr(a, env)) for a in it.args]
            lo, hi = (lit(0), args[0]) if len(args) == 1 else args
            return ("range", lo, hi if lo == lit(0) else mk_bin("-", hi, lo)), "int"      # start and number of items
        e, te = self.expr(it, env)
        if elem_type(te) is None:
            raise Unsupported("for over a non-list")
        return e, elem_type(te)

    def loop_names(self, body, tgt):
        """the state of a loop: the names its body may assign, in the order of first assignment in the function (the
        list L that an enclosing loop iterates over while changing its items is represented by its flag `$clr:L`)"""
        names = self.assigned(body)
        state = [d for d in self.order if d in names and d != tgt]
        return [("$clr:" + d if d in self.detached else d) for d in state]

    def do_for(self, st, rest, env, k):
        """`for x in coll: body`.  Without break / continue / return (and without an exception that can leave it): a
        left fold; else a loop with early exits (do_for_exit)."""
        if st.orelse:
            raise Unsupported("for-else")
        if not isinstance(st.target, ast.Name):
            raise Unsupported("for target")
        mut = self.changes_items(st, env)
        if (mut and self.at_end(rest, k) and self.pyret is None and not self.cx.levels and not self.in_while
                and any(isinstance(x, ast.Return) for x in ast.walk(st))):
            # the last statement of a function that answers None: a bare `return` at the level of this loop is `break` (a loop
            # that changes its items has no other way out: see `leave`)
            old, st = st, self.returns_to_breaks(st)
            self.following[id(st)] = self.following.get(id(old), [])
            for x in ast.walk(st):
                for field in ("body", "orelse", "finalbody"):
                    blk = getattr(x, field, None)
                    if isinstance(blk, list):
                        for j, y in enumerate(blk):
                            self.following[id(y)] = blk[j + 1:]
        L = dotted(st.iter)
        if L is not None and any(isinstance(x, ast.Call) and dotted(x.func) in (L + ".clear", L + ".append") for x in ast.walk(st)):
            # the list that is iterated over is changed in place by the body: python's iterator sees that.  Handled (for
            # `clear()`) by the translation of loops that change their items; rejected otherwise
            if not (L in self.mutates and elem_type(self.mutates[L][1]) in OBJECTS):
                raise Unsupported(f"{L} is changed in place by the loop that iterates over it")
            mut = True
        if not mut and not self.early_exit(st):
            cx = self.cx
            try:
                return self.do_for_fold(st, rest, env, k)
            except _NeedExit:                  # an exception can leave the loop
                if "fold" in cx.levels:
                    raise
                self.cx = cx
        if self.in_while:
            raise Unsupported("for loop with an early exit inside `while True`")
        return self.do_for_exit(st, rest, env, k, mut)

    def at_end(self, rest, k):
        """does nothing follow (the function ends after `rest`, which is empty up to logging)?"""
        return k is self.end_k and all(self.skipped(x) for x in rest)

    @staticmethod
    def returns_to_breaks(st):
        """a copy of the `for` statement in which the bare `return`s that are not inside an inner loop are `break`s"""
        st = copy.deepcopy(st)

        class Sub(ast.NodeTransformer):
            def visit_For(self, n):
                return n
            visit_While = visit_FunctionDef = visit_Lambda = visit_For

            def visit_Return(self, n):
                if n.value is None or (isinstance(n.value, ast.Constant) and n.value.value is None):
                    return ast.copy_location(ast.Break(), n)
                return n
        st.body = [Sub().visit(x) for x in st.body]
        ast.fix_missing_locations(st)
        return st

    @staticmethod
    def early_exit(st):
        return any(isinstance(x, (ast.Break, ast.Continue, ast.Return, ast.Try)) for s2 in st.body for x in ast.walk(s2))

    def changes_items(self, st, env):
        """does the body call an object-changing method on the loop variable (a loop over a list of objects)?"""
        d = dotted(st.iter)
        if d is None or d not in env or elem_type(env[d].type) not in OBJECTS:
            return False
        tag = elem_type(env[d].type)
        muts = {m for m, sig in self.objmethods.get(tag, {}).items() if sig[2].startswith("mut")}
        for x in ast.walk(st):
            f = dotted(x.func) if isinstance(x, ast.Call) else None
            if f and "." in f and f.rsplit(".", 1)[0] == st.target.id and f.rsplit(".", 1)[1] in muts:
                return True
        return False

    def do_for_fold(self, st, rest, env, k):
        """`for x in coll: body` without break / continue / return: a left fold.  State: the names assigned in the
        body (first-assignment order of the function), pruned afterwards to those that are needed."""
        tgt = st.target.id
        coll, ity = self.loop_coll(st, env)
        state = self.loop_names(st.body, tgt)
        item = self.new_id(self.lname(tgt))

        def run(benv, ids, types):
            benv[tgt] = V(("var", item), ity, False)
            leaf, was = self.leaf, self.cx
            self.cx = Cx(was.levels + ("fold",), None, None, was.handler)
            self.positive.append(coll[2] if coll[0] == "range" else None)
            self.readonly_items.append(tgt)
            try:
                return self.block(st.body, benv, lambda e: ("yield", leaf(e)))
            finally:
                self.cx = was
                self.positive.pop()
                self.readonly_items.pop()
        ids, types, body = self.loop_state(state, env, run)
        env2 = dict(env)
        env2.pop(tgt, None)                    # python leaves the last item (or nothing) in it: reading it is rejected
        for x in ast.walk(st):                 # ... and so for the variables of inner loops
            if isinstance(x, ast.For) and isinstance(x.target, ast.Name):
                env2.pop(x.target.id, None)
        if not state:
            return self.block(rest, env2, k)
        outs = [self.new_id(self.lname(d)) for d in state]
        inits = []
        for d, o in zip(state, outs):
            if d in env:
                inits.append(self.coerce(env[d].ir, env[d].type, types[d]))
            else:
                inits.append(DEFAULT_IR[types[d]])
            env2[d] = V(("var", o), types[d], d not in env or env[d].unbound)
        return ("letfold", outs, [ids[d] for d in state], item, [types[d] for d in state], body, inits, coll,
                self.block(rest, env2, k), ity)

    def do_for_exit(self, st, rest, env, k, mut):
        """`for x in coll: body` with break / continue / return, or with an exception that can leave it: the loop
        combinator `GenRt.forLoop coll init (fun state x => body) (fun state => rest)`.  The body answers a `Step`:
        `next state` where an iteration ends (or `continue`), `brk state` for `break`, `ret a` where the FUNCTION answers a.

        mut: the body changes the items of the list attribute L it iterates over (`reader.read(data)`):
        `GenRt.forLoopMut`.  An iteration also answers its item as it is now, and what follows the loop gets the list
        with the items visited so far replaced.  Inside the body L itself is not available (reading / re-binding it is
        rejected), except `L.clear()`: it sets the flag `$clr:L` of the state; Python's list iterator then finds the
        list empty, so an iteration that ends with the flag set ends the loop, and L is `[]` afterwards."""
        tgt = st.target.id
        L = dotted(st.iter)
        coll, ity = self.loop_coll(st, env)
        if mut:
            if L not in self.mutates or L in self.detached:
                raise Unsupported(f"the loop changes the items of {L}, which is not an attribute of the state")
            env = self.assign("$clr:" + L, FALSE, "bool", env)
            self.detached[L] = tgt
            self.mutloops.append((tgt, L, st))
        try:
            state = self.loop_names(st.body, tgt)
            if mut and "$clr:" + L not in state:
                state.append("$clr:" + L)
            item = self.new_id(self.lname(tgt))

            def run(benv, ids, types):
                benv[tgt] = V(("var", item), ity, False)
                leaf, was = self.leaf, self.cx
                it = (lambda e: e[tgt].ir) if mut else (lambda e: None)

                def nxt(e):
                    if mut:                    # the list was cleared: the iterator is exhausted
                        return mk_ite(e["$clr:" + L].ir, ("brk", leaf(e), it(e)), ("next", leaf(e), it(e)))
                    return ("next", leaf(e), None)
                self.cx = Cx(was.levels + ("mut" if mut else "exit",), lambda e: ("brk", leaf(e), it(e)), nxt, was.handler)
                self.positive.append(coll[2] if coll[0] == "range" else None)
                self.readonly_items.append(None if mut else tgt)
                try:
                    return self.block(st.body, benv, nxt)
                finally:
                    self.cx = was
                    self.positive.pop()
                    self.readonly_items.pop()
            ids, types, body = self.loop_state(state, env, run)
        finally:
            if mut:
                del self.detached[L]
                self.mutloops.pop()
        env2 = dict(env)
        env2.pop(tgt, None)
        for x in ast.walk(st):
            if isinstance(x, ast.For) and isinstance(x.target, ast.Name):
                env2.pop(x.target.id, None)
        outs = [self.new_id(self.lname(d)) for d in state]
        inits = []
        for d, o in zip(state, outs):
            if d in env:
                inits.append(self.coerce(env[d].ir, env[d].type, types[d]))
            else:
                inits.append(DEFAULT_IR[types[d]])
            env2[d] = V(("var", o), types[d], d not in env or env[d].unbound)
        lst = None
        if mut:
            lst = self.new_id(self.lname(L))
            env2[L] = V(mk_ite(env2["$clr:" + L].ir, nil_of(env[L].type), ("var", lst)), env[L].type, False)
            del env2["$clr:" + L]
        return ("letloop", outs, [ids[d] for d in state], item, [types[d] for d in state], body, inits, coll,
                self.block(rest, env2, k), lst, ity)

    @staticmethod
    def own_exits(body):
        """the `break` / `continue` statements that belong to the loop with this body (not to a loop inside it)"""
        res = []

        def visit(x):
            if isinstance(x, (ast.Break, ast.Continue)):
                res.append(x)
            if isinstance(x, (ast.For, ast.While, ast.FunctionDef, ast.Lambda)):
                return
            for c in ast.iter_child_nodes(x):
                visit(c)
        for st in body:
            visit(st)
        return res

    def do_while(self, st, rest, env, k):
        """`while c:` / `while True:`.  The loop becomes an auxiliary definition by recursion on a fuel argument:
        `if c then <body; the recursive call> else <what follows the loop>`; `continue` is the recursive call, `break` is
        what follows the loop, a `return` in the body is a return of the function, as in Python.  (`while True:` without
        `break`: what follows is never reached, and is not translated.)  The state is ALL locals of the function (and
        the mutated attributes), in order of first assignment (a local that is not bound yet is passed as the default of
        its type; it cannot be read before it is assigned).  Python's loop has no bound: when the fuel runs out the
        auxiliary definition answers its extra argument `oof`, and the equivalence theorem is stated for every `oof` and
        every large enough fuel - so it also proves that the fuel the definition grants (`Fn.fuel`, a stated measure
        of the state on entry) is never used up."""
        always = isinstance(st.test, ast.Constant) and st.test.value is True
        if st.orelse:
            raise Unsupported("while-else")
        if any(isinstance(x, ast.While) for s2 in st.body for x in ast.walk(s2)):
            raise Unsupported("nested while")
        if self.fuel is None:
            raise Unsupported("`while` in a function without a configured fuel")
        if self.cx.levels or self.in_while:
            raise Unsupported("`while` inside another loop")
        if self.cx.handler is not None:
            raise Unsupported("`while` inside try")
        exits = self.own_exits(st.body)
        has_break = any(isinstance(x, ast.Break) for x in exits)
        legacy = always and not has_break and self.loop_state_all
        if legacy:
            state = [d for d in self.order if d not in self.loop_targets]
        else:
            # the names the body may assign (the others keep their values, which are terms over the parameters of the
            # function); components that nothing needs are pruned below
            names = self.assigned(st.body)
            state = [d for d in self.order if d in names and d not in self.loop_targets]
            for d, v in env.items():
                if d not in state and uses(v.ir):
                    raise Unsupported(f"`while`: the value of {d} depends on a bound variable")
        name = f"{self.name}.loop{len(self.aux) + 1}"
        pargs = " ".join(n for n, _ in self.params)
        outer = self.cx

        def run(benv, ids, types):
            leaf = self.leaf

            def again(e):
                return ("app" if legacy else "again", f"{name} {pargs} oof fuel", leaf(e))

            def after(e):                      # what follows the loop (outside of it)
                if always and not has_break:
                    raise Unsupported("internal: unreachable")
                here, was_in = self.cx, self.in_while
                self.cx, self.in_while = outer, False
                try:
                    return self.block(rest, e, k)
                finally:
                    self.cx, self.in_while = here, was_in
            self.in_while = True
            self.cx = Cx((), after, again, None)
            try:
                body = self.block(st.body, benv, again)
                if always:
                    return body
                return mk_ite(self.truth(st.test, benv), body, after(benv))
            finally:
                self.in_while = False
                self.cx = outer
        ids, types, body = self.loop_state(state, env, run)
        if not legacy:
            # drop the components of the state that nothing reads (temporaries of one iteration, dead stores)
            body = self.prune(body)
            keep = []
            while True:
                need = uses(self.keep_again(body, keep))
                more = [j for j, d in enumerate(state) if ids[d] in need and j not in keep]
                if not more:
                    break
                keep = sorted(keep + more)
            body = self.keep_again(body, keep)
            state = [state[j] for j in keep]
        head = [f"def {name} " + " ".join(f"({n} : {t})" for n, t in self.params) + f" (oof : {self.ret}) : Nat"
                + "".join(" → " + LEAN_TY[types[d]] for d in state) + f" → {self.ret}",
                "  | 0" + "".join(", _" for _ in state) + " => oof"]
        self.aux.append((head, [ids[d] for d in state], body))
        args = [self.coerce(env[d].ir, env[d].type, types[d]) if d in env else DEFAULT_IR[types[d]] for d in state]
        if self.mutates or self.ghosts or self.raises:
            oof = f"(default : {self.ret})"
        else:
            oof = {"optint": "(none : Option Nat)", "optbool": "(none : Option Bool)", "optlist": "(none : Option (List Nat))",
                   "int": "0", "bool": "false", "list": "([] : List Nat)"}[self.ret_tag()]
        return ("app", f"{name} {pargs} {oof} ({self.fuel})", args)

    def keep_again(self, body, keep):
        """the body of a `while` loop with only the components `keep` of the state passed on by its recursive calls"""
        t = body[0]
        if t == "again":
            return ("again", body[1], [body[2][j] for j in keep])
        if t == "ite":
            return mk_ite(body[1], self.keep_again(body[2], keep), self.keep_again(body[3], keep))
        if t == "mopt":
            return body[:3] + (self.keep_again(body[3], keep), self.keep_again(body[4], keep))
        if t == "mexc":
            return body[:3] + (self.keep_again(body[3], keep), body[4], self.keep_again(body[5], keep))
        if t in ("letfold", "letloop"):        # (a recursive call cannot occur inside the body of an inner loop)
            return body[:8] + (self.keep_again(body[8], keep),) + body[9:]
        return body

    leaf = None

    # ---------------------------------------------------------------- dead state
    def project(self, body, keep, depth=0):
        """the body of a fold / loop with only the components `keep` of its state (depth: inside that many inner loops
        with early exits, whose own `next` / `brk` are not ours, and whose `ret` carries a value of the level outside)"""
        t = body[0]
        if t == "yield":
            return ("yield", [body[1][j] for j in keep]) if depth == 0 else body
        if t in ("next", "brk"):
            return (t, [body[1][j] for j in keep], body[2]) if depth == 0 else body
        if t == "retn":
            return body if depth == 0 else ("retn", self.project(body[1], keep, depth - 1))
        if t == "ite":
            return mk_ite(body[1], self.project(body[2], keep, depth), self.project(body[3], keep, depth))
        if t == "mopt":
            return body[:3] + (self.project(body[3], keep, depth), self.project(body[4], keep, depth))
        if t == "mexc":
            return body[:3] + (self.project(body[3], keep, depth), body[4], self.project(body[5], keep, depth))
        if t == "letfold":                     # (the body of an inner fold has no exits)
            return body[:8] + (self.project(body[8], keep, depth),) + body[9:]
        if t == "letloop":
            return body[:5] + (self.project(body[5], keep, depth + 1),) + body[6:8] + (self.project(body[8], keep, depth),) + body[9:]
        if depth > 0:
            return body                        # a value of the function (inside `ret`)
        raise Unsupported("internal: fold body")

    def prune(self, e):
        """drop the components of fold / loop states that nothing needs (and folds that nothing needs)"""
        t = e[0]
        if t == "ite":
            return mk_ite(e[1], self.prune(e[2]), self.prune(e[3]))
        if t == "mopt":
            return e[:3] + (self.prune(e[3]), self.prune(e[4]))
        if t == "mexc":
            return e[:3] + (self.prune(e[3]), e[4], self.prune(e[5]))
        if t == "retn":
            return ("retn", self.prune(e[1]))
        if t not in ("letfold", "letloop"):
            return e
        outs, ins, item, types, body, inits, coll, rest = e[1:9]
        rest = self.prune(rest)
        used = uses(rest)
        keep = [j for j, o in enumerate(outs) if o in used]
        while True:
            pbody = self.prune(self.project(body, keep))
            need = uses(pbody)
            more = [j for j, i in enumerate(ins) if i in need and j not in keep]
            if not more:
                break
            keep = sorted(keep + more)
        if not keep and t == "letfold":
            return rest
        pick = lambda xs: [xs[j] for j in keep]
        return (t, pick(outs), pick(ins), item, pick(types), pbody, pick(inits), coll, rest) + e[9:]

    # ---------------------------------------------------------------- printing
    def name_binders(self, e, taken, names):
        """readable names for the binders of a statement-position term, unique in the definition"""
        def fresh(hint):
            n, i = hint, 0
            while n in taken:
                i += 1
                n = f"{hint}_{i}"
            taken.add(n)
            return n
        t = e[0]
        if t == "ite":
            self.name_binders(e[2], taken, names)
            self.name_binders(e[3], taken, names)
        if t == "retn":
            self.name_binders(e[1], taken, names)
        if t == "mopt":
            names[e[2]] = fresh(self.hints[e[2]])
            self.name_binders(e[3], taken, names)
            self.name_binders(e[4], taken, names)
        if t == "mexc":
            names[e[2]] = fresh(self.hints[e[2]]) if e[2] in uses(e[3]) else "_"
            names[e[4]] = fresh(self.hints[e[4]])
            self.name_binders(e[3], taken, names)
            self.name_binders(e[5], taken, names)
        if t not in ("letfold", "letloop"):
            return
        outs, ins, item, types, body, inits, coll, rest = e[1:9]
        n = len(outs)
        ub = uses(body)
        names[item] = fresh(self.hints[item]) if item in ub else "_"
        if t == "letloop" and e[9] is not None:
            names[e[9]] = fresh(self.hints[e[9]])
        if n == 0:
            pass
        elif n == 1:
            names[outs[0]] = fresh(self.hints[outs[0]])
            names[ins[0]] = fresh(self.hints[ins[0]]) if ins[0] in ub else "_"
        else:
            r, s = fresh("r"), fresh("s")
            names[("tuple", ins[0])], names[("tuple", outs[0])] = s, r
            for j in range(n):
                names[ins[j]] = s + proj_path(j, n)
                names[outs[j]] = r + proj_path(j, n)
        self.name_binders(body, taken, names)
        self.name_binders(rest, taken, names)

    def name_lambdas(self, e, taken, names):
        """names for the variables bound inside expressions (`l.any (fun x => ..)`)"""
        if e[0] == "anyl" and e[1] not in names:
            n, i = e[3], 0
            while n in taken:
                i += 1
                n = f"{e[3]}_{i}"
            taken.add(n)
            names[e[1]] = n
        for c in children(e):
            self.name_lambdas(c, taken, names)

    def lines(self, e, names, ind):
        """Lean text (lines) of a statement-position term"""
        pad = "  " * ind
        t = e[0]
        if t in ("letfold", "letloop"):
            outs, ins, item, types, body, inits, coll, rest = e[1:9]
            n = len(outs)
            ty = " × ".join(LEAN_TY[x] for x in types) if n else "Unit"
            ity = LEAN_TY[e[-1]]
            res = []
            if n == 0:
                sname = rname = "_"
            elif n == 1:
                sname, rname = names[ins[0]], names[outs[0]]
            else:
                sname, rname = names[("tuple", ins[0])], names[("tuple", outs[0])]
                res.append(f"{pad}-- {sname}, {rname} = (" + ", ".join(self.hints[i] for i in ins) + ")")
            blines = self.lines(body, names, ind + 2)
            init = show(("tuple", inits), names) if n else "()"
            init = init if atomic(init) else "(" + init + ")"
            if t == "letloop":
                # GenRt.forLoop / forLoopMut <list> <initial state> (fun state item => body) (fun [list] state => rest)
                mut = e[9] is not None
                res.append(f"{pad}(Amshan.GenRt.forLoop{'Mut' if mut else ''} {show(coll, names)} {init} (fun ({sname} : {ty}) ({names[item]} : {ity}) =>")
                res += blines
                res.append(f"{pad}  ) (fun " + (f"({names[e[9]]} : List {ity if atomic(ity) else '(' + ity + ')'}) " if mut else "") + f"({rname} : {ty}) =>")
                rl = self.lines(rest, names, ind + 2)
                return res + rl[:-1] + [rl[-1] + "))"]
            head = f"{pad}let {rname} := List.foldl (fun ({sname} : {ty}) ({names[item]} : {ity}) =>"
            tail = f") {init} {show(coll, names)}"
            if len(blines) == 1 and len(head) + len(blines[0].strip()) + len(tail) < 150:
                res.append(f"{head} {blines[0].strip()}{tail}")
            else:
                res += [head] + blines[:-1] + [blines[-1] + tail]
            return res + self.lines(rest, names, ind)
        if t == "ite" and (size(e) > 40 or self.has_fold(e)):
            return ([f"{pad}if {show(e[1], names)} then"] + self.lines(e[2], names, ind + 1)
                    + [f"{pad}else"] + self.lines(e[3], names, ind + 1))
        if t == "mopt":
            some = self.lines(e[3], names, ind + 2)
            none = self.lines(e[4], names, ind + 2)
            return ([f"{pad}(match {show(e[1], names)} with", f"{pad}  | some {names[e[2]]} =>"] + some
                    + [f"{pad}  | none =>"] + none[:-1] + [none[-1] + ")"])
        if t == "mexc":
            ok = self.lines(e[3], names, ind + 2)
            err = self.lines(e[5], names, ind + 2)
            return ([f"{pad}(match {show(e[1], names)} with", f"{pad}  | Except.ok {names[e[2]]} =>"] + ok
                    + [f"{pad}  | Except.error {names[e[4]]} =>"] + err[:-1] + [err[-1] + ")"])
        if t == "retn" and self.has_fold(e[1]):
            inner = self.lines(e[1], names, ind + 1)
            return [f"{pad}(Amshan.GenRt.Step.ret ("] + inner[:-1] + [inner[-1] + "))"]
        return [pad + show(e, names)]

    def has_fold(self, e):
        """must the term be printed as a block (it holds a loop or a match)?"""
        return (e[0] in ("letfold", "letloop", "mopt", "mexc") or (e[0] == "ite" and (self.has_fold(e[2]) or self.has_fold(e[3])))
                or (e[0] == "retn" and self.has_fold(e[1])))

    def reserved(self):
        words = {"s", "r", "fuel", "oof", "some", "none", "true", "false", "max", "min", "decide", "List", "Nat", "Bool",
                 "Option", "end", "at", "from", "do", "then", "else", "fun", "let", "if", "in", "with", "match", "have", "show",
                 "by", "open", "def", "theorem", "instance", "structure", "class", "where", "namespace", "section", "import",
                 "mut", "for", "return", "Type", "Prop", "Sort", "using", "variable", "universe", "example", "local", "private"}
        for n, _ in self.params:
            words.add(n)
        for m in (self.mapping, self.calls):
            for lean, _ in m.values():
                words.update(re.findall(r"[A-Za-z_]\w*", lean))
        for lean, _, _ in self.callfns.values():
            words.update(re.findall(r"[A-Za-z_]\w*", lean))
        for tab in self.tables.values():
            words.update(re.findall(r"[A-Za-z_]\w*", tab["len"] + " " + " ".join(c[0] for c in tab["cols"] if c)))
        words.update(re.findall(r"[A-Za-z_]\w*", (self.catch or "") + " " + self.tparams))
        return words

    def translate(self):
        if isinstance(self.obj, _Missing):
            raise Unsupported(f"{self.obj.path} does not exist in the source")
        for g in self.depends:
            if g.failed or isinstance(g.obj, _Missing):
                raise Unsupported(f"the function {g.name}, which the configuration of this one uses, is not translatable")
        return self.render(self.term(parse_function(self.obj)))

    def term(self, fn):
        """the term of the function definition `fn` (an ast.FunctionDef); loops of `while True` go to self.aux"""
        if not isinstance(fn, (ast.FunctionDef,)):
            raise Unsupported("not a plain function")
        if fn.args.vararg or fn.args.kwarg or fn.args.kwonlyargs or fn.args.defaults:
            raise Unsupported("parameters other than plain positional ones")
        env = {}
        for py, (lean, t) in self.mutates.items():
            entry = mk_proj(("const", self.record[1]), lean) if self.record else ("const", lean + "0")
            env[py] = V(entry, t, False)
        for g in self.ghosts:
            gt = self.ghost_types[g]
            env["$" + g] = V(FALSE if gt == "bool" else nil_of(gt), gt, False)
        for py, (lean, t) in self.mapping.items():
            if "." not in py and py != "self":         # a python parameter: may be assigned
                env[py] = V(("const", lean), t, False)
        for a in fn.args.args:
            if a.arg != "self" and a.arg not in env:
                raise Unsupported(f"parameter {a.arg} is not configured")
        fn = copy.deepcopy(fn)                 # (read-only aliases are resolved in place)
        self.helper_cache, self.memo = {}, {}
        self.inline_generators(fn, self.obj)
        self.drop_log_temporaries(fn)
        self.rotate_loops(fn)
        self.retk, self.in_helper, self.frozen, self.scope, self.inlining, self.assigning = None, False, set(), None, [], []
        self.resolve_aliases(fn)
        # the helper methods (of the same class, not named by the configuration) that the function uses, directly or through
        # each other: their statements are translated where they are called, so what is found by looking at the statements of
        # the function (the names that are changed in place, the statements that follow a statement, ...) is found in them too
        helpers = self.collect_helpers(fn)
        nodes = [x for f in [fn] + [h.fn for h in helpers] for x in ast.walk(f)]
        self.order = self.assigned(fn.body)
        for h in helpers:
            self.order += [d for d in self.assigned(h.fn.body) if d not in self.order]
        self.order = [d for d in self.mutates if d in self.order] + [d for d in self.order if d not in self.mutates]
        self.loop_targets = {x.target.id for x in nodes if isinstance(x, ast.For) and isinstance(x.target, ast.Name)}
        # locals that nothing reads (a column of a table that the function does not use may be unpacked into such a name, as into `_`)
        self.never_read = ({x.id for x in nodes if isinstance(x, ast.Name) and isinstance(x.ctx, ast.Store)}
                           - {x.id for x in nodes if isinstance(x, ast.Name) and isinstance(x.ctx, ast.Load)})
        self.appends = any(isinstance(x, ast.Call) and (dotted(x.func) or "").endswith((".append", ".clear", ".extend")) for x in nodes)
        self.cur_stmt = None
        # the lists that are changed in place: a second name for one of them is rejected (every group of names for one
        # list that holds such a name is formed by an assignment that mentions it)
        self.appended = {dotted(x.func).rsplit(".", 1)[0] for x in nodes
                         if isinstance(x, ast.Call) and (dotted(x.func) or "").endswith((".append", ".clear", ".extend"))}
        self.appended |= {dotted(x.target) for x in nodes if isinstance(x, ast.AugAssign) and isinstance(x.op, ast.Add) and dotted(x.target)}
        self.appended |= {dotted(self.del_prefix(x)[0]) for x in nodes if self.del_prefix(x) is not None}
        if any(isinstance(x, ast.Call) and dotted(x.func) in self.selfcalls for x in nodes):
            self.appended |= {d for d, (_, t) in self.mutates.items() if elem_type(t) is not None}      # (by a callee)
        # may an object be changed in place (by a method of it, or by another method of `self`)?
        muts = {"." + m for ms in self.objmethods.values() for m, sig in ms.items() if sig[2].startswith("mut")}
        self.inplace = any(isinstance(x, ast.Call) and ((dotted(x.func) or "") in self.selfcalls or (dotted(x.func) or "").endswith(tuple(muts) or ("\0",)))
                           for x in nodes)
        self.cx = Cx((), None, None, None)
        self.detached, self.mutloops, self.positive, self.readonly_items = {}, [], [], []
        self.following = {}                    # id of a statement -> the statements after it in its block
        for x in nodes:
            for field in ("body", "orelse", "finalbody"):
                blk = getattr(x, field, None)
                if isinstance(blk, list):
                    for j, y in enumerate(blk):
                        self.following[id(y)] = blk[j + 1:]
        if any(isinstance(x, ast.Name) and x.id == "_" and isinstance(x.ctx, ast.Load) for x in nodes):
            raise Unsupported("the name _ is read")
        if sum(isinstance(x, ast.Try) for x in nodes) > 1:
            raise Unsupported("more than one try statement (the configured except clause stands for one)")
        for f in self.once:
            sites = [x for x in ast.walk(fn) if isinstance(x, (ast.Call, ast.Attribute)) and dotted(x) == f]
            loops = [y for x in ast.walk(fn) if isinstance(x, (ast.For, ast.While)) for y in ast.walk(x) if dotted(y) == f]
            if len(sites) > 1 or loops:
                raise Unsupported(f"{f} is used more than once")
            if any(dotted(x) == f for h in helpers for x in ast.walk(h.fn)):
                raise Unsupported(f"{f} (to be used once) is used in a helper method")

        def end(e):
            if self.mutates or self.ghosts:
                if self.pyret is not None and self.pyret not in OPT_BASE:
                    raise Unsupported("the function can end without a return")
                return self.answer(self.do_return(None, e))
            if self.ret_tag() in OPT_BASE:             # falling off the end answers None
                return self.answer(NONE)
            raise Unsupported("the function can end without a return")
        self.end_k = end
        ir = self.prune(self.block(fn.body, env, end))
        if size(ir) > MAX_SIZE:
            raise Unsupported("the translation is too large")
        self.aux = [(head, ids, self.prune(body)) for head, ids, body in self.aux]
        return ir

    def render(self, ir):
        """Lean text of the definition (and of its auxiliary loops)"""
        out = []
        taken = self.reserved()
        for head, ids, body in self.aux:
            names = {}
            ub = uses(body)
            for i in ids:
                n = self.hints[i]
                while n in taken:
                    n += "'"
                taken.add(n)
                names[i] = n if i in ub else "_" + n
            self.name_binders(body, taken, names)
            self.name_lambdas(body, taken, names)
            out.append("\n".join(head + ["  | fuel + 1" + "".join(", " + names[i] for i in ids) + " =>"] + self.lines(body, names, 2)))
        names = {}
        self.name_binders(ir, taken, names)
        self.name_lambdas(ir, taken, names)
        head = f"def {self.name} " + (self.tparams + " " if self.tparams else "") + " ".join(f"({n} : {t})" for n, t in self.params) + f" : {self.ret} :="
        out.append("\n".join([head] + self.lines(ir, names, 1)))
        return "\n\n".join(out)


def generate(han):
    """han: dict of imported modules. Returns ({file name: lean text}, problems)."""
    # attribute look-ups through _Safe never raise: a function the changed source no longer has becomes a _Missing
    # object, whose translation is reported as a problem (and a stub) for that one function only
    ffc, hdlc, dlde, mc = (_Safe(han[k], k) for k in ("fastframecheck", "hdlc", "dlde", "meter_connection"))
    # the `__init__` of the classes whose private attributes the configuration below names, as the configuration knows them: the
    # attributes in order, each with the kind of its initial value (see `attr_renames`: a renamed private attribute is found by its role)
    _RENAMES.clear()
    INIT_ROLES.clear()
    INIT_ROLES.update({
        ("han.fastframecheck", "FastFrameCheckSequence16"): [("_crc_value", "other")],
        ("han.hdlc", "HdlcFrameHeader"): [("_frame", "param:1"), ("_control_position", "none"), ("_is_header_good", "none")],
        ("han.hdlc", "HdlcFrame"): [("_frame_data", "bytes"), ("_ffc", "call:fastframecheck.FastFrameCheckSequence16"), ("_escape_next", "bool:False"),
                                    ("_header", "call:HdlcFrameHeader")],
        ("han.hdlc", "HdlcFrameReader"): [("_use_octet_stuffing", "param:1"), ("_use_abort_sequence", "param:2"), ("_unescape_next", "bool:False"),
                                          ("_buffer", "call:_ReaderBuffer"), ("_raw_frame_data", "bytes"), ("_frame", "none")],
        ("han.hdlc", "_ReaderBuffer"): [("_buffer", "bytes"), ("_buffer_pos", "int:0")],
        ("han.dlde", "_ReaderBuffer"): [("_buffer", "bytes"), ("_buffer_pos", "int:0")],
        ("han.dlde", "ModeDReader"): [("_buffer", "call:_ReaderBuffer"), ("_raw_data", "bytes"), ("_is_int_hunt_mode", "bool:True")],
        ("han.autodecoder", "AutoDecoder"): [("__previous_success", "none")],
    })
    if "common" not in han:
        han = dict(han, common=__import__("importlib").import_module("han.common"))
    F = ffc.FastFrameCheckSequence16
    H = hdlc.HdlcFrameHeader
    HF = hdlc.HdlcFrame
    tbl = {"FastFrameCheckSequence16.fast_frame_check_crc_table": ("Amshan.Gen.fcsTable", "list"),
           "FastFrameCheckSequence16.INIT_FCS_16": ("Amshan.Gen.fcsInit", "int"),
           "self.INIT_FCS_16": ("Amshan.Gen.fcsInit", "int"), "self.GOOD_FCS_16": ("Amshan.Gen.fcsGood", "int")}
    frame = {"self._frame": ("data", "list"), "self._frame.as_bytes": ("data", "list")}
    hdr = {**frame, "self._control_position": ("controlPosition", "optint")}                      # inside HdlcFrameHeader
    adr = {"self._get_address": ("hdlcGetAddress data", ["int"], "optlist")}
    frm = {"self": ("data", "list"), "self._frame_data": ("data", "list"), "self.as_bytes": ("data", "list")}                         # inside HdlcFrame (len(self))
    infopos = {"self._header.information_position": ("(hdlcInformationPosition controlPosition)", "optint")}
    fns = [
        Fn("computeFcsTable", ffc._compute_fcs_16_crc_table, [], "List Nat"),
        Fn("fcsNext", F._next, [("crc", "Nat"), ("byte", "Nat")], "Nat", mapping={**tbl, "crc": ("crc", "int"), "byte": ("byte", "int")}),
        Fn("fcsChecksum", unwrap_fn(F.checksum), [("crcValue", "Nat")], "Nat", mapping={"self._crc_value": ("crcValue", "int")}),
        Fn("fcsIsGood", unwrap_fn(F.is_good), [("crcValue", "Nat")], "Bool", mapping={**tbl, "self._crc_value": ("crcValue", "int")}),
        Fn("fcsComputeChecksum", F.compute_checksum, [("data", "List Nat"), ("start", "Nat"), ("length", "Nat")], "Nat",
           mapping={**tbl, "data": ("data", "list"), "start": ("start", "int"), "length": ("length", "int")},
           callfns={"FastFrameCheckSequence16._next": ("fcsNext", ["int", "int"], "int")}),
        Fn("backoffFailure", mc.ExponentialBackOff.failure, [("delay0", "Nat")], "Nat", mutates={"self._delay": "delay"}),
        Fn("backoffReset", mc.ExponentialBackOff.reset, [("delay0", "Nat")], "Nat", mutates={"self._delay": "delay"}),
        Fn("backoffCurrent", unwrap_fn(mc.ExponentialBackOff.current_delay_sec), [("delay", "Nat"), ("maxDelay", "Nat")], "Nat",
           mapping={"self._delay": ("delay", "int"), "self.max_delay": ("maxDelay", "int")}),
        Fn("getBackOffTime", mc.ConnectionManager._get_back_off_time, [("currentDelay", "Nat"), ("sleepFlag", "Bool"), ("sleepSec", "Nat")], "Nat",
           mapping={"self.back_off_connect_error.current_delay_sec": ("currentDelay", "int"),
                    "self._connection_lost_sleep_before_reconnect": ("sleepFlag", "bool"),
                    "self.connection_lost_back_off_sleep_sec": ("sleepSec", "int")}),
        Fn("p1CalculateCrc16", dlde.DataReadout._calculate_crc16, [("readout", "List Nat"), ("endPos", "Nat")], "Nat",
           mapping={"self._readout": ("readout", "list"), "self._end_pos": ("endPos", "int")}),
        Fn("hdlcFrameFormat", unwrap_fn(H.frame_format), [("data", "List Nat")], "Option Nat", mapping=frame),
        Fn("hdlcFrameFormatType", unwrap_fn(H.frame_format_type), [("data", "List Nat")], "Option Nat",
           mapping=frame, calls={"self.frame_format": ("(hdlcFrameFormat data)", "optint")}),
        Fn("hdlcSegmentation", unwrap_fn(H.segmentation), [("data", "List Nat")], "Option Bool",
           mapping=frame, calls={"self.frame_format": ("(hdlcFrameFormat data)", "optint")}),
        Fn("hdlcFrameLength", unwrap_fn(H.frame_length), [("data", "List Nat")], "Option Nat",
           mapping=frame, calls={"self.frame_format": ("(hdlcFrameFormat data)", "optint")}),
        Fn("hdlcInformationPosition", unwrap_fn(H.information_position), [("controlPosition", "Option Nat")], "Option Nat",
           mapping={"self._control_position": ("controlPosition", "optint")}),
        # header: fields at the cached control position
        Fn("hdlcControl", unwrap_fn(H.control), [("data", "List Nat"), ("controlPosition", "Option Nat")], "Option Nat", mapping=hdr),
        Fn("hdlcHeaderCheckSequence", unwrap_fn(H.header_check_sequence), [("data", "List Nat"), ("controlPosition", "Option Nat")], "Option Nat",
           mapping=hdr),
        # header: addresses (`while True` loop; fuel len(frame) + 1, proved never to run out)
        Fn("hdlcGetAddress", H._get_address, [("data", "List Nat"), ("position", "Nat")], "Option (List Nat)",
           mapping={**frame, "position": ("position", "int")}, fuel="(data).length + 1", loop_state="all"),
        Fn("hdlcDestinationAddress", unwrap_fn(H.destination_address), [("data", "List Nat")], "Option (List Nat)", mapping=frame, callfns=adr),
        Fn("hdlcSourceAddress", unwrap_fn(H.source_address), [("data", "List Nat")], "Option (List Nat)", mapping=frame, callfns=adr,
           calls={"self.destination_address": ("(hdlcDestinationAddress data)", "optlist")}),
        Fn("hdlcGetControlFieldPosition", H._get_control_field_position, [("data", "List Nat")], "Option Nat", mapping=frame,
           calls={"self.destination_address": ("(hdlcDestinationAddress data)", "optlist"),
                  "self.source_address": ("(hdlcSourceAddress data)", "optlist")}),
        Fn("hdlcHeaderUpdate", H.update, [("data", "List Nat"), ("isGoodFfc", "Bool"), ("controlPosition0", "Option Nat"), ("isHeaderGood0", "Option Bool")],
           "Option Nat × Option Bool", mapping={**frame, "self._frame.is_good_ffc": ("isGoodFfc", "bool")},
           mutates={"self._control_position": ("controlPosition", "optint"), "self._is_header_good": ("isHeaderGood", "optbool")},
           callfns={"self._get_control_field_position": ("hdlcGetControlFieldPosition data", [], "optint")}),
        # frame
        Fn("hdlcIsGoodFfc", unwrap_fn(HF.is_good_ffc), [("ffcIsGood", "Bool")], "Bool", mapping={"self._ffc.is_good": ("ffcIsGood", "bool")}),
        Fn("hdlcIsExpectedLength", unwrap_fn(HF.is_expected_length), [("data", "List Nat")], "Bool", mapping=frm,
           calls={"self._header.frame_length": ("(hdlcFrameLength data)", "optint")}),
        Fn("hdlcFrameCheckSequence", unwrap_fn(HF.frame_check_sequence), [("data", "List Nat"), ("controlPosition", "Option Nat")], "Option Nat",
           mapping=frm, calls=infopos),
        Fn("hdlcPayload", unwrap_fn(HF.payload), [("data", "List Nat"), ("controlPosition", "Option Nat")], "Option (List Nat)",
           mapping=frm, calls=infopos),
        Fn("hdlcIsValid", unwrap_fn(HF.is_valid), [("isGoodFfc", "Bool"), ("data", "List Nat")], "Bool",
           mapping={"self.is_good_ffc": ("isGoodFfc", "bool")}, calls={"self.is_expected_length": ("(hdlcIsExpectedLength data)", "bool")}),
    ]
    # ---- the state machine core of HdlcFrameReader: methods that change the reader (state passing).
    # `self` is the record Core of the attributes they assign (_unescape_next, _raw_frame_data, _frame) plus the
    # configuration Cfg (_use_octet_stuffing, _use_abort_sequence: read only).  The frame object is opaque: its
    # constructor, append, len and the accessors are mapped to the model's Frame functions (their own translations are
    # proved equal to those in C01Gen).  `_buffer.trim_buffer_to_flag_or_end()` does not touch this state: it is
    # recorded in the flag `trimmed` of the answer; `_buffer.pop()` (once) is the parameter `octet`.
    register_object("frame", "Frame")
    R = hdlc.HdlcFrameReader
    core = {"self._unescape_next": ("unescapeNext", "bool"), "self._raw_frame_data": ("raw", "list"), "self._frame": ("frame", "optframe")}
    rcfg = {"self._use_octet_stuffing": ("cfg.stuffing", "bool"), "self._use_abort_sequence": ("cfg.abort", "bool")}
    for cls in ("self", "HdlcFrameReader"):
        rcfg[cls + ".CONTROL_ESCAPE"] = ("Amshan.Gen.escOctet", "int")
        rcfg[cls + ".FLAG_SEQUENCE"] = ("Amshan.Gen.flagOctet", "int")
    rcfg["HdlcFrame.MAX_FRAME_LENGTH"] = ("Amshan.Gen.maxFrameLen", "int")
    robj = dict(objmethods={"frame": {
        "append": ("Frame.append", ["int"], "mut"), "__len__": ("Frame.len", [], "int"),
        "header.header_check_sequence": ("Frame.hcs", [], "optint"), "is_expected_length": ("Frame.isExpectedLength", [], "bool"),
        "header.frame_length": ("Frame.frameLength", [], "optint"), "header.frame_format": ("Frame.frameFormat", [], "optint"),
        "header.control": ("Frame.control", [], "optint"), "header.information_position": ("Frame.infoPos", [], "optint"),
        "is_good_ffc": ("Frame.isGoodFfc", [], "bool"), "is_valid": ("Frame.isValid", [], "bool"),
        "as_bytes": ("Frame.data", [], "list"), "frame_check_sequence": ("Frame.fcsField", [], "optint"),
        "payload": ("Frame.payload", [], "optlist"), "MAX_FRAME_LENGTH": ("const:Amshan.Gen.maxFrameLen", [], "int")}},
        constructors={"HdlcFrame": ("Frame.empty", "frame")}, record=("Core", "s"), mutates=core)
    if not isinstance(getattr(HF, "__bool__"), _Missing):      # a frame with __bool__: its truth value is not its length
        robj["objmethods"]["frame"]["__bool__"] = ("", [], "bool")
    trim = {"self._buffer.trim_buffer_to_flag_or_end": "trimmed"}
    r_append = Fn("hdlcAppendToFrame", R._append_to_frame, [("cfg", "Cfg"), ("s", "Core"), ("current", "Nat")], "Core",
                  mapping={**rcfg, "current": ("current", "int")}, **robj)
    r_start = Fn("hdlcStartFrame", R._start_frame, [("s", "Core")], "Core", mapping=rcfg, **robj)
    r_hunt = Fn("hdlcGotoHuntMode", R._goto_hunt_mode, [("s", "Core")], "Core × Bool", mapping=rcfg, ghosts=["trimmed"], effects=trim, **robj)
    rcalls = {"self._append_to_frame": r_append, "self._start_frame": r_start, "self._goto_hunt_mode": r_hunt}
    r_flag = Fn("hdlcHandleFlagSequence", R._handle_flag_sequence, [("cfg", "Cfg"), ("s", "Core")], "Core × Bool × Bool", mapping=rcfg,
                ghosts=["trimmed"], effects=trim, pyret="bool", selfcalls=rcalls, **robj)
    r_next = Fn("hdlcReadNext", R._read_next, [("cfg", "Cfg"), ("s", "Core"), ("octet", "Nat")], "Core × Bool × Bool", mapping=rcfg,
                ghosts=["trimmed"], effects=trim, pyret="bool", selfcalls={**rcalls, "self._handle_flag_sequence": r_flag},
                calls={"self._buffer.pop": ("octet", "int")}, once=["self._buffer.pop"], **robj)
    reader = [r_append, r_start, r_hunt, r_flag, r_next]
    # ---- the input buffer of the HDLC reader (class _ReaderBuffer of han/hdlc.py) and HdlcFrameReader.read(data_chunk).
    # The buffer object is the record PyBuf of its two attributes (_buffer: the bytearray as a list, _buffer_pos); its
    # methods are state-passing functions on it.  For `read`, `self` is the record PyReader: the attributes of Core and
    # `_buffer`, an object whose methods are the GENERATED definitions of the buffer methods.  The five methods of the
    # state machine are translated a second time against this record (hdlcRd..): there `self._buffer.pop()` and
    # `self._buffer.trim_buffer_to_flag_or_end()` are calls of the translated buffer methods, in source order (the first
    # translation, on Core, takes the popped octet as a parameter and records the trimming in a flag).
    register_object("hbuf", "PyBuf")
    B = hdlc._ReaderBuffer
    bufst = dict(record=("PyBuf", "b"), mutates={"self._buffer": ("buffer", "list"), "self._buffer_pos": ("pos", "int")})
    bflag = {"HdlcFrameReader.FLAG_SEQUENCE": ("Amshan.Gen.flagOctet", "int")}
    b_avail = Fn("hdlcBufIsAvailable", unwrap_fn(B.is_available), [("b", "PyBuf")], "Bool",
                 mapping={"self._buffer": ("b.buffer", "list"), "self._buffer_pos": ("b.pos", "int")})
    b_pop = Fn("hdlcBufPop", B.pop, [("b", "PyBuf")], "PyBuf × Nat", pyret="int", **bufst)
    b_extend = Fn("hdlcBufExtend", B.extend, [("b", "PyBuf"), ("chunk", "List Nat")], "PyBuf", mapping={"data_chunk": ("chunk", "list")}, **bufst)
    b_trimpos = Fn("hdlcBufTrimToPos", B.trim_buffer_to_current_position, [("b", "PyBuf")], "PyBuf", **bufst)
    b_trimflag = Fn("hdlcBufTrimToFlagOrEnd", B.trim_buffer_to_flag_or_end, [("b", "PyBuf")], "PyBuf", mapping=bflag,
                    selfcalls={"self.trim_buffer_to_current_position": b_trimpos}, **bufst)
    hbufs = [b_avail, b_pop, b_extend, b_trimpos, b_trimflag]
    bufm = {"hbuf": {"is_available": ("hdlcBufIsAvailable", [], "bool"), "pop": ("hdlcBufPop", [], "mut:int"),
                     "extend": ("hdlcBufExtend", ["list"], "mut"), "trim_buffer_to_current_position": ("hdlcBufTrimToPos", [], "mut"),
                     "trim_buffer_to_flag_or_end": ("hdlcBufTrimToFlagOrEnd", [], "mut")}}
    qobj = dict(objmethods={**robj["objmethods"], **bufm}, constructors=robj["constructors"], record=("PyReader", "r"),
                mutates={**core, "self._buffer": ("buf", "hbuf")}, depends=hbufs, inline={"self.is_in_hunt_mode": R.is_in_hunt_mode})
    q_append = Fn("hdlcRdAppendToFrame", R._append_to_frame, [("cfg", "Cfg"), ("r", "PyReader"), ("current", "Nat")], "PyReader",
                  mapping={**rcfg, "current": ("current", "int")}, **qobj)
    q_start = Fn("hdlcRdStartFrame", R._start_frame, [("r", "PyReader")], "PyReader", mapping=rcfg, **qobj)
    q_hunt = Fn("hdlcRdGotoHuntMode", R._goto_hunt_mode, [("r", "PyReader")], "PyReader", mapping=rcfg, **qobj)
    qcalls = {"self._append_to_frame": q_append, "self._start_frame": q_start, "self._goto_hunt_mode": q_hunt}
    q_flag = Fn("hdlcRdHandleFlagSequence", R._handle_flag_sequence, [("cfg", "Cfg"), ("r", "PyReader")], "PyReader × Bool", mapping=rcfg,
                pyret="bool", selfcalls=qcalls, **qobj)
    q_next = Fn("hdlcRdReadNext", R._read_next, [("cfg", "Cfg"), ("r", "PyReader")], "PyReader × Bool", mapping=rcfg,
                pyret="bool", selfcalls={**qcalls, "self._handle_flag_sequence": q_flag}, **qobj)
    # `read`: the `while self._buffer.is_available:` loop is a recursion on fuel; the fuel granted is the number of octets
    # in the buffer after `extend` (an upper bound of the unread octets when the loop starts) + 1
    q_read = Fn("hdlcRdRead", R.read, [("cfg", "Cfg"), ("r", "PyReader"), ("chunk", "List Nat")], "PyReader × List Frame",
                mapping={**rcfg, "data_chunk": ("chunk", "list")}, pyret="list:frame", fuel="r.buf.buffer.length + chunk.length + 1",
                selfcalls={"self._read_next": q_next, "self._start_frame": q_start}, **qobj)
    hread = hbufs + [q_append, q_start, q_hunt, q_flag, q_next, q_read]
    # ---- the line buffer of the P1 reader (class _ReaderBuffer of han/dlde.py) and ModeDReader.read(data_chunk).
    # The buffer is the record PyBuf again (with the methods of THIS class); `self` of the reader is the record P1PyReader
    # (_buffer, _raw_data, _is_int_hunt_mode).  Opaque: `DataReadout(raw)` is the model's `Readout.make` (it may raise: a
    # statement of its own), `Ident.is_ident_line(text)` is `P1.isIdentLine`, `line.isascii()` is `Py.isAscii`,
    # `line.decode("ascii")` gives the code points (total: python raises on a non-ASCII octet; the source tests
    # `isascii()` first, and the theorem needs that guard).  `read` answers `Except PyExc (state, readouts)`.
    register_object("pbuf", "PyBuf")
    register_object("readout", "Readout")
    PB, MR = dlde._ReaderBuffer, dlde.ModeDReader
    pconst = {"LF_CHARACTER": ("Amshan.Gen.p1Lf", "int"), "START_CHARACTER_HEX": ("Amshan.Gen.p1Start", "int"),
              "END_CHARACTER_HEX": ("Amshan.Gen.p1End", "int")}
    p_len = Fn("p1BufLen", PB.__len__, [("b", "PyBuf")], "Nat", mapping={"self._buffer": ("b.buffer", "list"), "self._buffer_pos": ("b.pos", "int")})
    p_pop = Fn("p1BufPop", PB.pop, [("b", "PyBuf")], "PyBuf × Option (List Nat)", pyret="optlist", calls=pconst, **bufst)
    p_extend = Fn("p1BufExtend", PB.extend, [("b", "PyBuf"), ("chunk", "List Nat")], "PyBuf", mapping={"data_chunk": ("chunk", "list")}, **bufst)
    p_clear = Fn("p1BufClear", PB.clear, [("b", "PyBuf")], "PyBuf", **bufst)
    p_trimpos = Fn("p1BufTrimToPos", PB.trim_buffer_to_current_position, [("b", "PyBuf")], "PyBuf", **bufst)
    p_trimflag = Fn("p1BufTrimToFlagOrEnd", PB.trim_buffer_to_flag_or_end, [("b", "PyBuf")], "PyBuf", calls=pconst,
                    selfcalls={"self.trim_buffer_to_current_position": p_trimpos}, **bufst)
    pbufs = [p_len, p_pop, p_extend, p_clear, p_trimpos, p_trimflag]
    pbufm = {"pbuf": {"__len__": ("p1BufLen", [], "int"), "pop": ("p1BufPop", [], "mut:optlist"), "extend": ("p1BufExtend", ["list"], "mut"),
                      "clear": ("p1BufClear", [], "mut"), "trim_buffer_to_current_position": ("p1BufTrimToPos", [], "mut"),
                      "trim_buffer_to_flag_or_end": ("p1BufTrimToFlagOrEnd", [], "mut")}}
    p_read = Fn("p1RdRead", MR.read, [("r", "P1PyReader"), ("chunk", "List Nat")], "Except PyExc (P1PyReader × List Readout)",
                mapping={"data_chunk": ("chunk", "list")}, calls=pconst, pyret="list:readout", raises=True, record=("P1PyReader", "r"),
                mutates={"self._buffer": ("buf", "pbuf"), "self._raw_data": ("raw", "list"), "self._is_int_hunt_mode": ("hunt", "bool")},
                objmethods=pbufm, depends=pbufs, inline={"self.is_in_hunt_mode": MR.is_in_hunt_mode},
                raisefns={"DataReadout": ("Readout.make", ["list"], "readout")},
                callfns={"Ident.is_ident_line": ("isIdentLine", ["text"], "bool")},
                listmethods={"isascii": ("Amshan.Py.isAscii", [], "bool"), "decode": ("Amshan.GenRt.decodeAscii", ["'ascii'"], "text")},
                fuel="r.buf.buffer.length + chunk.length + 1")
    p1read = pbufs + [p_read]
    # ---- AutoDecoder: the rotation over the decoder table.  Generic like the model: the table is the parameter `decs`
    # (opaque callables α → Except PyExc β: `decoder(payload)` may raise), the except clause is the parameter `caught`
    # (its class list is data: Gen.caughtPayload), `self.__previous_success` is the state (its value on entry: prev0).
    auto = []
    if "autodecoder" in han:
        A = _Safe(han["autodecoder"], "autodecoder").AutoDecoder
        register_object("payload", "α")
        register_object("decoded", "β")
        register_object("decoder", "Auto.Decoder α β")
        register_object("str", "String")
        acfg = dict(tparams="{α β : Type}", raises=True, catch="caught",
                    objmethods={"decoder": {"__call__": ("", ["payload"], "raises:decoded")}},
                    tables={"AutoDecoder.payload_decoder_functions": {"len": "decs.length", "cols": [None, ("decs", "decoder")]}})
        auto = [Fn("autoDecodeMessagePayload", A.decode_message_payload,
                   [("decs", "List (Auto.Decoder α β)"), ("caught", "PyExc → Bool"), ("prev0", "Option Nat"), ("payload", "α")],
                   "Except PyExc (Option Nat × Option β)", mapping={"payload": ("payload", "payload")},
                   mutates={"self.__previous_success": ("prev", "optint")}, pyret="optdecoded", **acfg),
                Fn("autoPreviousSuccessDecoder", unwrap_fn(A.previous_success_decoder), [("names", "List String"), ("prev", "Option Nat")],
                   "Except PyExc (Option String)", mapping={"self.__previous_success": ("prev", "optint")}, pyret="optstr", raises=True,
                   tables={"AutoDecoder.payload_decoder_functions": {"len": "names.length", "cols": [("names", "str"), None]}})]
    # ---- SmartMeterBaseProtocol.data_received: the selection among the candidate readers.  Generic like the model: a
    # reader is an opaque object with state (`reader.read(data)` changes it and answers a list of messages:
    # `Rd.feed`), a message an opaque object with `is_valid` / `payload`.  `self` is the record PyState
    # (_selected_reader, _reader_candidates); `self.message_received(msg)` (abstract here) is RECORDED: the answer is
    # (state afterwards, the messages forwarded, in order).  `if self._selected_reader:` is `is not None`: a reader is
    # always true (checked below: neither __bool__ nor __len__ in the reader classes).  The two concrete
    # `message_received` are translated with `self.queue.put_nowait(x)` recorded the same way.
    MB, MR1, MR2 = _Safe(han["common"], "common").MeterReaderBase, hdlc.HdlcFrameReader, dlde.ModeDReader
    plain = all(isinstance(getattr(c, m, None), _Missing) for c in (MB, MR1, MR2) for m in ("__bool__", "__len__"))
    register_object("rd", "Rd", truthy=plain)
    register_object("msg", "Msg")
    pobj = {"rd": {"read": ("Rd.feed", ["list"], "mut:list:msg")},
            "msg": {"is_valid": ("Msg.valid", [], "bool"), "payload": ("Msg.payload", [], "optlist")}}
    proto = [Fn("protoDataReceived", mc.SmartMeterBaseProtocol.data_received, [("s", "PyState"), ("data", "List Nat")], "PyState × List Msg",
                mapping={"data": ("data", "list")}, record=("PyState", "s"),
                mutates={"self._selected_reader": ("selected", "optrd"), "self._reader_candidates": ("candidates", "list:rd")},
                ghosts=[("forwarded", "list:msg")], effects={"self.message_received": "forwarded"}, objmethods=pobj),
             Fn("protoMessageReceived", mc.SmartMeterMessageProtocol.message_received, [("message", "Msg")], "List Msg",
                mapping={"message": ("message", "msg")}, ghosts=[("queue", "list:msg")], effects={"self.queue.put_nowait": "queue"}, objmethods=pobj),
             Fn("protoPayloadReceived", mc.SmartMeterMessagePayloadProtocol.message_received, [("message", "Msg")], "List (List Nat)",
                mapping={"message": ("message", "msg")}, ghosts=[("queue", "list:list")], effects={"self.queue.put_nowait": "queue"}, objmethods=pobj)]
    groups = {"Fcs": fns[0:5], "BackOff": fns[5:9], "P1": fns[9:10], "Hdlc": fns[10:], "HdlcReader": reader, "HdlcRead": hread, "P1Read": p1read, "Auto": auto, "Proto": proto}
    # what a group's file needs besides Amshan.Generated: (imports, lines after `namespace Amshan.GenCode`)
    extra = {"HdlcReader": (["import Amshan.Model.Hdlc"], ["open Amshan.Hdlc", ""]),
             "HdlcRead": (["import Amshan.GenRuntime", "import Amshan.GenReaderState"], ["open Amshan.Hdlc", ""]),
             "P1Read": (["import Amshan.GenRuntime", "import Amshan.GenReaderState"], ["open Amshan.P1", ""]),
             "Auto": (["import Amshan.GenRuntime", "import Amshan.Model.AutoDecoder"], []),
             "Proto": (["import Amshan.GenRuntime", "import Amshan.Model.ProtocolState"], ["open Amshan.Proto", ""])}
    problems = []
    files = {}
    for g, gfns in groups.items():
        if not gfns:
            continue
        out = ["/- GENERATED by harness/pytrans.py from the current /repo working tree (mechanical translation of Python",
               "   function bodies). Do not edit. Props/*Gen.lean prove these equal to the hand-written models.",
               "   One file per property group, so that a change to one function cannot break another group's proofs. -/",
               "import Amshan.Generated"] + extra.get(g, ([], []))[0] + ["set_option linter.unusedVariables false", "namespace Amshan.GenCode", ""]
        out += extra.get(g, ([], []))[1]
        for fn in gfns:
            try:
                out.append(fn.translate())
            except Exception as ex:  # Unsupported or a changed signature: emit a stub that breaks the equivalence theorem
                fn.failed = True
                problems.append(f"GeneratedCode{g}: pytrans: {fn.name}: {type(ex).__name__}: {ex}")
                out.append(f"/- untranslatable: {ex} -/\ndef {fn.name} : Unit := ()")
            out.append("")
        out.append("end Amshan.GenCode")
        files[f"GeneratedCode{g}.lean"] = "\n".join(out) + "\n"
    return files, problems
