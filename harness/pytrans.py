"""A small translator from a subset of Python (the arithmetic / bit-twiddling cores of han/*.py) to Lean 4
`Id.run do` blocks.  Its output, lean/Amshan/GeneratedCode{Fcs,BackOff,P1,Hdlc}.lean, is REGENERATED from the working tree on every
run; Props/*Gen.lean prove each generated definition equal to the hand-written model, so for these functions
the tie between model and code is a kernel-checked theorem about a mechanical translation of the source, not a
sample.  Supported: int/bool/list/Optional[int] values, assignments (plain and augmented), if/else, for over
range(...) or a list, return, list.append, len/max/min, indexing and slicing (total: out-of-range index = 0 —
the theorems state the guards), comparisons, and/or/not, conditional expressions, `is (not) None`.
Logging calls and docstrings are dropped.  Anything else raises Unsupported: the check then reports the
function as untranslatable (an obligation that no longer checks)."""
from __future__ import annotations

import ast
import inspect
import textwrap


class Unsupported(Exception):
    pass


BINOPS = {ast.Add: "+", ast.Sub: "-", ast.Mult: "*", ast.FloorDiv: "/", ast.Mod: "%", ast.BitXor: "^^^",
          ast.BitAnd: "&&&", ast.BitOr: "|||", ast.LShift: "<<<", ast.RShift: ">>>"}


def dotted(node):
    if isinstance(node, ast.Name):
        return node.id
    if isinstance(node, ast.Attribute):
        b = dotted(node.value)
        return None if b is None else b + "." + node.attr
    return None


class Fn:
    """one Python function -> one Lean definition"""

    def __init__(self, name, obj, params, ret, mapping=None, mutates=None, calls=None):
        self.name = name                  # Lean name
        self.obj = obj                    # Python function object
        self.params = params              # [(lean name, lean type)]
        self.ret = ret                    # 'Nat' | 'Bool' | 'List Nat' | 'Option Nat' | 'Option Bool'
        self.mapping = mapping or {}      # python dotted name -> (lean expr, type)
        self.mutates = mutates or {}      # python dotted attribute -> local mutable lean name (returned at the end)
        self.calls = calls or {}          # python dotted callee/property -> (lean expr, type)
        self.locals = {}                  # python local -> type
        self.lines = []

    # ---------------------------------------------------------------- expressions
    def to_int(self, e, t):
        if t == "int":
            return e
        if t == "optint":
            return f"({e}).getD 0"
        if t == "bool":
            return f"(if {e} then 1 else 0)"
        raise Unsupported(f"cannot use {t} as int: {e}")

    def to_bool(self, e, t):
        if t == "bool":
            return e
        if t == "int":
            return f"({e} != 0)"
        if t in ("optint", "optbool"):
            return f"({e}).isSome"
        if t == "list":
            return f"(!({e}).isEmpty)"
        raise Unsupported(f"cannot use {t} as bool: {e}")

    def expr(self, n):
        if isinstance(n, ast.Constant):
            if isinstance(n.value, bool):
                return ("true" if n.value else "false"), "bool"
            if isinstance(n.value, int):
                return str(n.value), "int"
            if n.value is None:
                return "none", "none"
            raise Unsupported(f"constant {n.value!r}")
        d = dotted(n)
        if d is not None:
            if d in self.mutates:
                return self.mutates[d], "int"
            if d in self.mapping:
                return self.mapping[d]
            if d in self.calls:
                return self.calls[d]
            if d in self.locals:
                return d.replace("_", "v_") if d.startswith("_") else d, self.locals[d]
            raise Unsupported(f"unknown name {d}")
        if isinstance(n, ast.BinOp):
            if type(n.op) not in BINOPS:
                raise Unsupported(f"operator {type(n.op).__name__}")
            a, ta = self.expr(n.left)
            b, tb = self.expr(n.right)
            if isinstance(n.op, ast.Mult) and ta == "list":       # `[] * 256`
                return a, "list"
            return f"({self.to_int(a, ta)} {BINOPS[type(n.op)]} {self.to_int(b, tb)})", "int"
        if isinstance(n, ast.UnaryOp) and isinstance(n.op, ast.Not):
            a, ta = self.expr(n.operand)
            return f"(!{self.to_bool(a, ta)})", "bool"
        if isinstance(n, ast.BoolOp):
            op = "&&" if isinstance(n.op, ast.And) else "||"
            parts = [self.to_bool(*self.expr(v)) for v in n.values]
            return "(" + f" {op} ".join(parts) + ")", "bool"
        if isinstance(n, ast.Compare):
            if len(n.ops) == 2 and all(isinstance(o, (ast.Lt, ast.LtE)) for o in n.ops):      # a < b < c
                a, ta = self.expr(n.left)
                b, tb = self.expr(n.comparators[0])
                c, tc = self.expr(n.comparators[1])
                o1 = "<" if isinstance(n.ops[0], ast.Lt) else "≤"
                o2 = "<" if isinstance(n.ops[1], ast.Lt) else "≤"
                return f"(decide ({self.to_int(a, ta)} {o1} {self.to_int(b, tb)}) && decide ({self.to_int(b, tb)} {o2} {self.to_int(c, tc)}))", "bool"
            if len(n.ops) != 1:
                raise Unsupported("chained comparison")
            a, ta = self.expr(n.left)
            b, tb = self.expr(n.comparators[0])
            op = n.ops[0]
            if isinstance(op, (ast.Is, ast.IsNot)):
                if tb != "none":
                    raise Unsupported("is / is not with a non-None operand")
                return (f"({a}).isNone" if isinstance(op, ast.Is) else f"({a}).isSome"), "bool"
            if ta == "bool" and tb == "bool" and isinstance(op, (ast.Eq, ast.NotEq)):
                return f"({a} {'==' if isinstance(op, ast.Eq) else '!='} {b})", "bool"
            x, y = self.to_int(a, ta), self.to_int(b, tb)
            sym = {ast.Eq: "==", ast.NotEq: "!=", ast.Lt: "<", ast.LtE: "≤", ast.Gt: ">", ast.GtE: "≥"}.get(type(op))
            if sym is None:
                raise Unsupported(f"comparison {type(op).__name__}")
            if sym in ("==", "!="):
                return f"({x} {sym} {y})", "bool"
            return f"decide ({x} {sym} {y})", "bool"
        if isinstance(n, ast.IfExp):
            c = self.to_bool(*self.expr(n.test))
            a, ta = self.expr(n.body)
            b, tb = self.expr(n.orelse)
            if ta == "bool" and tb == "bool":
                return f"(if {c} then {a} else {b})", "bool"
            return f"(if {c} then {self.to_int(a, ta)} else {self.to_int(b, tb)})", "int"
        if isinstance(n, ast.Call):
            f = dotted(n.func)
            if f == "len" and len(n.args) == 1:
                a, ta = self.expr(n.args[0])
                return f"({a}).length", "int"
            if f in ("max", "min") and len(n.args) == 2:
                a, ta = self.expr(n.args[0])
                b, tb = self.expr(n.args[1])
                return f"({f} {self.to_int(a, ta)} {self.to_int(b, tb)})", "int"
            if f in self.calls and not n.args:
                return self.calls[f]
            raise Unsupported(f"call {f}")
        if isinstance(n, ast.Subscript):
            a, ta = self.expr(n.value)
            if ta != "list":
                raise Unsupported("subscript of a non-list")
            if isinstance(n.slice, ast.Slice):
                lo = self.to_int(*self.expr(n.slice.lower)) if n.slice.lower else "0"
                if n.slice.upper is None:
                    return f"(({a}).drop {lo})", "list"
                hi = self.to_int(*self.expr(n.slice.upper))
                return f"((({a}).take {hi}).drop {lo})", "list"
            i = self.to_int(*self.expr(n.slice))
            return f"(({a}).getD {i} 0)", "int"
        if isinstance(n, ast.List) and not n.elts:
            return "([] : List Nat)", "list"
        raise Unsupported(f"expression {type(n).__name__}")

    # ---------------------------------------------------------------- statements
    def lname(self, py):
        return py.replace("_", "v_") if py.startswith("_") else py

    def collect_locals(self, body):
        """first assignment decides the type of a local"""
        for st in body:
            for node in ast.walk(st):
                targets = []
                if isinstance(node, ast.Assign):
                    targets = [(t, node.value) for t in node.targets]
                elif isinstance(node, ast.AugAssign):
                    targets = [(node.target, None)]
                elif isinstance(node, ast.For):
                    if isinstance(node.target, ast.Name) and node.target.id != "_":
                        it = node.iter
                        is_range = isinstance(it, ast.Call) and dotted(it.func) == "range"
                        self.locals.setdefault(node.target.id, "int")
                for t, v in targets:
                    if isinstance(t, ast.Name) and t.id not in self.locals:
                        self.locals[t.id] = "int"        # provisional; refined below
        # refine types in program order
        for st in body:
            self._refine(st)

    def _refine(self, st):
        for node in ast.walk(st):
            if isinstance(node, ast.Assign) and isinstance(node.targets[0], ast.Name):
                try:
                    _, t = self.expr(node.value)
                except Unsupported:
                    continue
                if t in ("bool", "list", "optint") and not getattr(self, "_typed_" + node.targets[0].id, False):
                    self.locals[node.targets[0].id] = t
                setattr(self, "_typed_" + node.targets[0].id, True)

    def default(self, t):
        return {"int": "0", "bool": "false", "list": "([] : List Nat)", "optint": "(none : Option Nat)"}[t]

    def ret_expr(self, n):
        if n is None:
            if self.mutates:
                vals = list(self.mutates.values())
                return vals[0] if len(vals) == 1 else "(" + ", ".join(vals) + ")"
            return "()"
        e, t = self.expr(n)
        if self.ret.startswith("Option"):
            if t == "none":
                return "none"
            if t in ("optint", "optbool"):
                return e
            inner = self.to_bool(e, t) if self.ret == "Option Bool" else self.to_int(e, t)
            return f"some ({inner})"
        if self.ret == "Bool":
            return self.to_bool(e, t)
        if self.ret == "List Nat":
            return e
        return self.to_int(e, t)

    def stmts(self, body, ind):
        out = []
        pad = "  " * ind
        for st in body:
            if isinstance(st, ast.Expr) and isinstance(st.value, ast.Constant) and isinstance(st.value.value, str):
                continue                                           # docstring
            if isinstance(st, ast.Expr) and isinstance(st.value, ast.Call):
                f = dotted(st.value.func) or ""
                if f.startswith("_LOGGER."):
                    continue                                       # logging
                if f.endswith(".append") and len(st.value.args) == 1:
                    tgt = f[: -len(".append")]
                    a, ta = self.expr(st.value.args[0])
                    out.append(f"{pad}{self.lname(tgt)} := {self.lname(tgt)} ++ [{self.to_int(a, ta)}]")
                    continue
                raise Unsupported(f"statement call {f}")
            if isinstance(st, ast.Assign):
                if len(st.targets) != 1:
                    raise Unsupported("multiple assignment")
                t = st.targets[0]
                d = dotted(t)
                e, te = self.expr(st.value)
                if d in self.mutates:
                    out.append(f"{pad}{self.mutates[d]} := {self.to_int(e, te)}")
                elif isinstance(t, ast.Name):
                    lt = self.locals[t.id]
                    val = e if lt == te or lt in ("list", "optint") else (self.to_bool(e, te) if lt == "bool" else self.to_int(e, te))
                    if lt == "optint" and te == "int":
                        val = f"some ({e})"
                    out.append(f"{pad}{self.lname(t.id)} := {val}")
                else:
                    raise Unsupported(f"assignment target {ast.dump(t)[:40]}")
                continue
            if isinstance(st, ast.AugAssign):
                d = dotted(st.target)
                if type(st.op) not in BINOPS:
                    raise Unsupported("augmented operator")
                e, te = self.expr(st.value)
                name = self.mutates.get(d) or self.lname(d)
                out.append(f"{pad}{name} := ({name} {BINOPS[type(st.op)]} {self.to_int(e, te)})")
                continue
            if isinstance(st, ast.If):
                c = self.to_bool(*self.expr(st.test))
                out.append(f"{pad}if {c} then")
                body_lines = self.stmts(st.body, ind + 1) or [f"{pad}  pure ()"]
                out += body_lines
                if st.orelse:
                    out.append(f"{pad}else")
                    out += self.stmts(st.orelse, ind + 1) or [f"{pad}  pure ()"]
                continue
            if isinstance(st, ast.For):
                if st.orelse:
                    raise Unsupported("for-else")
                tgt = st.target.id if isinstance(st.target, ast.Name) else None
                if tgt is None:
                    raise Unsupported("for target")
                assigned = any(isinstance(x, (ast.Assign, ast.AugAssign)) and dotted(x.targets[0] if isinstance(x, ast.Assign) else x.target) == tgt
                               for s2 in st.body for x in ast.walk(s2))
                it = st.iter
                if isinstance(it, ast.Call) and dotted(it.func) == "range":
                    args = [self.to_int(*self.expr(a)) for a in it.args]
                    lo, hi = ("0", args[0]) if len(args) == 1 else (args[0], args[1])
                    if len(args) > 2:
                        raise Unsupported("range step")
                    coll = f"[{lo}:{hi}]"
                else:
                    e, te = self.expr(it)
                    if te != "list":
                        raise Unsupported("for over a non-list")
                    coll = e
                if tgt == "_":
                    out.append(f"{pad}for _ in {coll} do")
                elif assigned:
                    out.append(f"{pad}for {self.lname(tgt)}_it in {coll} do")
                    out.append(f"{pad}  {self.lname(tgt)} := {self.lname(tgt)}_it")
                else:
                    out.append(f"{pad}for {self.lname(tgt)}_it in {coll} do")
                    out.append(f"{pad}  {self.lname(tgt)} := {self.lname(tgt)}_it")
                out += self.stmts(st.body, ind + 1) or [f"{pad}  pure ()"]
                continue
            if isinstance(st, ast.Return):
                out.append(f"{pad}return {self.ret_expr(st.value)}")
                continue
            if isinstance(st, ast.Pass):
                continue
            raise Unsupported(f"statement {type(st).__name__}")
        return out

    def translate(self):
        src = textwrap.dedent(inspect.getsource(self.obj))
        fn = ast.parse(src).body[0]
        if not isinstance(fn, (ast.FunctionDef,)):
            raise Unsupported("not a plain function")
        # python parameters that are plain locals of the translation
        for a in fn.args.args:
            if a.arg != "self" and a.arg not in self.locals and not any(a.arg == k for k in self.mapping):
                pass
        self.collect_locals(fn.body)
        head = f"def {self.name} " + " ".join(f"({n} : {t})" for n, t in self.params) + f" : {self.ret} := Id.run do"
        lines = [head]
        for py, lean in self.mutates.items():
            lines.append(f"  let mut {lean} := {lean}0")
        for py, t in self.locals.items():
            if any(py == p for p, _ in self.params):
                continue
            lines.append(f"  let mut {self.lname(py)} := {self.default(t)}")
        body = self.stmts(fn.body, 1)
        ends_with_return = bool(fn.body) and isinstance(fn.body[-1], ast.Return)
        lines += body
        if not ends_with_return:
            lines.append(f"  return {self.ret_expr(None)}")
        return "\n".join(lines)


def generate(han):
    """han: dict of imported modules. Returns ({file name: lean text}, problems)."""
    ffc, hdlc, dlde, mc = han["fastframecheck"], han["hdlc"], han["dlde"], han["meter_connection"]
    F = ffc.FastFrameCheckSequence16
    H = hdlc.HdlcFrameHeader
    tbl = {"FastFrameCheckSequence16.fast_frame_check_crc_table": ("Amshan.Gen.fcsTable", "list"),
           "FastFrameCheckSequence16.INIT_FCS_16": ("Amshan.Gen.fcsInit", "int"),
           "self.INIT_FCS_16": ("Amshan.Gen.fcsInit", "int"), "self.GOOD_FCS_16": ("Amshan.Gen.fcsGood", "int")}
    frame = {"self._frame": ("data", "list"), "self._frame.as_bytes": ("data", "list")}
    fns = [
        Fn("computeFcsTable", ffc._compute_fcs_16_crc_table, [], "List Nat"),
        Fn("fcsNext", F._next, [("crc", "Nat"), ("byte", "Nat")], "Nat", mapping={**tbl, "crc": ("crc", "int"), "byte": ("byte", "int")}),
        Fn("fcsChecksum", F.checksum.fget, [("crcValue", "Nat")], "Nat", mapping={"self._crc_value": ("crcValue", "int")}),
        Fn("fcsIsGood", F.is_good.fget, [("crcValue", "Nat")], "Bool", mapping={**tbl, "self._crc_value": ("crcValue", "int")}),
        Fn("fcsComputeChecksum", F.compute_checksum, [("data", "List Nat"), ("start", "Nat"), ("length", "Nat")], "Nat",
           mapping={**tbl, "data": ("data", "list"), "start": ("start", "int"), "length": ("length", "int")}),
        Fn("backoffFailure", mc.ExponentialBackOff.failure, [("delay0", "Nat")], "Nat", mutates={"self._delay": "delay"}),
        Fn("backoffReset", mc.ExponentialBackOff.reset, [("delay0", "Nat")], "Nat", mutates={"self._delay": "delay"}),
        Fn("backoffCurrent", mc.ExponentialBackOff.current_delay_sec.fget, [("delay", "Nat"), ("maxDelay", "Nat")], "Nat",
           mapping={"self._delay": ("delay", "int"), "self.max_delay": ("maxDelay", "int")}),
        Fn("getBackOffTime", mc.ConnectionManager._get_back_off_time, [("currentDelay", "Nat"), ("sleepFlag", "Bool"), ("sleepSec", "Nat")], "Nat",
           mapping={"self.back_off_connect_error.current_delay_sec": ("currentDelay", "int"),
                    "self._connection_lost_sleep_before_reconnect": ("sleepFlag", "bool"),
                    "self.connection_lost_back_off_sleep_sec": ("sleepSec", "int")}),
        Fn("p1CalculateCrc16", dlde.DataReadout._calculate_crc16, [("readout", "List Nat"), ("endPos", "Nat")], "Nat",
           mapping={"self._readout": ("readout", "list"), "self._end_pos": ("endPos", "int")}),
        Fn("hdlcFrameFormat", H.frame_format.fget, [("data", "List Nat")], "Option Nat", mapping=frame),
        Fn("hdlcFrameFormatType", H.frame_format_type.fget, [("data", "List Nat")], "Option Nat",
           mapping=frame, calls={"self.frame_format": ("(hdlcFrameFormat data)", "optint")}),
        Fn("hdlcSegmentation", H.segmentation.fget, [("data", "List Nat")], "Option Bool",
           mapping=frame, calls={"self.frame_format": ("(hdlcFrameFormat data)", "optint")}),
        Fn("hdlcFrameLength", H.frame_length.fget, [("data", "List Nat")], "Option Nat",
           mapping=frame, calls={"self.frame_format": ("(hdlcFrameFormat data)", "optint")}),
        Fn("hdlcInformationPosition", H.information_position.fget, [("controlPosition", "Option Nat")], "Option Nat",
           mapping={"self._control_position": ("controlPosition", "optint")}),
    ]
    groups = {"Fcs": fns[0:5], "BackOff": fns[5:9], "P1": fns[9:10], "Hdlc": fns[10:]}
    problems = []
    files = {}
    for g, gfns in groups.items():
        out = ["/- GENERATED by harness/pytrans.py from the current /repo working tree (mechanical translation of Python",
               "   function bodies). Do not edit. Props/*Gen.lean prove these equal to the hand-written models.",
               "   One file per property group, so that a change to one function cannot break another group's proofs. -/",
               "import Amshan.Generated", "namespace Amshan.GenCode", ""]
        for fn in gfns:
            try:
                out.append(fn.translate())
            except Exception as ex:  # Unsupported or a changed signature: emit a stub that breaks the equivalence theorem
                problems.append(f"pytrans: {fn.name}: {type(ex).__name__}: {ex}")
                out.append(f"/- untranslatable: {ex} -/\ndef {fn.name} : Unit := ()")
            out.append("")
        out.append("end Amshan.GenCode")
        files[f"GeneratedCode{g}.lean"] = "\n".join(out) + "\n"
    return files, problems
