"""A small translator from a subset of Python (the arithmetic / bit-twiddling cores of han/*.py) to Lean 4
`Id.run do` blocks.  Its output, lean/Amshan/GeneratedCode{Fcs,BackOff,P1,Hdlc}.lean, is REGENERATED from the working tree on every
run; Props/*Gen.lean prove each generated definition equal to the hand-written model, so for these functions
the tie between model and code is a kernel-checked theorem about a mechanical translation of the source, not a
sample.  Supported: int/bool/list/Optional[int] values, bytes/bytearray (as `List Nat`), Optional[bytes] (as
`Option (List Nat)`), Optional[bool], assignments (plain and augmented), if/else, for over
range(...) or a list, return, list.append, len/max/min, indexing and slicing (total: out-of-range index = 0 —
the theorems state the guards; `x[a:-k]` with a literal k), comparisons (`opt == int` is `opt == some int`, as
`None == 3` is False), and/or/not, conditional expressions, `is (not) None`, `cast(int, x)`, `bytes(x)`,
`bytearray()`, calls of other translated functions, and `while True:` without break (the last statement of
its block; see `Fn.while_true`).  Logging calls and docstrings are dropped.  Anything else raises Unsupported: the check then reports the
function as untranslatable (an obligation that no longer checks)."""
from __future__ import annotations

import ast
import inspect
import textwrap


class _Missing:
    def __init__(self, path):
        self.path = path

    def __getattr__(self, name):
        if name.startswith("__"):
            raise AttributeError(name)
        return _Missing(self.path + "." + name)


class _Safe:
    """getattr that yields a _Missing marker instead of raising; classes are wrapped again, functions are returned raw"""

    def __init__(self, obj, path):
        object.__setattr__(self, "_o", obj)
        object.__setattr__(self, "_p", path)

    def __getattr__(self, name):
        o = object.__getattribute__(self, "_o")
        p = object.__getattribute__(self, "_p") + "." + name
        try:
            v = inspect.getattr_static(o, name)
        except AttributeError:
            return _Missing(p)
        return _Safe(v, p) if inspect.isclass(v) else v


def unwrap_fn(x):
    """the plain function behind a property / functools.cached_property / staticmethod / classmethod"""
    if isinstance(x, _Missing):
        return x
    for attr in ("fget", "func", "__func__"):
        f = getattr(x, attr, None)
        if callable(f):
            return f
    return x


class Unsupported(Exception):
    pass


BINOPS = {ast.Add: "+", ast.Sub: "-", ast.Mult: "*", ast.FloorDiv: "/", ast.Mod: "%", ast.BitXor: "^^^",
          ast.BitAnd: "&&&", ast.BitOr: "|||", ast.LShift: "<<<", ast.RShift: ">>>"}


LEAN_TY = {"int": "Nat", "bool": "Bool", "list": "List Nat", "optint": "Option Nat", "optbool": "Option Bool",
           "optlist": "Option (List Nat)"}
OPT_BASE = {"optint": "int", "optbool": "bool", "optlist": "list"}
DEFAULTS = {"int": "0", "bool": "false", "list": "([] : List Nat)", "optint": "(none : Option Nat)",
            "optbool": "(none : Option Bool)", "optlist": "(none : Option (List Nat))"}


def dotted(node):
    if isinstance(node, ast.Name):
        return node.id
    if isinstance(node, ast.Attribute):
        b = dotted(node.value)
        return None if b is None else b + "." + node.attr
    return None


class Fn:
    """one Python function -> one Lean definition"""

    def __init__(self, name, obj, params, ret, mapping=None, mutates=None, calls=None, callfns=None, fuel=None):
        self.name = name                  # Lean name
        self.obj = obj                    # Python function object
        self.params = params              # [(lean name, lean type)]
        self.ret = ret                    # 'Nat' | 'Bool' | 'List Nat' | 'Option Nat' | 'Option Bool'
        self.mapping = mapping or {}      # python dotted name -> (lean expr, type)
        # python dotted attribute -> (local mutable lean name (returned at the end), type); a bare name means int
        self.mutates = {k: ((v, "int") if isinstance(v, str) else v) for k, v in (mutates or {}).items()}
        self.calls = calls or {}          # python dotted callee/property -> (lean expr, type)
        self.callfns = callfns or {}      # python dotted callee with arguments -> (lean function (partially applied), [argument types], result type)
        self.fuel = fuel                  # lean expression: number of iterations granted to a `while True:` loop
        self.aux = []                     # auxiliary definitions (loops), emitted before the definition
        self.locals = {}                  # python local -> type
        self.in_loop = False
        self.lines = []

    # ---------------------------------------------------------------- expressions
    def to_int(self, e, t):
        if t == "int":
            return e
        if t == "optint":                 # total: None is used as 0 (the theorems state the guards)
            return f"(({e}).getD 0)"
        if t == "bool":
            return f"(if {e} then 1 else 0)"
        raise Unsupported(f"cannot use {t} as int: {e}")

    def to_bool(self, e, t):
        if t == "bool":
            return e
        if t == "int":
            return f"({e} != 0)"
        if t == "optint":                 # truthiness: None and 0 are false
            return f"(({e}).getD 0 != 0)"
        if t == "optbool":
            return f"(({e}).getD false)"
        if t == "list":
            return f"(!({e}).isEmpty)"
        if t == "optlist":
            return f"(!(({e}).getD []).isEmpty)"
        raise Unsupported(f"cannot use {t} as bool: {e}")

    def to_list(self, e, t):
        if t == "list":
            return e
        if t == "optlist":                # total: None is used as b"" (the theorems state the guards)
            return f"(({e}).getD [])"
        raise Unsupported(f"cannot use {t} as bytes/list: {e}")

    def coerce(self, e, te, want):
        """value of type `te` stored in / returned as a `want`"""
        if te == want:
            return e
        if want in OPT_BASE:
            if te == "none":
                return "none"
            if te in OPT_BASE:
                raise Unsupported(f"cannot use {te} as {want}: {e}")
            return f"some ({self.coerce(e, te, OPT_BASE[want])})"
        if want == "bool":
            return self.to_bool(e, te)
        if want == "int":
            return self.to_int(e, te)
        if want == "list":
            return self.to_list(e, te)
        raise Unsupported(f"cannot use {te} as {want}: {e}")

    def expr(self, n):
        if isinstance(n, ast.Constant):
            if isinstance(n.value, bool):
                return ("true" if n.value else "false"), "bool"
            if isinstance(n.value, int):
                return str(n.value), "int"
            if n.value is None:
                return "none", "none"
            raise Unsupported(f"constant {n.value!r}")
        d = dotted(n)
        if d is not None:
            if d in self.mutates:
                return self.mutates[d]
            if d in self.mapping:
                return self.mapping[d]
            if d in self.calls:
                return self.calls[d]
            if d in self.locals:
                return d.replace("_", "v_") if d.startswith("_") else d, self.locals[d]
            raise Unsupported(f"unknown name {d}")
        if isinstance(n, ast.BinOp):
            if type(n.op) not in BINOPS:
                raise Unsupported(f"operator {type(n.op).__name__}")
            a, ta = self.expr(n.left)
            b, tb = self.expr(n.right)
            if isinstance(n.op, ast.Mult) and ta == "list":       # `[] * 256`
                return a, "list"
            return f"({self.to_int(a, ta)} {BINOPS[type(n.op)]} {self.to_int(b, tb)})", "int"
        if isinstance(n, ast.UnaryOp) and isinstance(n.op, ast.Not):
            a, ta = self.expr(n.operand)
            return f"(!{self.to_bool(a, ta)})", "bool"
        if isinstance(n, ast.BoolOp):
            op = "&&" if isinstance(n.op, ast.And) else "||"
            parts = [self.to_bool(*self.expr(v)) for v in n.values]
            return "(" + f" {op} ".join(parts) + ")", "bool"
        if isinstance(n, ast.Compare):
            if len(n.ops) == 2 and all(isinstance(o, (ast.Lt, ast.LtE)) for o in n.ops):      # a < b < c
                a, ta = self.expr(n.left)
                b, tb = self.expr(n.comparators[0])
                c, tc = self.expr(n.comparators[1])
                o1 = "<" if isinstance(n.ops[0], ast.Lt) else "≤"
                o2 = "<" if isinstance(n.ops[1], ast.Lt) else "≤"
                return f"(decide ({self.to_int(a, ta)} {o1} {self.to_int(b, tb)}) && decide ({self.to_int(b, tb)} {o2} {self.to_int(c, tc)}))", "bool"
            if len(n.ops) != 1:
                raise Unsupported("chained comparison")
            a, ta = self.expr(n.left)
            b, tb = self.expr(n.comparators[0])
            op = n.ops[0]
            if isinstance(op, (ast.Is, ast.IsNot)):
                if tb != "none":
                    raise Unsupported("is / is not with a non-None operand")
                if ta not in OPT_BASE:
                    raise Unsupported(f"is / is not None of a {ta}")
                return (f"({a}).isNone" if isinstance(op, ast.Is) else f"({a}).isSome"), "bool"
            if isinstance(op, (ast.Eq, ast.NotEq)):
                eq = "==" if isinstance(op, ast.Eq) else "!="
                if ta == tb and ta in ("bool", "list", "optint", "optbool", "optlist"):
                    return f"({a} {eq} {b})", "bool"
                if ta in OPT_BASE and tb == OPT_BASE[ta]:          # `None == 3` is False
                    return f"({a} {eq} some ({b}))", "bool"
                if tb in OPT_BASE and ta == OPT_BASE[tb]:
                    return f"(some ({a}) {eq} {b})", "bool"
                if ta in OPT_BASE or tb in OPT_BASE or ta == "list" or tb == "list":
                    raise Unsupported(f"== between {ta} and {tb}")
            x, y = self.to_int(a, ta), self.to_int(b, tb)
            sym = {ast.Eq: "==", ast.NotEq: "!=", ast.Lt: "<", ast.LtE: "≤", ast.Gt: ">", ast.GtE: "≥"}.get(type(op))
            if sym is None:
                raise Unsupported(f"comparison {type(op).__name__}")
            if sym in ("==", "!="):
                return f"({x} {sym} {y})", "bool"
            return f"decide ({x} {sym} {y})", "bool"
        if isinstance(n, ast.IfExp):
            c = self.to_bool(*self.expr(n.test))
            a, ta = self.expr(n.body)
            b, tb = self.expr(n.orelse)
            if ta == "bool" and tb == "bool":
                return f"(if {c} then {a} else {b})", "bool"
            return f"(if {c} then {self.to_int(a, ta)} else {self.to_int(b, tb)})", "int"
        if isinstance(n, ast.Call):
            f = dotted(n.func)
            if n.keywords:
                raise Unsupported(f"keyword arguments in call {f}")
            if f == "len" and len(n.args) == 1:
                a, ta = self.expr(n.args[0])
                return f"({self.to_list(a, ta)}).length", "int"
            if f == "cast" and len(n.args) == 2 and dotted(n.args[0]) == "int":       # typing.cast: identity
                return self.to_int(*self.expr(n.args[1])), "int"
            if f in ("bytes", "bytearray") and not n.args:
                return "([] : List Nat)", "list"
            if f in ("bytes", "bytearray") and len(n.args) == 1:                       # copy of a byte string
                a, ta = self.expr(n.args[0])
                if ta != "list":
                    raise Unsupported(f"{f}() of a {ta}")
                return a, "list"
            if f in self.callfns:
                lean, argts, rt = self.callfns[f]
                if len(argts) != len(n.args):
                    raise Unsupported(f"call {f}: {len(n.args)} arguments, {len(argts)} expected")
                args = [self.coerce(*self.expr(x), want) for x, want in zip(n.args, argts)]
                return "(" + " ".join([lean] + args) + ")", rt
            if f in ("max", "min") and len(n.args) == 2:
                a, ta = self.expr(n.args[0])
                b, tb = self.expr(n.args[1])
                return f"({f} {self.to_int(a, ta)} {self.to_int(b, tb)})", "int"
            if f in self.calls and not n.args:
                return self.calls[f]
            raise Unsupported(f"call {f}")
        if isinstance(n, ast.Subscript):
            a, ta = self.expr(n.value)
            if ta != "list":
                raise Unsupported("subscript of a non-list")
            if isinstance(n.slice, ast.Slice):
                if n.slice.step is not None:
                    raise Unsupported("slice step")
                lo = self.to_int(*self.expr(n.slice.lower)) if n.slice.lower else "0"
                if n.slice.upper is None:
                    return f"(({a}).drop {lo})", "list"
                up = n.slice.upper
                if (isinstance(up, ast.UnaryOp) and isinstance(up.op, ast.USub) and isinstance(up.operand, ast.Constant)
                        and type(up.operand.value) is int and up.operand.value > 0):
                    # x[lo:-k] ends at max(len(x) - k, 0): exactly the truncated subtraction of Nat
                    return f"((({a}).take (({a}).length - {up.operand.value})).drop {lo})", "list"
                hi = self.to_int(*self.expr(n.slice.upper))
                return f"((({a}).take {hi}).drop {lo})", "list"
            i = self.to_int(*self.expr(n.slice))
            return f"(({a}).getD {i} 0)", "int"
        if isinstance(n, ast.List) and not n.elts:
            return "([] : List Nat)", "list"
        raise Unsupported(f"expression {type(n).__name__}")

    # ---------------------------------------------------------------- statements
    def lname(self, py):
        return py.replace("_", "v_") if py.startswith("_") else py

    def collect_locals(self, body):
        """first assignment decides the type of a local"""
        for st in body:
            for node in ast.walk(st):
                targets = []
                if isinstance(node, ast.Assign):
                    targets = [(t, node.value) for t in node.targets]
                elif isinstance(node, ast.AugAssign):
                    targets = [(node.target, None)]
                elif isinstance(node, ast.For):
                    if isinstance(node.target, ast.Name) and node.target.id != "_":
                        it = node.iter
                        is_range = isinstance(it, ast.Call) and dotted(it.func) == "range"
                        self.locals.setdefault(node.target.id, "int")
                for t, v in targets:
                    if isinstance(t, ast.Name) and t.id not in self.locals:
                        self.locals[t.id] = "int"        # provisional; refined below
        # refine types in program order
        for st in body:
            self._refine(st)

    def _refine(self, st):
        for node in ast.walk(st):
            if isinstance(node, ast.Assign) and isinstance(node.targets[0], ast.Name):
                try:
                    _, t = self.expr(node.value)
                except Unsupported:
                    continue
                if t in ("bool", "list", "optint", "optbool", "optlist") and not getattr(self, "_typed_" + node.targets[0].id, False):
                    self.locals[node.targets[0].id] = t
                setattr(self, "_typed_" + node.targets[0].id, True)

    def default(self, t):
        return DEFAULTS[t]

    def ret_tag(self):
        for tag, ty in LEAN_TY.items():
            if ty == self.ret:
                return tag
        raise Unsupported(f"return type {self.ret}")

    def ret_expr(self, n):
        if n is None:
            if self.mutates:
                vals = [v for v, _ in self.mutates.values()]
                return vals[0] if len(vals) == 1 else "(" + ", ".join(vals) + ")"
            return "()"
        e, t = self.expr(n)
        return self.coerce(e, t, self.ret_tag())

    # ---------------------------------------------------------------- `while True:`
    def state_vars(self):
        """the `let mut` variables of the definition: [(lean name, type)]"""
        res = list(self.mutates.values())
        res += [(self.lname(py), t) for py, t in self.locals.items() if not any(py == p for p, _ in self.params)]
        return res

    def while_true(self, st, pad):
        """`while True:` without break/continue, as the last statement of its block (so whatever follows the
        block is only reached by falling out of an enclosing `if`, never from the loop).  The loop becomes an
        auxiliary definition by recursion on a fuel argument, whose body is the translated loop body followed by
        the recursive call; the state is all `let mut` variables.  A `return` in the body is a return of the
        function, as in Python.  Python's loop has no bound: when the fuel runs out the auxiliary definition
        answers its extra argument `oof`, and the equivalence theorem is stated for every `oof` and every large
        enough fuel — so it also proves that the fuel the definition grants (`Fn.fuel`) is never used up."""
        if not (isinstance(st.test, ast.Constant) and st.test.value is True):
            raise Unsupported("while with a condition other than True")
        if st.orelse:
            raise Unsupported("while-else")
        if any(isinstance(x, (ast.Break, ast.Continue, ast.While)) for s2 in st.body for x in ast.walk(s2)):
            raise Unsupported("break / continue / nested while in `while True`")
        if self.fuel is None:
            raise Unsupported("`while True` in a function without a configured fuel")
        if self.in_loop:
            raise Unsupported("`while True` inside another loop")
        state = self.state_vars()
        name = f"{self.name}.loop{len(self.aux) + 1}"
        pargs = " ".join(n for n, _ in self.params)
        self.in_loop = True
        body = self.stmts(st.body, 2)
        self.in_loop = False
        lines = [f"def {name} " + " ".join(f"({n} : {t})" for n, t in self.params) + f" (oof : {self.ret}) : Nat → "
                 + " → ".join(LEAN_TY[t] for _, t in state) + f" → {self.ret}",
                 "  | 0, " + ", ".join("_" for _ in state) + " => oof",
                 "  | fuel + 1, " + ", ".join(f"{n}_in" for n, _ in state) + " => Id.run do"]
        lines += [f"    let mut {n} := {n}_in" for n, _ in state]
        lines += body
        lines.append(f"    return {name} {pargs} oof fuel " + " ".join(n for n, _ in state))
        self.aux.append("\n".join(lines))
        oof = self.default(self.ret_tag())
        return [f"{pad}return {name} {pargs} {oof} ({self.fuel}) " + " ".join(n for n, _ in state)]

    def stmts(self, body, ind):
        out = []
        pad = "  " * ind
        for pos, st in enumerate(body):
            if isinstance(st, ast.Expr) and isinstance(st.value, ast.Constant) and isinstance(st.value.value, str):
                continue                                           # docstring
            if isinstance(st, ast.While):
                if pos != len(body) - 1:
                    raise Unsupported("statements after a `while True` loop")
                out += self.while_true(st, pad)
                continue
            if isinstance(st, ast.Expr) and isinstance(st.value, ast.Call):
                f = dotted(st.value.func) or ""
                if f.startswith("_LOGGER."):
                    continue                                       # logging
                if f.endswith(".append") and len(st.value.args) == 1:
                    tgt = f[: -len(".append")]
                    a, ta = self.expr(st.value.args[0])
                    out.append(f"{pad}{self.lname(tgt)} := {self.lname(tgt)} ++ [{self.to_int(a, ta)}]")
                    continue
                raise Unsupported(f"statement call {f}")
            if isinstance(st, ast.Assign):
                if len(st.targets) != 1:
                    raise Unsupported("multiple assignment")
                t = st.targets[0]
                d = dotted(t)
                e, te = self.expr(st.value)
                if d in self.mutates:
                    out.append(f"{pad}{self.mutates[d][0]} := {self.coerce(e, te, self.mutates[d][1])}")
                elif isinstance(t, ast.Name):
                    out.append(f"{pad}{self.lname(t.id)} := {self.coerce(e, te, self.locals[t.id])}")
                else:
                    raise Unsupported(f"assignment target {ast.dump(t)[:40]}")
                continue
            if isinstance(st, ast.AugAssign):
                d = dotted(st.target)
                if type(st.op) not in BINOPS:
                    raise Unsupported("augmented operator")
                e, te = self.expr(st.value)
                name, nt = self.mutates[d] if d in self.mutates else (self.lname(d), self.locals.get(d))
                if nt != "int":
                    raise Unsupported(f"augmented assignment to a {nt}")
                out.append(f"{pad}{name} := ({name} {BINOPS[type(st.op)]} {self.to_int(e, te)})")
                continue
            if isinstance(st, ast.If):
                c = self.to_bool(*self.expr(st.test))
                out.append(f"{pad}if {c} then")
                body_lines = self.stmts(st.body, ind + 1) or [f"{pad}  pure ()"]
                out += body_lines
                if st.orelse:
                    out.append(f"{pad}else")
                    out += self.stmts(st.orelse, ind + 1) or [f"{pad}  pure ()"]
                continue
            if isinstance(st, ast.For):
                if st.orelse:
                    raise Unsupported("for-else")
                tgt = st.target.id if isinstance(st.target, ast.Name) else None
                if tgt is None:
                    raise Unsupported("for target")
                assigned = any(isinstance(x, (ast.Assign, ast.AugAssign)) and dotted(x.targets[0] if isinstance(x, ast.Assign) else x.target) == tgt
                               for s2 in st.body for x in ast.walk(s2))
                it = st.iter
                if isinstance(it, ast.Call) and dotted(it.func) == "range":
                    args = [self.to_int(*self.expr(a)) for a in it.args]
                    lo, hi = ("0", args[0]) if len(args) == 1 else (args[0], args[1])
                    if len(args) > 2:
                        raise Unsupported("range step")
                    coll = f"[{lo}:{hi}]"
                else:
                    e, te = self.expr(it)
                    if te != "list":
                        raise Unsupported("for over a non-list")
                    coll = e
                if tgt == "_":
                    out.append(f"{pad}for _ in {coll} do")
                elif assigned:
                    out.append(f"{pad}for {self.lname(tgt)}_it in {coll} do")
                    out.append(f"{pad}  {self.lname(tgt)} := {self.lname(tgt)}_it")
                else:
                    out.append(f"{pad}for {self.lname(tgt)}_it in {coll} do")
                    out.append(f"{pad}  {self.lname(tgt)} := {self.lname(tgt)}_it")
                was, self.in_loop = self.in_loop, True
                out += self.stmts(st.body, ind + 1) or [f"{pad}  pure ()"]
                self.in_loop = was
                continue
            if isinstance(st, ast.Return):
                out.append(f"{pad}return {self.ret_expr(st.value)}")
                continue
            if isinstance(st, ast.Pass):
                continue
            raise Unsupported(f"statement {type(st).__name__}")
        return out

    def translate(self):
        if isinstance(self.obj, _Missing):
            raise Unsupported(f"{self.obj.path} does not exist in the source")
        src = textwrap.dedent(inspect.getsource(unwrap_fn(self.obj)))
        fn = ast.parse(src).body[0]
        if not isinstance(fn, (ast.FunctionDef,)):
            raise Unsupported("not a plain function")
        # python parameters that are plain locals of the translation
        for a in fn.args.args:
            if a.arg != "self" and a.arg not in self.locals and not any(a.arg == k for k in self.mapping):
                pass
        self.collect_locals(fn.body)
        head = f"def {self.name} " + " ".join(f"({n} : {t})" for n, t in self.params) + f" : {self.ret} := Id.run do"
        lines = [head]
        for py, (lean, _) in self.mutates.items():
            lines.append(f"  let mut {lean} := {lean}0")
        for py, t in self.locals.items():
            if any(py == p for p, _ in self.params):
                continue
            lines.append(f"  let mut {self.lname(py)} := {self.default(t)}")
        body = self.stmts(fn.body, 1)
        ends_with_return = bool(fn.body) and isinstance(fn.body[-1], (ast.Return, ast.While))
        lines += body
        if not ends_with_return:
            lines.append(f"  return {self.ret_expr(None)}")
        return "\n\n".join(self.aux + ["\n".join(lines)])


def generate(han):
    """han: dict of imported modules. Returns ({file name: lean text}, problems)."""
    # attribute look-ups through _Safe never raise: a function the changed source no longer has becomes a _Missing
    # object, whose translation is reported as a problem (and a stub) for that one function only
    ffc, hdlc, dlde, mc = (_Safe(han[k], k) for k in ("fastframecheck", "hdlc", "dlde", "meter_connection"))
    F = ffc.FastFrameCheckSequence16
    H = hdlc.HdlcFrameHeader
    HF = hdlc.HdlcFrame
    tbl = {"FastFrameCheckSequence16.fast_frame_check_crc_table": ("Amshan.Gen.fcsTable", "list"),
           "FastFrameCheckSequence16.INIT_FCS_16": ("Amshan.Gen.fcsInit", "int"),
           "self.INIT_FCS_16": ("Amshan.Gen.fcsInit", "int"), "self.GOOD_FCS_16": ("Amshan.Gen.fcsGood", "int")}
    frame = {"self._frame": ("data", "list"), "self._frame.as_bytes": ("data", "list")}
    hdr = {**frame, "self._control_position": ("controlPosition", "optint")}                      # inside HdlcFrameHeader
    adr = {"self._get_address": ("hdlcGetAddress data", ["int"], "optlist")}
    frm = {"self": ("data", "list"), "self._frame_data": ("data", "list")}                         # inside HdlcFrame (len(self))
    infopos = {"self._header.information_position": ("(hdlcInformationPosition controlPosition)", "optint")}
    fns = [
        Fn("computeFcsTable", ffc._compute_fcs_16_crc_table, [], "List Nat"),
        Fn("fcsNext", F._next, [("crc", "Nat"), ("byte", "Nat")], "Nat", mapping={**tbl, "crc": ("crc", "int"), "byte": ("byte", "int")}),
        Fn("fcsChecksum", unwrap_fn(F.checksum), [("crcValue", "Nat")], "Nat", mapping={"self._crc_value": ("crcValue", "int")}),
        Fn("fcsIsGood", unwrap_fn(F.is_good), [("crcValue", "Nat")], "Bool", mapping={**tbl, "self._crc_value": ("crcValue", "int")}),
        Fn("fcsComputeChecksum", F.compute_checksum, [("data", "List Nat"), ("start", "Nat"), ("length", "Nat")], "Nat",
           mapping={**tbl, "data": ("data", "list"), "start": ("start", "int"), "length": ("length", "int")}),
        Fn("backoffFailure", mc.ExponentialBackOff.failure, [("delay0", "Nat")], "Nat", mutates={"self._delay": "delay"}),
        Fn("backoffReset", mc.ExponentialBackOff.reset, [("delay0", "Nat")], "Nat", mutates={"self._delay": "delay"}),
        Fn("backoffCurrent", unwrap_fn(mc.ExponentialBackOff.current_delay_sec), [("delay", "Nat"), ("maxDelay", "Nat")], "Nat",
           mapping={"self._delay": ("delay", "int"), "self.max_delay": ("maxDelay", "int")}),
        Fn("getBackOffTime", mc.ConnectionManager._get_back_off_time, [("currentDelay", "Nat"), ("sleepFlag", "Bool"), ("sleepSec", "Nat")], "Nat",
           mapping={"self.back_off_connect_error.current_delay_sec": ("currentDelay", "int"),
                    "self._connection_lost_sleep_before_reconnect": ("sleepFlag", "bool"),
                    "self.connection_lost_back_off_sleep_sec": ("sleepSec", "int")}),
        Fn("p1CalculateCrc16", dlde.DataReadout._calculate_crc16, [("readout", "List Nat"), ("endPos", "Nat")], "Nat",
           mapping={"self._readout": ("readout", "list"), "self._end_pos": ("endPos", "int")}),
        Fn("hdlcFrameFormat", unwrap_fn(H.frame_format), [("data", "List Nat")], "Option Nat", mapping=frame),
        Fn("hdlcFrameFormatType", unwrap_fn(H.frame_format_type), [("data", "List Nat")], "Option Nat",
           mapping=frame, calls={"self.frame_format": ("(hdlcFrameFormat data)", "optint")}),
        Fn("hdlcSegmentation", unwrap_fn(H.segmentation), [("data", "List Nat")], "Option Bool",
           mapping=frame, calls={"self.frame_format": ("(hdlcFrameFormat data)", "optint")}),
        Fn("hdlcFrameLength", unwrap_fn(H.frame_length), [("data", "List Nat")], "Option Nat",
           mapping=frame, calls={"self.frame_format": ("(hdlcFrameFormat data)", "optint")}),
        Fn("hdlcInformationPosition", unwrap_fn(H.information_position), [("controlPosition", "Option Nat")], "Option Nat",
           mapping={"self._control_position": ("controlPosition", "optint")}),
        # header: fields at the cached control position
        Fn("hdlcControl", unwrap_fn(H.control), [("data", "List Nat"), ("controlPosition", "Option Nat")], "Option Nat", mapping=hdr),
        Fn("hdlcHeaderCheckSequence", unwrap_fn(H.header_check_sequence), [("data", "List Nat"), ("controlPosition", "Option Nat")], "Option Nat",
           mapping=hdr),
        # header: addresses (`while True` loop; fuel len(frame) + 1, proved never to run out)
        Fn("hdlcGetAddress", H._get_address, [("data", "List Nat"), ("position", "Nat")], "Option (List Nat)",
           mapping={**frame, "position": ("position", "int")}, fuel="(data).length + 1"),
        Fn("hdlcDestinationAddress", unwrap_fn(H.destination_address), [("data", "List Nat")], "Option (List Nat)", mapping=frame, callfns=adr),
        Fn("hdlcSourceAddress", unwrap_fn(H.source_address), [("data", "List Nat")], "Option (List Nat)", mapping=frame, callfns=adr,
           calls={"self.destination_address": ("(hdlcDestinationAddress data)", "optlist")}),
        Fn("hdlcGetControlFieldPosition", H._get_control_field_position, [("data", "List Nat")], "Option Nat", mapping=frame,
           calls={"self.destination_address": ("(hdlcDestinationAddress data)", "optlist"),
                  "self.source_address": ("(hdlcSourceAddress data)", "optlist")}),
        Fn("hdlcHeaderUpdate", H.update, [("data", "List Nat"), ("isGoodFfc", "Bool"), ("controlPosition0", "Option Nat"), ("isHeaderGood0", "Option Bool")],
           "Option Nat × Option Bool", mapping={**frame, "self._frame.is_good_ffc": ("isGoodFfc", "bool")},
           mutates={"self._control_position": ("controlPosition", "optint"), "self._is_header_good": ("isHeaderGood", "optbool")},
           callfns={"self._get_control_field_position": ("hdlcGetControlFieldPosition data", [], "optint")}),
        # frame
        Fn("hdlcIsGoodFfc", unwrap_fn(HF.is_good_ffc), [("ffcIsGood", "Bool")], "Bool", mapping={"self._ffc.is_good": ("ffcIsGood", "bool")}),
        Fn("hdlcIsExpectedLength", unwrap_fn(HF.is_expected_length), [("data", "List Nat")], "Bool", mapping=frm,
           calls={"self._header.frame_length": ("(hdlcFrameLength data)", "optint")}),
        Fn("hdlcFrameCheckSequence", unwrap_fn(HF.frame_check_sequence), [("data", "List Nat"), ("controlPosition", "Option Nat")], "Option Nat",
           mapping=frm, calls=infopos),
        Fn("hdlcPayload", unwrap_fn(HF.payload), [("data", "List Nat"), ("controlPosition", "Option Nat")], "Option (List Nat)",
           mapping=frm, calls=infopos),
        Fn("hdlcIsValid", unwrap_fn(HF.is_valid), [("isGoodFfc", "Bool"), ("data", "List Nat")], "Bool",
           mapping={"self.is_good_ffc": ("isGoodFfc", "bool")}, calls={"self.is_expected_length": ("(hdlcIsExpectedLength data)", "bool")}),
    ]
    groups = {"Fcs": fns[0:5], "BackOff": fns[5:9], "P1": fns[9:10], "Hdlc": fns[10:]}
    problems = []
    files = {}
    for g, gfns in groups.items():
        out = ["/- GENERATED by harness/pytrans.py from the current /repo working tree (mechanical translation of Python",
               "   function bodies). Do not edit. Props/*Gen.lean prove these equal to the hand-written models.",
               "   One file per property group, so that a change to one function cannot break another group's proofs. -/",
               "import Amshan.Generated", "namespace Amshan.GenCode", ""]
        for fn in gfns:
            try:
                out.append(fn.translate())
            except Exception as ex:  # Unsupported or a changed signature: emit a stub that breaks the equivalence theorem
                problems.append(f"GeneratedCode{g}: pytrans: {fn.name}: {type(ex).__name__}: {ex}")
                out.append(f"/- untranslatable: {ex} -/\ndef {fn.name} : Unit := ()")
            out.append("")
        out.append("end Amshan.GenCode")
        files[f"GeneratedCode{g}.lean"] = "\n".join(out) + "\n"
    return files, problems
