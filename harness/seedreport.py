#!/usr/bin/env python3
"""Writes seeded/README.md: one row per seeded change (what it breaks, what it needs to manifest, which checks
report it) from seeded/*/meta.json."""
import glob
import json
import os

VERIF = os.path.normpath(os.path.join(os.path.dirname(os.path.abspath(__file__)), ".."))
rows = []
for mf in sorted(glob.glob(os.path.join(VERIF, "seeded", "*", "meta.json"))):
    m = json.load(open(mf))
    notes = m.get("needs_to_manifest", "")
    first = next((l.strip("-* #").strip() for l in notes.splitlines() if l.strip() and not l.startswith("#")), "")
    conf = m["confirmed"]
    ok = all(conf.get(k) for k in ("patch_applies", "tests_pass_with_patch", "demo_fails_with_patch", "demo_passes_without_patch"))
    own = m["checks"].get(m["breaks_property"], {})
    kind = "failing input" if own.get("violation_lines") and "no-failing-input-found" not in " ".join(own["violation_lines"]) else \
           ("no-failing-input-found" if own.get("exit") == 1 else "MISSED")
    rows.append((m["seed_id"], m["breaks_property"], "yes" if ok else "NO", kind, ", ".join(m.get("caught_by", [])), first[:160].replace("|", "/")))
with open(os.path.join(VERIF, "seeded", "README.md"), "w") as f:
    f.write("# Seeded changes\n\nEach change was written by a fresh sub-agent that was given only the text of one property and its own scratch\n"
            "worktree (nothing from /verif). It compiles, passes the 124 existing tests, and comes with an independent\ndemonstration (`demo.py`) that fails with the change and passes without it; all of that was re-confirmed in a\n"
            "scratch worktree by `harness/seedcheck.py`, which then ran the registered quick checks against the patched\n/repo (restored afterwards). `own check` = outcome of the check of the property the change targets.\n\n"
            "| seed | breaks | confirmed | own check | reported by | change (first line of the author's notes) |\n|---|---|---|---|---|---|\n")
    for r in rows:
        f.write("| " + " | ".join(r) + " |\n")
    f.write("\nChecks were strengthened when a seed was first missed or only reported as `no-failing-input-found`; see DESIGN.md section 8.\n")
print(len(rows), "seeds")
