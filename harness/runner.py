#!/venv/bin/python
"""Entry point of every check:  runner.py <Cxx> [--tier quick|thorough] [--replay FILE]

A  extract.py  -> Generated.lean (from the current working tree)
B  lake build Amshan.Props.Cxx + axiom audit (+ leanchecker in the thorough tier)
C  driver build; correspondence: corpus first, then generated cases; impl vs model vs spec
D  decision (DESIGN.md 2.5), evidence, exit code (0 ok, 1 violation, 2 tool failure)
"""
from __future__ import annotations

import argparse
import re
import importlib
import json
import os
import sys
import time
import traceback

sys.path.insert(0, os.path.dirname(os.path.abspath(__file__)))
import lib  # noqa: E402


class ImplHang(BaseException):     # not an Exception: a broad `except Exception` inside the library must not swallow it
    """the CPU budget of the whole check ran out"""


def _budget_exceeded(signum, frame):
    raise ImplHang("CPU budget of the check exceeded")


def finding_matches(finding, failure):
    return finding.get("property") == failure.get("property") and finding.get("input") == failure.get("case")


def main() -> int:
    ap = argparse.ArgumentParser()
    ap.add_argument("pid")
    ap.add_argument("--tier", default=os.environ.get("VERIF_TIER", "quick"))
    ap.add_argument("--replay", default=None)
    args = ap.parse_args()
    pid = args.pid.upper()
    tier = args.tier if args.tier in ("quick", "thorough") else "quick"
    try:
        seed = int(os.environ.get("VERIF_SEED", "0"))
    except ValueError:
        seed = 0
    mod = importlib.import_module(f"props.{pid.lower()}")
    res = lib.Result(pid, tier, seed)
    # watchdog on the CPU time of this process (SIGVTALRM: independent of the SIGALRM per-call alarms of C15): a loop inside
    # the library that never ends (the model proves termination) must not hang the check
    import signal
    signal.signal(signal.SIGVTALRM, _budget_exceeded)
    signal.setitimer(signal.ITIMER_VIRTUAL, 600 if tier == "quick" else 4 * 3600)

    try:
        with lib.LeanLock():
            ok, problems, out = lib.run_extract()
            if not ok:
                print(out)
                print(f"TOOL-FAILURE property={pid}: the working tree cannot be imported by the translator")
                return 2
            aud = lib.audit(pid, thorough=(tier == "thorough"))
            okd, outd = lib.build_driver()
        if not okd and problems:
            # the model driver needs a generated definition that the translator could not produce from the changed
            # source: neither the theorems' premises (pins) nor the correspondence can be re-established
            payload = {"property": pid, "kind": "no-failing-input-found", "seed": seed, "tier": tier,
                       "proof_obligations_that_no_longer_check": ["translator: " + p for p in problems] + aud["failures"],
                       "correspondence_disagreements": ["the model driver does not build against the regenerated definitions"],
                       "build_log_tail": outd[-2000:]}
            path = lib.write_replay(pid, payload)
            lib.write_evidence(res, aud, 1, getattr(mod, "ASSUMPTIONS", ()))
            print(f"[{pid}] tier={tier} seed={seed} theorems={aud['discharged']}/{aud['obligations']} cases=0 (driver does not build)")
            print(f"VIOLATION property={pid} replay={path} no-failing-input-found")
            return 1
        if not okd:
            print(outd[-3000:])
            print(f"TOOL-FAILURE property={pid}: driver does not build")
            return 2
        # a translator problem concerns this property only when the generated name (or generated module) it is
        # about is used by a file in the import closure of this property's theorems
        closure, modules = "", set()
        for src in lib.lean_sources(pid):
            modules.add(os.path.basename(src)[:-5])
            if not os.path.basename(src).startswith("Generated"):
                try:
                    closure += open(src).read()
                except OSError:
                    pass
        for p in problems:
            m = re.match(r"EXTRACT-PROBLEM (\w+):", p)
            if m is None:
                aud["failures"].append("translator: " + p)
            elif m.group(1).startswith("GeneratedCode"):
                if m.group(1) in modules:
                    aud["failures"].append("translator: " + p)
            elif m.group(1).startswith("section_"):
                pass    # the definitions the section could not produce are missing: files that use them fail to build
            elif re.search(r"\b" + re.escape(m.group(1)) + r"\b", closure):
                aud["failures"].append("translator: " + p)
        lib.import_repo()

        if args.replay:
            payload = json.load(open(args.replay))
            if isinstance(payload.get("case"), dict) and payload["case"].get("op") == "tables":
                import dec_common
                return dec_common.replay_tables(payload["case"])
            return mod.replay(payload, res)

        # address-space limit for the correspondence phase (set after the Lean builds, which map large files): a loop in the
        # library that allocates without bound must end in a MemoryError inside the library, not in the machine swapping
        try:
            import resource
            cap = int(os.environ.get("VERIF_MEM_LIMIT_MB", "6144")) * 1024 * 1024
            soft, hard = resource.getrlimit(resource.RLIMIT_AS)
            if hard == resource.RLIM_INFINITY or cap < hard:
                resource.setrlimit(resource.RLIMIT_AS, (cap, hard))
        except (ImportError, ValueError, OSError):
            pass
        mod.run(res, tier, seed)

        proof_broken = bool(aud["failures"])
        tie_broken = bool(res.tie_breaks)
        if "dec_common" in sys.modules:       # decoding must not change module-level tables (constants of the model)
            for case, what in sys.modules["dec_common"].TABLE_EVENTS[:20]:
                res.prop_failure(case, what, "module_tables")
        edited = lib.changed_fingerprints(pid)
        if edited:
            res.notes.append("the literals of hand-modelled function(s) changed (" + ", ".join(edited) + "): widened search")
        if (proof_broken or tie_broken or edited) and not res.prop_failures and hasattr(mod, "search"):
            res.notes.append("proof or correspondence broken, or a modelled function edited: running the widened failing-input search")
            mod.search(res, tier, seed)
            tie_broken = bool(res.tie_breaks)

        known = lib.load_known_findings()
        violations = 0
        lines = []
        reported = set()
        for fail in res.prop_failures:
            key = json.dumps(fail["case"], sort_keys=True, default=str)
            if key in reported:
                continue
            reported.add(key)
            kf = next((k for k in known.get("findings", []) if k.get("property") == pid and k.get("input") == fail["case"]), None)
            if kf:
                lines.append(f"KNOWN-FINDING: property={pid} {kf.get('fails', fail['what'])}")
                continue
            if violations >= 5:
                continue
            path = lib.write_replay(pid, {"property": pid, "kind": "failing-input", "seed": seed, "tier": tier,
                                          "case": fail["case"], "what": fail["what"], "family": fail.get("family", "")})
            lines.append(f"VIOLATION property={pid} replay={path}")
            violations += 1
        if violations == 0 and (proof_broken or tie_broken):
            payload = {"property": pid, "kind": "no-failing-input-found", "seed": seed, "tier": tier,
                       "proof_obligations_that_no_longer_check": aud["failures"],
                       "correspondence_disagreements": res.tie_breaks[:10],
                       "build_log_tail": aud.get("log", "")[-2000:]}
            path = lib.write_replay(pid, payload)
            lines.append(f"VIOLATION property={pid} replay={path} no-failing-input-found")
            violations += 1
        lib.write_evidence(res, aud, violations, getattr(mod, "ASSUMPTIONS", ()))
        print(f"[{pid}] tier={tier} seed={seed} theorems={aud['discharged']}/{aud['obligations']} "
              f"cases={res.evaluations} nontrivial={len(res.nontrivial)} tie_breaks={len(res.tie_breaks)} "
              f"property_failures={len(res.prop_failures)} wall={time.time() - res.t0:.1f}s")
        for f in aud["failures"]:
            print("  proof obligation broken:", f[:600])
        for t in res.tie_breaks[:3]:
            print("  correspondence disagreement:", json.dumps(t, default=str)[:600])
        for l in lines:
            print(l)
        return 1 if violations else 0
    except lib.ToolFailure as ex:
        print(f"TOOL-FAILURE property={pid}: {ex}")
        return 2
    except (Exception, ImplHang) as ex:
        traceback.print_exc()
        # An exception that was RAISED INSIDE the library (innermost frame under REPO/han) at a place where the harness,
        # written against the model, expects none, is a disagreement between implementation and model: the
        # correspondence no longer holds. (On the unchanged tree this never happens.) Anything else - an exception
        # raised in harness code, a missing private attribute the harness uses - is a tool failure, never a violation.
        tb = traceback.extract_tb(ex.__traceback__)
        inner = tb[-1].filename if tb else ""
        in_lib = [f for f in tb if os.path.abspath(f.filename).startswith(os.path.join(os.path.abspath(lib.REPO), "han") + os.sep)]
        if isinstance(ex, (ImplHang, MemoryError)) and in_lib:
            inner = in_lib[-1].filename     # (the handler itself / an allocation in a callee may be the innermost frame)
        if os.path.abspath(inner).startswith(os.path.join(os.path.abspath(lib.REPO), "han") + os.sep) \
                and not isinstance(ex, (AttributeError, ImportError, NameError, TypeError)):
            payload = {"property": pid, "kind": "no-failing-input-found", "seed": seed, "tier": tier,
                       "proof_obligations_that_no_longer_check": [],
                       "correspondence_disagreements": [
                           (f"the implementation did not return within the CPU budget of the check (stopped inside {inner})" if isinstance(ex, ImplHang)
                            else f"the implementation raised {type(ex).__name__}: {ex} where the model raises nothing")],
                       "traceback": traceback.format_exc()[-3000:]}
            path = lib.write_replay(pid, payload)
            print(f"[{pid}] tier={tier} seed={seed} correspondence broken: the implementation raised {type(ex).__name__} inside {inner}")
            print(f"VIOLATION property={pid} replay={path} no-failing-input-found")
            return 1
        print(f"TOOL-FAILURE property={pid}: harness crashed")
        return 2


def supervised() -> int:
    """Run main() in a child process under a wall-clock budget.  Python-level watchdogs (signals, threads) cannot stop
    a call that never leaves C code while holding the GIL (a regular expression that backtracks exponentially, say):
    the parent can.  Shortly before the budget ends the child's Python stack is dumped (faulthandler, needs no GIL);
    if the innermost frames are inside the library the hang is the implementation's - the model proves termination -
    and is reported as a broken correspondence; otherwise it is a tool failure (exit 2)."""
    import faulthandler
    import tempfile
    tier = "thorough" if ("--tier" in sys.argv and "thorough" in sys.argv[sys.argv.index("--tier") + 1:sys.argv.index("--tier") + 2]) \
        or os.environ.get("VERIF_TIER") == "thorough" else "quick"
    default_budget = "120" if "--replay" in sys.argv else ("1200" if tier == "quick" else str(5 * 3600))
    budget = int(os.environ.get("VERIF_WALL_BUDGET", default_budget))
    pid_arg = next((a for a in sys.argv[1:] if not a.startswith("-")), "C00").upper()
    dump = tempfile.NamedTemporaryFile("w+", prefix="verif_stack_", suffix=".txt", delete=False)
    hb = tempfile.NamedTemporaryFile("w+", prefix="verif_case_", suffix=".json", delete=False)
    hb.close()
    os.environ["VERIF_HEARTBEAT"] = hb.name
    child = os.fork()
    if child == 0:
        try:        # die with the supervising parent (an outer timeout that kills the parent must not leave this child spinning)
            import ctypes
            import signal as _sig
            ctypes.CDLL("libc.so.6", use_errno=True).prctl(1, int(_sig.SIGKILL), 0, 0, 0)   # PR_SET_PDEATHSIG
        except Exception:  # noqa
            pass
        faulthandler.dump_traceback_later(max(1, budget - 5), file=dump, exit=False)
        rc = 2
        try:
            rc = main()
        finally:
            sys.stdout.flush()
            sys.stderr.flush()
            os._exit(rc)
    t0 = time.time()
    while True:
        done, status = os.waitpid(child, os.WNOHANG)
        if done:
            for tmp in (dump.name, hb.name):
                try:
                    os.unlink(tmp)
                except OSError:
                    pass
            return os.waitstatus_to_exitcode(status) if hasattr(os, "waitstatus_to_exitcode") else (status >> 8)
        if time.time() - t0 > budget:
            break
        time.sleep(0.2)
    import signal
    os.kill(child, signal.SIGKILL)
    os.waitpid(child, 0)
    stack = open(dump.name).read()
    os.unlink(dump.name)
    try:
        last_case = json.load(open(hb.name))
    except (OSError, ValueError):
        last_case = None
    try:
        os.unlink(hb.name)
    except OSError:
        pass
    lib_dir = os.path.join(os.path.abspath(lib.REPO), "han") + os.sep
    frames = re.findall(r'File "([^"]+)", line (\d+) in (\w+)', stack)
    # faulthandler prints the most recent call first
    inner_in_lib = bool(frames) and any(os.path.abspath(f).startswith(lib_dir) for f, _, _ in frames[:6])
    print(stack[-3000:])
    if inner_in_lib:
        where = next(f"{f}:{ln} in {fn}" for f, ln, fn in frames if os.path.abspath(f).startswith(lib_dir))
        what = f"the implementation did not return within the wall-clock budget of the check ({budget} s); stopped inside {where}"
        if isinstance(last_case, dict) and last_case.get("op"):
            # the case that was being evaluated is known: a concrete failing input (the replay runs under the same supervision)
            payload = {"property": pid_arg, "kind": "failing-input", "tier": tier, "case": last_case, "what": what, "stack": stack[-4000:]}
            path = lib.write_replay(pid_arg, payload)
            print(f"[{pid_arg}] tier={tier} the implementation did not return on {json.dumps(last_case)[:300]} (stopped inside {where})")
            print(f"VIOLATION property={pid_arg} replay={path}")
            return 1
        payload = {"property": pid_arg, "kind": "no-failing-input-found", "tier": tier,
                   "proof_obligations_that_no_longer_check": [],
                   "correspondence_disagreements": [what], "stack": stack[-4000:]}
        path = lib.write_replay(pid_arg, payload)
        print(f"[{pid_arg}] tier={tier} correspondence broken: the implementation did not return (stopped inside {where})")
        print(f"VIOLATION property={pid_arg} replay={path} no-failing-input-found")
        return 1
    print(f"TOOL-FAILURE property={pid_arg}: wall-clock budget of {budget} s exceeded outside the library")
    return 2


if __name__ == "__main__":
    sys.exit(supervised())
