#!/usr/bin/env python3
"""Writes MANIFEST.json from the table below (kept next to the checks so both change together)."""
import json
import os

VERIF = os.path.normpath(os.path.join(os.path.dirname(os.path.abspath(__file__)), ".."))

NOTE_COMMON = ("Trusted base: Lean 4.33 kernel (axioms propext, Classical.choice, Quot.sound only; no sorry/native_decide/bv_decide); "
               "harness/extract.py regenerates all tables/constants/literals from /repo on every run and harness/pytrans.py translates 55 "
               "function and method bodies (FCS, CRC-16, back-off, HDLC header/frame accessors, both readers down to their buffers - read(), "
               "_ReaderBuffer -, the AutoDecoder rotation, the protocols' reader selection), proved equal to the model (Props/*Gen*.lean); the rest of the hand-written control-flow model is tied to the "
               "Python code by a differential correspondence check (sampled, not proved). ")

CHECKS = {
    "C03": dict(
        text="Theorems (Props/C03.lean): the regenerated 256-entry table is the RFC 1662 table; the table-driven step equals the "
             "bit-serial step for all 2^16 x 2^8 (register, octet) pairs; update/checksum/compute_checksum equal the bit-serial FCS-16 "
             "for every byte string and window (induction on length); is_good holds exactly when the message ends with the FCS of the "
             "preceding octets, low octet first. Proof by xor-linearity, no enumeration beyond 256 cases. Correspondence: real "
             "FastFrameCheckSequence16 vs model vs spec on all registers x boundary octets, all octets x seeded registers (quick) or the "
             "full 2^24 step domain (thorough), plus random messages with right/flipped/swapped trailers and random windows.",
        note=NOTE_COMMON + "compute_checksum modelled for start,length >= 0 only.",
        technique="Lean 4 proof (xor-linearity of the CRC shift, induction over the message) + regenerated table + differential correspondence",
        design="5/C03"),
}

CHECKS["C01"] = dict(
    text="Read()-level forms (Props/C01Read.lean): read_frames_inv, read_valid_iff_intact, read_accessors_exact, read_framing(_history) for any reader reachable by read() calls and any chunking; tie by translation (C01Gen, C01GenReader): header/frame accessors and the reader's state-machine core as mechanically translated from the source equal the model. "
         "Theorems (Props/C01.lean, C01Framing.lean) over the model of han/hdlc.py for ALL octet streams, configurations and (by C06) "
         "splittings: every returned frame satisfies the frame invariant (running FCS register = FCS of its octets, cached control "
         "position = position determined by the address fields); is_valid <-> Intact (length field = octet count and trailer = "
         "RFC 1662 FCS-16 of the preceding octets, low octet first; uses the C03 residue theorem); every returned frame has a complete "
         "header and for a frame of shape fmt|dst|src|ctl|hcs|rest each accessor returns exactly those octets; framing: the returned "
         "frames are the (un-stuffed) images of contiguous, disjoint, in-order segments of the input, each between two flag octets "
         "(inductive spec Carve). Correspondence: real HdlcFrameReader vs model on generated stream families x 4 cfgs x chunkings and on "
         "all short streams over a 5-symbol alphabet; the implementation's output is also judged by an executable transcription of the spec.",
    note=NOTE_COMMON + "Not modelled: logging, the cached _is_header_good flag, buffer content before the read position.",
    technique="Lean 4 proof (invariants by induction over the octet stream, C03 residue) + regenerated constants + differential correspondence",
    design="5/C01")
CHECKS["C06"] = dict(
    text="Theorems (Props/C06.lean): the buffer-level model of read() (buffer, read position, hunt-mode trimming, loop) equals the "
         "octet-at-a-time machine; a read() call leaves nothing unread; any sequence of read() calls equals one run over the "
         "concatenated stream; hence for every stream, every two splittings, every configuration and every reachable reader state the "
         "same frames (all fields) come out and the reader ends in the same state. Correspondence: real reader vs model (frames and "
         "internal buffer/raw/frame sizes after every call) on generated families x 3 chunkings x 4 cfgs and exhaustively on all "
         "streams up to a small length over {7E,7D,A0,07,01} x every cut set; over-long runs (> 2047 octets without a flag, then a flag and good frames) in one chunk / cut after octet 2048 / cut before / fixed blocks; outputs of the real reader are compared across chunkings.",
    note=NOTE_COMMON + "Buffer content before the read position is represented by its length only.",
    technique="Lean 4 proof (refinement: buffered loop = per-octet fold, by functional induction) + differential correspondence",
    design="5/C06")

CHECKS["C02"] = dict(
    text="Read()-level (Props/C02Read.lean): clean_stream_observed (what each returned frame reports = what was sent), also from a hunting / between-frames reader; tie by translation re-exported (C02GenReader). "
         "Theorem clean_stream_delivered (Props/C02.lean): for every configuration, flag-free noise, every list of well-formed frame "
         "descriptors (any format type, segmentation bit, 1..n-octet addresses, control, payload octets incl. flags/escapes, total <= 2047) "
         "inside the stated domain (stuffing, or no flag in header+HCS and - with abort detection - no escape directly before a flag or the "
         "end), fill >= 1 flags, and EVERY splitting into read() calls, the model reader returns exactly one frame object per descriptor, in "
         "order; expected_observation shows that object is valid with the exact payload, addresses, control, length, format type and "
         "segmentation. Proved via one_frame + induction over the frame list + the C06 refinement. Correspondence: descriptors -> Lean spec "
         "encoder (the very `wire` term of the theorem) -> real HdlcFrameReader; boundary lengths incl. 2047; random cuts.",
    note=NOTE_COMMON + "Frames are generated inside the decidable domain predicate; out-of-domain controls are compared impl-vs-model only.",
    technique="Lean 4 proof (one-frame lemma, induction over frames, refinement to chunked reads) + spec-encoder-driven differential correspondence",
    design="5/C02")
CHECKS["C04"] = dict(
    text="Raw bytes (Props/C04General.lean): valid_iff - is_valid = True iff the identification line is 7-bit and matches, data octets <= 0x80, and the text after '!' is blank or int(.strip(),16)-parsable to the CRC-16/ARC of the bytes through '!' (end_grammar states that grammar - str.strip() white space incl. 0x1C..0x1F around the number; int16_grammar the one of int() itself, which skips C white space only); valid_complete_general/_ascii, no_lf_invalid; C04Gen: translated _calculate_crc16 = model. "
         "Theorems (Props/C04.lean): the CRC loop is CRC-16/ARC for every byte string; valid_sound: a readout built by the constructor and "
         "reported valid has a parsing identification line and, whenever the text after '!' is four hex digits (+ optional CR LF), that value "
         "equals the CRC of the bytes from '/' through '!' (0000 included); mismatch_invalid; isValid_total (never raises); valid_complete: "
         "every well-formed readout descriptor (IEC 62056-21 identification, printable data lines, checksum in either case or none) encodes to "
         "a readout that is valid with payload = exactly the bytes between identification line and '!' and the transmitted identification "
         "groups; payload_exact; ident_wellformed (what a pattern match means). Correspondence: real DataReadout vs model on valid readouts, "
         "all kinds of checksum-field replacement (0000 on zero- and non-zero-CRC readouts, case variants, +-1, non-hex text incl. 0x/_/sign "
         "forms of int()), bit flips, noise, and spec-encoded readouts; the first three readouts of a fresh interpreter (a new process per case, direct and through the reader: is_valid does not depend on what the process did before); thorough adds all 65536 checksum values.",
    note=NOTE_COMMON + "Modelled, not verified: bytes.decode/strip/find, int(text,16) grammar, the identification regular expression "
         "(deterministic equivalent pinned to the pattern text).",
    technique="Lean 4 proof over models of DataReadout/Ident/CRC16 and CPython string built-ins + differential correspondence",
    design="5/C04")
CHECKS["C20"] = dict(
    text="Theorems (Props/C20.lean): parse_reduced (all 16 presence patterns, every group value 0..255), parse_standard, no_ddd_raises (no "
         "digit-dot-digit anywhere => ValueError, via inversion lemmas of the matcher), parse raises only ValueError, eq_iff, hash_congr, "
         "eq_string_parses_first, cde_exact, roundtrip and roundtrip_str (format then parse gives the same groups when optional groups are "
         "absent or non-zero). The matcher is the deterministic equivalent of re.match with the combined pattern; pattern texts are pinned "
         "against the regenerated source strings. Correspondence: real to_obis_tupple / Obis methods vs model on both syntaxes, presence "
         "patterns x boundary values, a mutation grammar of malformed strings, formatting, equality and hashing, incl. neighbouring codes (one group or two adjacent groups changed by absent <-> 0, +-1) compared as objects in both orders and through the string path.",
    note=NOTE_COMMON + "Modelled: the regular-expression engine on ASCII input (deterministic equivalent, tied by the correspondence), int(), f-strings of ints.",
    technique="Lean 4 proof (matcher lemmas + inversion) + pinned pattern text + differential correspondence",
    design="5/C20")

CHECKS["C13"] = dict(
    text="Theorems (Props/C13.lean), generic in the candidate readers (any state type, any read function): message_queue_exact - the queue "
         "holds exactly the messages of the selected reader from the chunk in which it first reported a valid message on; "
         "payload_queue_exact - exactly the non-empty payloads of its valid messages, in order, no loss, no duplication, nothing from "
         "invalid messages or other candidates; selected_is_first_valid - the selected reader is the first candidate (list order) in the "
         "earliest chunk with a valid message; single_candidate. All by induction over the chunk sequence against a specification stated on "
         "each candidate's OWN message stream. Tie by translation (Props/C13GenProto.lean): gen_dataReceived - data_received and the two "
         "message_received methods as mechanically translated from the source equal the model step (state up to the erased selection index, "
         "forwarded items in order). Correspondence: real SmartMeterMessageProtocol / SmartMeterMessagePayloadProtocol with real "
         "readers and asyncio.Queue vs the model instantiated with the HDLC and P1 reader models, on clean/corrupted/mixed streams x "
         "chunkings x 11 candidate lists; the implementation's queue is also compared with the specification computed from separately fed "
         "real readers, and on clean streams with what the generator transmitted (byte by byte, a cut after every flag / line end, every candidate order inside hQuiet).",
    note=NOTE_COMMON + "Partial: the clean-stream sentence of the statement needs 'the other candidate reports no valid message before "
         "selection' (an HDLC payload may legally embed a complete P1 readout), so it is checked on generated streams, not proved unconditionally.",
    technique="Lean 4 proof (generic refinement of data_received to a per-reader specification; translated data_received = model step) + differential correspondence",
    design="5/C13")
CHECKS["C14"] = dict(
    text="Theorems (Props/C14Hdlc.lean, C14P1.lean): the readers are re-modelled with PARTIAL primitives (indexing, seq[-1:][0], assert, "
         "bytes.decode('ascii'), int(text,16), line[0], the DataReadout constructor) that do fail on some inputs; readE_ok / readNextE_ok / "
         "accessor theorems show every HDLC call site is guarded (the Except-valued model returns .ok of the pure model for every state, "
         "configuration and chunk); p1_readAll_total / p1_read_total: no chunk sequence makes ModeDReader.read raise; p1_isValid_total: "
         "is_valid never raises. Usability after noise is C16. Correspondence: noise biased to the structural characters through both real "
         "readers (4 HDLC cfgs), every message accessor, and both protocol classes with [HDLC,P1]/[P1,HDLC] candidates; any escaping "
         "exception is a failing input.",
    note=NOTE_COMMON + "Exceptions from unmodelled library code (logging formatting, MemoryError) are outside the theorems.",
    technique="Lean 4 proof (Except-valued refinement: every partial primitive is guarded) + differential noise correspondence",
    design="5/C14")
CHECKS["C19"] = dict(
    text="Read()-level (Props/C19HdlcRead.lean): hdlc_bounded_readAll / _every_call for any chunking. "
         "Theorems (Props/C19Hdlc.lean, C19P1.lean) for EVERY history: after any read() the HDLC reader retains at most 3*2047+1 octets "
         "(buffer empty between calls, frame <= 2047, raw history <= 2*frame+1) - attained exactly in the soak; the P1 reader carries at most "
         "guard + |chunk| pending octets into the next call and retains at most 2*8191 + 2*|chunk| octets (consumed bytes stay in the "
         "bytearray until the next call while they are also copied into the collected lines; a machine-checked counterexample shows the "
         "factor 2 is needed). Correspondence: logical buffer/raw/frame sizes after EVERY call, real reader vs model, on the quantifier's "
         "stream patterns x chunk sizes; soak of 1 MiB (quick) / 8 MiB (thorough) per pattern measuring logical sizes against the theorem "
         "bounds and sys.getsizeof of the containers against an affine envelope.",
    note=NOTE_COMMON + "Partial: CPython's allocator is not modelled; the theorems bound logical octet counts, the soak measures bytes.",
    technique="Lean 4 proof (size invariants by induction over all histories) + state-size correspondence + soak",
    design="5/C19")

CHECKS["C05"] = dict(
    text="Theorem p1_clean_delivered (Props/C05.lean): for every (optional) tail without a start character, every list of well-formed "
         "readout descriptors each no larger than the reader's size guard, and EVERY splitting of tail ++ readouts into read() calls - "
         "streams of any total length - the model reader returns exactly one readout object per descriptor, in order, byte-identical "
         "(C04 valid_complete shows each is valid). Proved with an invariant tying the reader state (hunt flag, collected lines, pending "
         "partial line) to the position in the clean stream, including that the size guard never trips. Correspondence: descriptors -> "
         "Lean spec encoder -> real ModeDReader with leading tails, readouts up to ~8 KiB, streams of hundreds of KiB (thorough), chunk "
         "sizes {1,7,100,1000,4096}, random cuts.",
    note=NOTE_COMMON + "The guard constant and the identification pattern text are regenerated and pinned.",
    technique="Lean 4 proof (stream-position invariant over all chunkings) + spec-encoder-driven differential correspondence",
    design="5/C05")
CHECKS["C16"] = dict(
    text="Read()-level and tightened (Props/C16HdlcRead.lean): hdlc_resync_plain_tight/_chunked/_read with bound maxFrameLen + L (checked example: +L needed), hdlc_resync_plain_survivors_read without the 'no frame ends in 7D' hypothesis (abort detection on: exactly `survivors` come out; checked witness that a clean frame ending in 7D is lost). "
         "Theorems: hdlc_resync_stuffing(_chunked) - after ANY octets, with octet stuffing, every well-formed frame of a following clean "
         "stream except possibly the first is delivered, exact and in order, for every chunking; hdlc_resync_plain - without stuffing, "
         "flag-free frames are all delivered from a point at most maxFrameLen + 2 frames into the clean stream; p1_resync - after ANY "
         "bytes every well-formed readout except possibly the first is delivered, for every chunking. No-contamination follows from the C01 "
         "framing theorem (frames are images of disjoint input segments). Correspondence: noise families of the quantifier (random, "
         "look-alike starts, ending in escape, truncated messages, abort sequences, > 2047 garbage, over-long unterminated readouts) + 2..40 "
         "clean messages from the spec encoders x chunkings x 4 cfgs; valid outputs compared with the sent list.",
    note=NOTE_COMMON + "Without stuffing the clean frames are generated flag-free (the statement's domain).",
    technique="Lean 4 proof (case analysis on the state at the first delimiter + clean-stream lemma) + differential correspondence",
    design="5/C16")

CHECKS["C07"] = dict(
    text="Theorems (Props/C07.lean): aidon_roundtrip_body / aidon_roundtrip_frame - for EVERY list of well-formed Aidon elements (any OBIS "
         "codes in any order; text, clock and register elements; registers of each transmitted integer type over their whole range, any "
         "scaler -128..127, any unit) and any LLC/APDU header, decode_notification_body and decode_frame_content return exactly the "
         "expected dictionary: common field name (or C.D.E), value = register x 10^scaler (the integer when scaler = 0 or register = 0, "
         "otherwise the double nearest to the exact value), text verbatim, clock = transmitted date-time, manufacturer 'Aidon'; "
         "scaled_int_iff. The model of the construct grammar is hand-written (Model/Cosem.lean, Model/Aidon.lean). Correspondence: list "
         "descriptors -> Lean spec encoder -> real decoders, compared with the model decoder (tie, incl. exception classes) and the "
         "specification's expected dictionary (exact float comparison); plus 40k mutated fixtures in C15.",
    note=NOTE_COMMON + "Modelled, not verified: the construct combinators (Select/GreedyRange/Peek failure semantics), Decimal arithmetic, "
         "float(Decimal) = correctly rounded (exact binary64 model).",
    technique="Lean 4 proof (parser/encoder round trip by induction over the element list) + spec-encoder-driven differential correspondence",
    design="5/C07")
CHECKS["C10"] = dict(
    text="Theorems (Props/C10.lean): datetime_exact - every valid COSEM date-time (all calendar dates 1..9999 with the leap rule, all "
         "times, hundredths 0..99 or unspecified, deviation -720..720 or unspecified, every status octet and day of week) decodes to exactly "
         "those civil fields, microseconds = hundredths x 10000 and UTC offset = -deviation (none when unspecified), consuming 13 octets; the "
         "same in a generic field (Kaifa list element), a date-time field (Kamstrup element, tagged APDU) and the APDU header with null, "
         "tagged or untagged date-time (apdu_clock). The list positions are additionally covered by the C07/C08/C09 round trips. A "
         "machine-checked example shows 'hour not specified' is NOT decodable (TypeError) - the statement's hypothesis is needed. "
         "Correspondence: boundary and seeded date-times in seven syntactic positions through the real decoders, expected instant computed "
         "independently in Python.",
    note=NOTE_COMMON + "Modelled: datetime.datetime/timezone argument checks.",
    technique="Lean 4 proof (arithmetic on the 13 octets, calendar validity) + differential correspondence in every syntactic position",
    design="5/C10")
CHECKS["C18"] = dict(
    text="Trace level (Props/C18Trace.lean): attempt_after_failure_paced (for every reachable log: tf + min(2^(n-1), max_delay) <= ta), backoff_state_matches_log, attempt_after_two_losses_paced (+ checked counterexample to the naive breaker sentence: the breaker compares the times the loop SEES the losses); C18Gen: translated back-off bodies = model. "
         "Theorems (Props/C18.lean): backoff_value - for EVERY sequence of failure()/reset() calls and every max_delay the strategy reports "
         "min(2^(n-1), max_delay) after n >= 1 failures since the last reset and 0 after a reset; reset_restarts; capped_and_monotone; "
         "sleep_time_eq - _get_back_off_time = max(connect-error delay, breaker sleep if flagged); breaker_sets / breaker_clears - two "
         "losses within the threshold make the next attempt wait at least the configured sleep, losses further apart add nothing. "
         "Correspondence: real ExponentialBackOff on all sequences up to length 10 (14 thorough) x 5 max_delay values and random ones up to "
         "200; real ConnectionManager breaker/_get_back_off_time with a patched clock. The placement of these sleeps on the event loop "
         "(attempt starts no sooner than failure + delay, no later than max(delay, breaker sleep)) is judged on the running manager on the C17 virtual-time loop: runs of failed attempts whose factory raises a different exception class per attempt (OSError family and not), interleaved with successes and losses.",
    note=NOTE_COMMON + "Partial: real wall-clock scheduling slack is outside the model; times are integer microseconds.",
    technique="Lean 4 proof (induction over call sequences) + exhaustive small-domain correspondence",
    design="5/C18")

CHECKS["C08"] = dict(
    text="Theorems (Props/C08.lean, C08Final.lean): for every well-typed positional list of the five documented lengths (1, 9, 13, 14, 18) with "
         "ANY 32-bit registers, printable id strings and valid date-time, and every OBIS-tagged list, body and frame decoding return exactly "
         "the expected dictionary: documented field per position / OBIS code, currents = register/1000 and voltages = register/10 as the "
         "correctly rounded doubles, powers and energies = the register, text verbatim, manufacturer 'Kaifa'; for frames the APDU clock "
         "unless the list carries its own clock element, which wins. tables_documented re-proves that the regenerated positional tables and "
         "the scaling table are the documented ones. The float step is discharged by Props/C11Float.lean scaled_correct "
         "(round(v*10^-s, s) = nearest double to v/10^s for all v < 2^32, proved about an exact integer model of binary64). "
         "Correspondence: descriptors -> Lean spec encoder -> real decoders vs model vs expected dictionary, exact float comparison.",
    note=NOTE_COMMON + "Modelled, not verified: construct combinators, CPython float arithmetic and round() (exact binary64 model tied by "
         "correspondence on all 16-bit and sampled 32-bit registers).",
    technique="Lean 4 proof (round trip over the two body grammars + exact binary64 rounding lemma) + spec-encoder-driven differential correspondence",
    design="5/C08")
CHECKS["C09"] = dict(
    text="Theorems (Props/C09.lean, C09Final.lean): for every well-formed Kamstrup list (list-version string, OBIS-tagged elements in any "
         "order with u16/u32 registers over their whole range, text, clock, ANY amount of null-data padding after ANY element, any meter "
         "type number) body and frame decoding return exactly the expected dictionary: currents = register/100, or register/1000 when the "
         "meter type number begins with 685, energies = register x 10, other registers unchanged, text verbatim, manufacturer 'Kamstrup', "
         "frame clock = APDU date-time; tables_documented pins the regenerated scaling tables, meter-type OBIS code and CT prefix. Float step "
         "as in C08. Correspondence: descriptors (incl. CT and non-CT meter types, padding, shuffled order) -> Lean spec encoder -> real decoders.",
    note=NOTE_COMMON + "Modelled, not verified: construct combinators (GreedyRange/If/Peek), CPython float arithmetic and round().",
    technique="Lean 4 proof (greedy element parser round trip, OBIS-text injectivity for the scaling lookup, exact binary64 lemma) + differential correspondence",
    design="5/C09")
CHECKS["C11"] = dict(
    text="End to end (Props/C11End.lean): ofStr_decimal (float(text) of a decimal text is ofRat digits 10^k), decode_kilo_decimal(_digits) (kW.. values give E or E-1, never above, <= 15 significant digits), decode_plain_decimal(_error) (correctly rounded binary64, relative error <= 2^-53). "
         "Theorems (Props/C11.lean, C11Float.lean): parse_block - every well-formed data block (several data sets per line, 1..n values, "
         "units, blank lines, LF/CRLF) parses into exactly the transmitted data sets; parse_terminates and parse_cost(_tight) - the repaired "
         "parser never exhausts the model's fuel and makes at most len(data) loop iterations; decode_name, decode_verbatim, "
         "decode_plain_unit, decode_kilo_unit, decode_clock; readout_eq_content_plus_ident (same block through decode_p1_readout = content "
         "decoding + the two identification fields); kilo_unit_bound - for every decimal with up to three fractional digits and product "
         "E < 2^50, int(float(value)*1000) is E or E-1, never above (proved about the exact binary64 model, with a machine-checked witness "
         "that E-1 occurs). Correspondence: grammar-generated blocks through real parse/decode/AutoDecoder paths vs model; the one-sided "
         "bound is also evaluated on the real interpreter for a slice (quick) or all (thorough) of the 10^6 three-decimal values; the four routes are evaluated separately (a block one route decodes and another refuses is a failure).",
    note=NOTE_COMMON + "Modelled, not verified: str.splitlines/strip/find/split/lower, float(str), float multiplication, int(float), datetime().",
    technique="Lean 4 proof (parser round trip with explicit fuel, exact binary64 error analysis in Mathlib rationals) + differential correspondence",
    design="5/C11")
CHECKS["C12"] = dict(
    text="Theorems: generic (Props/C12.lean, any decoder list): step_total, none_iff_all_reject, result_from_accepting, prefers_previous, "
         "first_in_cyclic_order, previous_unchanged_on_none, previous_names_last_success (induction over histories), all_caught (the except "
         "clause read from the source catches every exception class), decoder_order_pin. Concrete (Props/C12Own.lean, the seven modelled "
         "decoders): own_decoder_same_history; on a fresh AutoDecoder genuine Aidon, Kaifa and Kamstrup frames and P1 blocks are decoded by "
         "their own decoder (earlier decoders in cyclic order provably reject: array-vs-structure tag, an OBIS octet >= 0x80 defeats both "
         "Kaifa grammars, the ninth octet of ASCII text is no date-time start); message_eq_payload for HDLC and DLMS messages; empty payload "
         "-> None. Bare bodies (Props/C12OwnBody.lean): fresh_k (generic), frame_decoders_reject (decoders 0-2 reject whenever octets 9.. do "
         "not read as an APDU date-time followed by a list: predicate noApduStart), p1_decoder_rejects_control/_tag (after fix 74e2123 the P1 "
         "payload decoder rejects every payload starting with the array/structure tag), own_aidon_body_fresh, own_kaifa_body_fresh_wf "
         "(unconditional for the documented Kaifa lists), own_kaifa_obis_body_fresh_wf, own_kamstrup_body_fresh_wf/_version; every remaining "
         "hypothesis carries a decide-checked witness that it is needed and a non-vacuity example. Tie by translation (Props/C12GenAuto.lean): "
         "gen_decodePayload - decode_message_payload as mechanically translated from the source equals Auto.step for every decoder list, "
         "except-clause, remembered index and payload. Correspondence: histories exhaustively to length 2 (3 thorough) over a 14-element pool and randomly to length 30, each "
         "step judged against the seven individual real decoders; own-decoder checks incl. bare bodies; decode_message vs payload, also for messages that are not valid (damaged FCS, 1-4 octet DLMS messages) and P1 readout objects judged against decode_p1_readout on its own.",
    note=NOTE_COMMON + "Partial: for bare Aidon / Kaifa-OBIS / Kamstrup bodies 'own decoder on a fresh AutoDecoder' is proved under the explicit "
         "octet-level hypothesis noApduStart (lists whose first OBIS code makes octets 9.. read as a date-time + list start ARE taken by a frame "
         "decoder: checked witnesses, behaviour of the real code, outside 'genuine' lists whose first element is the list-version id).",
    technique="Lean 4 proof (generic loop lemmas + concrete rejection lemmas) + history-exhaustive differential correspondence",
    design="5/C12")
CHECKS["C15"] = dict(
    text="Theorems (Props/C15.lean): no_escape_payload / no_escape_message - for EVERY byte string, every message and every remembered "
         "decoder the modelled AutoDecoder returns a dictionary or None (the decoders may fail with any of nine exception classes; the "
         "except clause regenerated from the source catches all of them); p1_parse_terminates / p1_parse_linear - P1 parsing ends for every "
         "input (unbalanced parentheses, trailing garbage) within len(data) loop iterations; kamstrup_greedy_fuel / kaifa_greedy_fuel - the "
         "GreedyRange loops never depend on their fuel (every iteration consumes input); kamstrup_greedy_count. Correspondence: 40k-scale "
         "mutation neighbourhood of genuine messages x every remembered decoder under a 2 s alarm vs the model (results AND remembered "
         "index), message objects incl. readouts without LF / with bare CR line ends, individual decoders incl. exception classes, real parse loop vs model on ASCII fragments; time per octet recorded.",
    note=NOTE_COMMON + "Partial: wall time / memory of the construct library are measured, not proved.",
    technique="Lean 4 proof (totality via regenerated except clause, fuel-independence of every modelled loop) + mutation-based differential correspondence",
    design="5/C15")

CHECKS["C17"] = dict(
    text="Progress (Props/C17Progress.lean): can_always_reach_next_attempt (<= 6 steps from any reachable non-closing state), fair_run_reconnects / fair_run_attempts_unbounded under explicit fairness hypotheses. "
         "Model: a transition system over asyncio's atomic unit, the task step (connect_loop, the current _try_connect, the closing "
         "waiters) with NONDETERMINISTIC scheduling and environment transitions close(), factory returns / raises, connection lost, clock "
         "advance. Theorems (Props/C17.lean) over EVERY reachable state, every configuration: at_most_one_live (and the live one is "
         "_connection); attempt_only_after_previous_ended; tasks_bounded (<= 3 pending tasks however many cycles); exited_clean (after "
         "connect_loop returned every obtained transport is closed, no waiter is left, the connect task is finished or cancelled); "
         "no_attempt_after_close; close_never_waits (after close() connect_loop returns at its very next step - no clock advance, no factory "
         "result needed); exits_only_when_closing + no_deadlock (keeps reconnecting, never stuck); sleeps_backoff_time / "
         "attempt_not_before_wake / backoff_follows_outcomes (C18 on the event loop). Correspondence: the REAL manager on a deterministic "
         "virtual-time event loop with a scripted fake factory; close() injected at every loop iteration of every scenario; each observed "
         "event trace must be a run of the model (trace inclusion by DFS over the scheduler nondeterminism in the driver) and is judged "
         "directly against the statement incl. back-off timing bounds; runs of 3000-20000 reconnect cycles for the task bound.",
    note=NOTE_COMMON + "Partial: the one-iteration latency between cancelling a task and its disappearance, threads, real sockets, "
         "cancellation inside third-party factories and wall-clock time are not exhibited by the model.",
    technique="Lean 4 proof (inductive invariant over all reachable states of a nondeterministic transition system) + trace inclusion of virtual-time executions",
    design="5/C17")

NOT_YET = {}


def main():
    props = [json.loads(l) for l in open(os.path.join(VERIF, "properties.jsonl"))]
    checks = []
    na = []
    for p in props:
        pid = p["id"]
        if pid in CHECKS:
            c = CHECKS[pid]
            checks.append({
                "property_id": pid,
                "quick_cmd": f"./check {pid} --tier quick",
                "thorough_cmd": f"./check {pid} --tier thorough",
                "evidence_file": f"evidence/{pid}.json",
                "replay_cmd_template": f"./check {pid} --replay {{path}}",
                "engine": "lean4-proof+correspondence",
                "level_claimed": {"category": "proof", "text": c["text"], "design_ref": c["design"]},
                "level_note": c["note"],
                "technique": c["technique"],
            })
        else:
            na.append({"property_id": pid, "reason": NOT_YET.get(pid, "check not built yet in this round (model/theorems in progress); not claimed")})
    man = {
        "version": 1,
        "setup_cmd": "./setup.sh",
        "hooks": {
            "guard": "AMSHAN_VERIF",
            "enable": "no source hooks are needed: the harness reads private attributes and drives the real code in-process",
            "baseline_off_cmd": "cd /repo && /venv/bin/python -m pytest -ra -q -p no:cacheprovider --timeout=900 --continue-on-collection-errors",
            "source_commits": [],
            "add_only": True,
        },
        "engines": [{
            "name": "lean4-proof+correspondence",
            "path": "lean/ (models, specs, lemmas, property theorems, driver) + harness/ (translator, correspondence, decision)",
            "serves_properties": [c["property_id"] for c in checks],
            "kind_free_text": "Lean 4 theorems about hand-written executable models; constants regenerated from source; models tied to the "
                              "Python implementation by differential execution through a native line-protocol driver",
        }],
        "checks": checks,
        "not_applicable": na,
        "notes": "See DESIGN.md. Exit 0 = held, 1 = VIOLATION line, 2 = tool failure/timeouts (never a violation).",
    }
    with open(os.path.join(VERIF, "MANIFEST.json"), "w") as f:
        json.dump(man, f, indent=1)
    print("MANIFEST.json:", len(checks), "checks,", len(na), "not claimed")


if __name__ == "__main__":
    main()
