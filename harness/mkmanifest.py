#!/usr/bin/env python3
"""Writes MANIFEST.json from the table below (kept next to the checks so both change together)."""
import json
import os

VERIF = os.path.normpath(os.path.join(os.path.dirname(os.path.abspath(__file__)), ".."))

NOTE_COMMON = ("Trusted base: Lean 4.33 kernel (axioms propext, Classical.choice, Quot.sound only; no sorry/native_decide/bv_decide); "
               "harness/extract.py regenerates all tables/constants/literals from /repo on every run; the hand-written control-flow "
               "model is tied to the Python code by a differential correspondence check (sampled, not proved). ")

CHECKS = {
    "C03": dict(
        text="Theorems (Props/C03.lean): the regenerated 256-entry table is the RFC 1662 table; the table-driven step equals the "
             "bit-serial step for all 2^16 x 2^8 (register, octet) pairs; update/checksum/compute_checksum equal the bit-serial FCS-16 "
             "for every byte string and window (induction on length); is_good holds exactly when the message ends with the FCS of the "
             "preceding octets, low octet first. Proof by xor-linearity, no enumeration beyond 256 cases. Correspondence: real "
             "FastFrameCheckSequence16 vs model vs spec on all registers x boundary octets, all octets x seeded registers (quick) or the "
             "full 2^24 step domain (thorough), plus random messages with right/flipped/swapped trailers and random windows.",
        note=NOTE_COMMON + "compute_checksum modelled for start,length >= 0 only.",
        technique="Lean 4 proof (xor-linearity of the CRC shift, induction over the message) + regenerated table + differential correspondence",
        design="5/C03"),
}

CHECKS["C01"] = dict(
    text="Theorems (Props/C01.lean, C01Framing.lean) over the model of han/hdlc.py for ALL octet streams, configurations and (by C06) "
         "splittings: every returned frame satisfies the frame invariant (running FCS register = FCS of its octets, cached control "
         "position = position determined by the address fields); is_valid <-> Intact (length field = octet count and trailer = "
         "RFC 1662 FCS-16 of the preceding octets, low octet first; uses the C03 residue theorem); every returned frame has a complete "
         "header and for a frame of shape fmt|dst|src|ctl|hcs|rest each accessor returns exactly those octets; framing: the returned "
         "frames are the (un-stuffed) images of contiguous, disjoint, in-order segments of the input, each between two flag octets "
         "(inductive spec Carve). Correspondence: real HdlcFrameReader vs model on generated stream families x 4 cfgs x chunkings and on "
         "all short streams over a 5-symbol alphabet; the implementation's output is also judged by an executable transcription of the spec.",
    note=NOTE_COMMON + "Not modelled: logging, the cached _is_header_good flag, buffer content before the read position.",
    technique="Lean 4 proof (invariants by induction over the octet stream, C03 residue) + regenerated constants + differential correspondence",
    design="5/C01")
CHECKS["C06"] = dict(
    text="Theorems (Props/C06.lean): the buffer-level model of read() (buffer, read position, hunt-mode trimming, loop) equals the "
         "octet-at-a-time machine; a read() call leaves nothing unread; any sequence of read() calls equals one run over the "
         "concatenated stream; hence for every stream, every two splittings, every configuration and every reachable reader state the "
         "same frames (all fields) come out and the reader ends in the same state. Correspondence: real reader vs model (frames and "
         "internal buffer/raw/frame sizes after every call) on generated families x 3 chunkings x 4 cfgs and exhaustively on all "
         "streams up to a small length over {7E,7D,A0,07,01} x every cut set; outputs of the real reader are compared across chunkings.",
    note=NOTE_COMMON + "Buffer content before the read position is represented by its length only.",
    technique="Lean 4 proof (refinement: buffered loop = per-octet fold, by functional induction) + differential correspondence",
    design="5/C06")

NOT_YET = {}


def main():
    props = [json.loads(l) for l in open(os.path.join(VERIF, "properties.jsonl"))]
    checks = []
    na = []
    for p in props:
        pid = p["id"]
        if pid in CHECKS:
            c = CHECKS[pid]
            checks.append({
                "property_id": pid,
                "quick_cmd": f"./check {pid} --tier quick",
                "thorough_cmd": f"./check {pid} --tier thorough",
                "evidence_file": f"evidence/{pid}.json",
                "replay_cmd_template": f"./check {pid} --replay {{path}}",
                "engine": "lean4-proof+correspondence",
                "level_claimed": {"category": "proof", "text": c["text"], "design_ref": c["design"]},
                "level_note": c["note"],
                "technique": c["technique"],
            })
        else:
            na.append({"property_id": pid, "reason": NOT_YET.get(pid, "check not built yet in this round (model/theorems in progress); not claimed")})
    man = {
        "version": 1,
        "setup_cmd": "./setup.sh",
        "hooks": {
            "guard": "AMSHAN_VERIF",
            "enable": "no source hooks are needed: the harness reads private attributes and drives the real code in-process",
            "baseline_off_cmd": "cd /repo && /venv/bin/python -m pytest -ra -q -p no:cacheprovider --timeout=900 --continue-on-collection-errors",
            "source_commits": [],
            "add_only": True,
        },
        "engines": [{
            "name": "lean4-proof+correspondence",
            "path": "lean/ (models, specs, lemmas, property theorems, driver) + harness/ (translator, correspondence, decision)",
            "serves_properties": [c["property_id"] for c in checks],
            "kind_free_text": "Lean 4 theorems about hand-written executable models; constants regenerated from source; models tied to the "
                              "Python implementation by differential execution through a native line-protocol driver",
        }],
        "checks": checks,
        "not_applicable": na,
        "notes": "See DESIGN.md. Exit 0 = held, 1 = VIOLATION line, 2 = tool failure/timeouts (never a violation).",
    }
    with open(os.path.join(VERIF, "MANIFEST.json"), "w") as f:
        json.dump(man, f, indent=1)
    print("MANIFEST.json:", len(checks), "checks,", len(na), "not claimed")


if __name__ == "__main__":
    main()
