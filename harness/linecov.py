#!/venv/bin/python
"""Line coverage of han/*.py under the quick correspondence runs of all checks (sys.settrace based,
no third-party tool).  Usage: linecov.py [C01 C02 ...]   -> prints uncovered executable lines per module.
A blind-spot finder for the tie between model and code; not part of any registered check."""
import dis
import importlib
import os
import sys
import threading

sys.path.insert(0, os.path.dirname(os.path.abspath(__file__)))
import lib  # noqa: E402

hits = {}


def tracer(frame, event, arg):
    fn = frame.f_code.co_filename
    if "/han/" not in fn:
        return None
    s = hits.setdefault(fn, set())

    def local(fr, ev, a):
        if ev == "line":
            s.add(fr.f_lineno)
        return local
    s.add(frame.f_lineno)
    return local


def executable_lines(path):
    src = open(path).read()
    code = compile(src, path, "exec")
    lines = set()
    todo = [code]
    while todo:
        c = todo.pop()
        for _, _, ln in c.co_lines():
            if ln:
                lines.add(ln)
        for k in c.co_consts:
            if hasattr(k, "co_code"):
                todo.append(k)
    return lines


def main():
    pids = sys.argv[1:] or [f"C{n:02d}" for n in range(1, 21)]
    lib.import_repo()
    ok, out = lib.build_driver()
    sys.settrace(tracer)
    threading.settrace(tracer)
    for pid in pids:
        mod = importlib.import_module("props." + pid.lower())
        res = lib.Result(pid, "quick", 0)
        try:
            mod.run(res, "quick", 0)
        except Exception as ex:  # noqa
            print(pid, "crashed:", ex)
    sys.settrace(None)
    total = covered = 0
    for fn in sorted(os.listdir(os.path.join(lib.REPO, "han"))):
        if not fn.endswith(".py"):
            continue
        path = os.path.join(lib.REPO, "han", fn)
        ex = executable_lines(path)
        hit = hits.get(path, set()) & ex
        missing = sorted(ex - hit)
        total += len(ex)
        covered += len(hit)
        # compress ranges
        rng, out = [], []
        for ln in missing:
            if rng and ln == rng[-1] + 1:
                rng.append(ln)
            else:
                if rng:
                    out.append(f"{rng[0]}-{rng[-1]}" if len(rng) > 1 else str(rng[0]))
                rng = [ln]
        if rng:
            out.append(f"{rng[0]}-{rng[-1]}" if len(rng) > 1 else str(rng[0]))
        print(f"{fn:32s} {len(hit):4d}/{len(ex):4d}  missing: {' '.join(out)[:300]}")
    print(f"TOTAL {covered}/{total} = {100.0 * covered / max(1, total):.1f}%")


if __name__ == "__main__":
    main()
