"""Deterministic virtual-time asyncio event loop and a scripted fake connection factory for
ConnectionManager (C17, C18)."""
from __future__ import annotations

import asyncio

import lib
import heapq
import logging


class VLoop(asyncio.SelectorEventLoop):
    """time() is virtual; when nothing is ready the clock jumps to the next timer; when nothing can
    ever happen the loop stops (idle)."""

    def __init__(self):
        super().__init__()
        self._vt = 0.0
        self.iter = 0
        self.on_iter = None
        self.max_pending = 0
        self.count_tasks = True

    def time(self):
        return self._vt

    def _run_once(self):
        self.iter += 1
        if self.on_iter is not None:
            self.on_iter(self.iter)          # may call close(): do it before deciding that the loop is idle
        while self._scheduled and self._scheduled[0]._cancelled:
            h = heapq.heappop(self._scheduled)
            h._scheduled = False
            self._timer_cancelled_count -= 1
        if not self._ready:
            if self._scheduled:
                self._vt = max(self._vt, self._scheduled[0]._when)
            else:
                self.stop()
        if self.count_tasks:
            n = sum(1 for t in asyncio.all_tasks(self) if not t.done())
            self.max_pending = max(self.max_pending, n)
        super()._run_once()


class FakeTransport:
    def __init__(self, rec, k):
        self.rec, self.k, self.closed = rec, k, False

    def close(self):
        if not self.closed:
            self.closed = True
            self.rec.ev("closed", self.k)

    def get_extra_info(self, *_):
        return None


class FakeProtocol:
    def __init__(self, loop):
        self.done = loop.create_future()


class Recorder:
    def __init__(self, loop):
        self.loop = loop
        self.events = []
        self.active = True

    def ev(self, kind, arg=None):
        if self.active:
            self.events.append((self.loop.time(), self.loop.iter, kind, arg))


FAILURE_CLASSES = [RuntimeError, ConnectionError, ValueError, OSError, KeyError, ConnectionRefusedError, EOFError, TimeoutError,
                   AssertionError, LookupError]


def run_scenario(script, close_at=None, threshold=5, sleep_sec=5, max_delay=60, max_iters=100000, close_time=None,
                 real_protocol=False):
    """script: list of (outcome, duration, lifetime): outcome 'ok'/'fail', duration = seconds the attempt
    takes (0 = resolves at the next loop iteration), lifetime = seconds until the connection is lost
    (None = stays up). After the script the factory never resolves (pending forever).
    close_at: loop iteration at which close() is called (None = never); close_time: virtual time.
    real_protocol: the factory returns the library's own SmartMeterMessageProtocol (connection_made / connection_lost are
    called the way a transport does); lifetime 0 then means "lost before the factory has even returned", and a lifetime
    given as the string "soon" means "lost in the loop iteration after the factory returned"."""
    import han.meter_connection as mc
    logging.disable(logging.CRITICAL)
    loop = VLoop()
    asyncio.set_event_loop(loop)
    rec = Recorder(loop)
    state = {"k": 0}

    import datetime as _dt

    def _now():
        return _dt.datetime(2020, 1, 1) + _dt.timedelta(seconds=loop.time())

    async def factory():
        k = state["k"]
        state["k"] += 1
        rec.ev("attempt", k)
        if k >= len(script):
            await loop.create_future()      # never resolves
        outcome, duration, lifetime = script[k]
        if duration > 0:
            await asyncio.sleep(duration)
        else:
            await asyncio.sleep(0)
        if outcome == "fail":
            rec.ev("failed", k)
            # a user-supplied factory may fail with ANY exception: the class varies with the attempt number (not only the
            # OSError family), every one of them is a failed attempt
            raise FAILURE_CLASSES[k % len(FAILURE_CLASSES)]("scripted failure")
        tr = FakeTransport(rec, k)
        if real_protocol:
            pr = mc.SmartMeterMessageProtocol(asyncio.Queue(), [])
            pr.connection_made(tr)
        else:
            pr = FakeProtocol(loop)
        rec.ev("obtained", k)
        if lifetime is not None:
            def lose():
                if tr.closed:
                    return
                if real_protocol:
                    rec.ev("lost", k)
                    tr.closed = True     # the connection is gone (the protocol's own close() of it is not an event)
                    pr.connection_lost(None)
                elif not pr.done.done():
                    rec.ev("lost", k)
                    tr.closed = True     # the connection is gone
                    pr.done.set_result(None)
            if real_protocol and lifetime == 0:
                lose()
            elif real_protocol and lifetime == "soon":
                loop.call_soon(lose)
            else:
                loop.call_later(lifetime, lose)
        return tr, pr

    mgr = mc.ConnectionManager(factory)
    mgr.connection_lost_back_off_threshold = threshold
    mgr.connection_lost_back_off_sleep_sec = sleep_sec
    mgr.back_off_connect_error.max_delay = max_delay
    clock = lib.patched_clock(mc, _now)
    clock.__enter__()
    closed = {"done": False}

    def do_close():
        if not closed["done"]:
            closed["done"] = True
            rec.ev("close_called")
            mgr.close()

    def hook(i):
        if close_at is not None and i == close_at:
            do_close()
        if i > max_iters:
            loop.stop()
    loop.on_iter = hook
    if close_time is not None:
        loop.call_later(close_time, do_close)
    try:
        task = loop.create_task(mgr.connect_loop())
        task.add_done_callback(lambda t: rec.ev("loop_done"))
        loop.run_forever()
        rec.active = False
        pending = [t for t in asyncio.all_tasks(loop) if not t.done()]
        result = {"events": rec.events, "iters": loop.iter, "loop_done": task.done(), "pending_end": len(pending),
                  "max_pending": loop.max_pending, "exception": (repr(task.exception()) if task.done() and not task.cancelled() and task.exception() else None)}
        for t in pending:
            t.cancel()
        try:
            loop.run_until_complete(asyncio.gather(*pending, return_exceptions=True))
        except Exception:  # noqa
            pass
        return result
    finally:
        clock.__exit__()
        asyncio.set_event_loop(None)
        loop.close()
