"""Shared machinery of the checks: build + audit of the Lean side, driver I/O, decision
procedure, evidence and replay files.  See DESIGN.md section 2."""
from __future__ import annotations

import fcntl
import hashlib
import json
import os
import random
import re
import subprocess
import sys
import tempfile
import time

VERIF = os.path.normpath(os.path.join(os.path.dirname(os.path.abspath(__file__)), ".."))
LEAN = os.path.join(VERIF, "lean")
REPO = os.environ.get("AMSHAN_REPO", "/repo")
DRIVER = os.path.join(LEAN, ".lake", "build", "bin", "driver")
ALLOWED_AXIOMS = {"propext", "Classical.choice", "Quot.sound"}
FORBIDDEN = re.compile(r"\b(sorry|admit|native_decide|bv_decide|implemented_by|unsafe)\b|^\s*axiom\s|maxHeartbeats\s+0\b")

TRUSTED_BASE = [
    "Lean 4.33.0 kernel; axioms allowed in #print axioms: propext, Classical.choice, Quot.sound",
    "harness/extract.py (translator for data: tables, constants, literals, pattern strings -> Generated.lean)",
    "the correspondence harness (generators, adapters, canonicalisation, diff): the tie between the "
    "hand-written control-flow model and the Python code is sampled, not proved",
    "CPython built-ins, IEEE-754 binary64, the third-party 'construct' library and asyncio are modelled, not verified",
]


class ToolFailure(Exception):
    """Infrastructure failure: exit code 2, never a violation."""


def sh(cmd, cwd=None, timeout=3600, env=None):
    p = subprocess.run(cmd, cwd=cwd, shell=isinstance(cmd, str), stdout=subprocess.PIPE,
                       stderr=subprocess.STDOUT, text=True, timeout=timeout, env=env)
    return p.returncode, p.stdout


class LeanLock:
    def __enter__(self):
        os.makedirs(os.path.join(LEAN, ".lake"), exist_ok=True)
        self.f = open(os.path.join(LEAN, ".lake", "verif.lock"), "w")
        fcntl.flock(self.f, fcntl.LOCK_EX)
        return self

    def __exit__(self, *a):
        fcntl.flock(self.f, fcntl.LOCK_UN)
        self.f.close()


def run_extract():
    """Regenerate Generated.lean from the working tree. Returns (ok, problems, output)."""
    rc, out = sh(["/venv/bin/python", os.path.join(VERIF, "harness", "extract.py")], cwd=VERIF,
                 env=dict(os.environ, PYTHONPATH=REPO, PYTHONDONTWRITEBYTECODE="1"))
    problems = [l for l in out.splitlines() if l.startswith("EXTRACT-")]
    return rc == 0, problems, out


def lake_build(targets, timeout=3000):
    rc, out = sh(["lake", "build"] + list(targets), cwd=LEAN, timeout=timeout)
    return rc == 0, out


def props_files(pid):
    """Props/<pid>.lean and Props/<pid><Suffix>.lean (e.g. C01Framing.lean)."""
    d = os.path.join(LEAN, "Amshan", "Props")
    res = []
    for f in sorted(os.listdir(d)):
        if re.fullmatch(re.escape(pid) + r"([A-Za-z_][A-Za-z0-9_]*)?\.lean", f):
            with open(os.path.join(d, f)) as fh:
                if fh.readline().startswith("-- WIP"):
                    continue        # work in progress: not part of the audited set (and not claimed anywhere)
            res.append(os.path.join(d, f))
    return res


def props_modules(pid):
    return ["Amshan.Props." + os.path.basename(f)[:-5] for f in props_files(pid)]


def theorem_names(pid):
    """Fully qualified names of the theorems stated in the Props files of the property."""
    names = []
    for pf in props_files(pid):
        src_nc = strip_comments(open(pf).read())
        ns = []
        for line in src_nc.splitlines():
            m = re.match(r"\s*namespace\s+(\S+)", line)
            if m:
                ns.append(m.group(1))
                continue
            m = re.match(r"\s*end\s+(\S+)", line)
            if m and ns and ns[-1] == m.group(1):
                ns.pop()
                continue
            m = re.match(r"\s*(?:@\[[^\]]*\]\s*)?(?:private\s+|protected\s+)?theorem\s+(\S+)", line)
            if m:
                names.append(".".join(ns + [m.group(1)]))
    return names


def strip_comments(src):
    src = re.sub(r"/-.*?-/", lambda m: "\n" * m.group(0).count("\n"), src, flags=re.S)
    src = re.sub(r"--.*", "", src)
    return src


def lean_sources(pid=None):
    """Lean files in the transitive import closure of Props/<pid>*.lean (all files when pid is None)."""
    if pid is None:
        res = []
        for root, _, files in os.walk(os.path.join(LEAN, "Amshan")):
            for f in files:
                if f.endswith(".lean"):
                    res.append(os.path.join(root, f))
        res.append(os.path.join(LEAN, "Driver.lean"))
        return sorted(res)
    seen, todo = set(), list(props_files(pid))
    while todo:
        f = todo.pop()
        if f in seen or not os.path.exists(f):
            continue
        seen.add(f)
        for m in re.finditer(r"^\s*import\s+(Amshan(?:\.\w+)+)", strip_comments(open(f).read()), flags=re.M):
            todo.append(os.path.join(LEAN, *m.group(1).split(".")) + ".lean")
    return sorted(seen)


def grep_forbidden(pid=None):
    hits = []
    for path in lean_sources(pid):
        src = strip_comments(open(path).read())
        for i, line in enumerate(src.splitlines(), 1):
            if FORBIDDEN.search(line):
                hits.append(f"{os.path.relpath(path, LEAN)}:{i}: {line.strip()[:120]}")
    return hits


def audit(pid, thorough=False):
    """Build Props/<pid> and audit the axioms of each of its theorems.
    Returns dict(obligations, discharged, failures[list of str], log)."""
    names = theorem_names(pid)
    res = {"obligations": len(names), "discharged": 0, "failures": [], "theorems": names, "log": ""}
    if not names:
        res["failures"].append(f"no theorems found in Props/{pid}.lean")
        return res
    ok, out = lake_build(props_modules(pid))
    res["log"] = out[-6000:]
    if not ok:
        # find which declarations failed
        errs = [l for l in out.splitlines() if "error" in l.lower()][:20]
        res["failures"].append("lake build Amshan.Props.%s failed: %s" % (pid, " | ".join(errs)[:1500]))
        return res
    hits = grep_forbidden(pid)
    if hits:
        res["failures"].append("forbidden construct in Lean sources: " + "; ".join(hits[:10]))
    audit_src = "".join(f"import {m}\n" for m in props_modules(pid)) + "".join(f"#print axioms {n}\n" for n in names)
    with tempfile.NamedTemporaryFile("w", suffix=".lean", dir=os.path.join(LEAN, ".lake"), delete=False) as f:
        f.write(audit_src)
        tmp = f.name
    try:
        rc, out = sh(["lake", "env", "lean", tmp], cwd=LEAN, timeout=1200)
    finally:
        os.unlink(tmp)
    res["audit_log"] = out[-4000:]
    # parse: "'X' depends on axioms: [a, b]" or "'X' does not depend on any axioms"
    text = out.replace("\n  ", " ").replace("\n ", " ")
    found = {}
    for m in re.finditer(r"'(\S+)' depends on axioms: \[([^\]]*)\]", text):
        found[m.group(1)] = {a.strip() for a in m.group(2).split(",") if a.strip()}
    for m in re.finditer(r"'(\S+)' does not depend on any axioms", text):
        found[m.group(1)] = set()
    for n in names:
        if n not in found:
            res["failures"].append(f"theorem {n}: no axiom report (does it still exist?)")
        elif not found[n] <= ALLOWED_AXIOMS:
            res["failures"].append(f"theorem {n} depends on {sorted(found[n] - ALLOWED_AXIOMS)}")
        else:
            res["discharged"] += 1
    if thorough and not res["failures"]:
        rc, out = sh(["lake", "env", "leanchecker"] + props_modules(pid), cwd=LEAN, timeout=3000)
        res["leanchecker_rc"] = rc
        if rc != 0:
            res["failures"].append("leanchecker rejected Amshan.Props.%s: %s" % (pid, out[-500:]))
    return res


def build_driver():
    ok, out = lake_build(["driver"])
    if not ok or not os.path.exists(DRIVER):
        return False, out
    return True, out


def drive(lines, timeout=3000):
    """Send request lines to the native driver, return the answer lines."""
    if not lines:
        return []
    with tempfile.NamedTemporaryFile("w", suffix=".req", delete=False) as f:
        f.write("\n".join(lines) + "\n")
        tmp = f.name
    try:
        with open(tmp) as fin:
            p = subprocess.run([DRIVER], stdin=fin, stdout=subprocess.PIPE, stderr=subprocess.PIPE,
                               text=True, timeout=timeout)
    finally:
        os.unlink(tmp)
    if p.returncode != 0:
        raise ToolFailure(f"driver exited {p.returncode}: {p.stderr[-500:]}")
    out = p.stdout.split("\n")
    if out and out[-1] == "":
        out.pop()
    if len(out) != len(lines):
        raise ToolFailure(f"driver answered {len(out)} lines for {len(lines)} requests")
    return out


def hexs(b: bytes) -> str:
    return b.hex() if b else "-"


def chunks_arg(chunks) -> str:
    return ",".join(hexs(c) for c in chunks) if chunks else "."


def import_repo():
    """Import the implementation from the current working tree (never a cached copy)."""
    if REPO not in sys.path:
        sys.path.insert(0, REPO)
    sys.dont_write_bytecode = True
    for m in list(sys.modules):
        if m == "han" or m.startswith("han."):
            del sys.modules[m]
    import han  # noqa
    if not os.path.abspath(han.__file__).startswith(os.path.abspath(REPO)):
        raise ToolFailure(f"han imported from {han.__file__}, not from {REPO}")


class Result:
    """Accumulates what one check run found."""

    def __init__(self, pid, tier, seed):
        self.pid, self.tier, self.seed = pid, tier, seed
        self.t0 = time.time()
        self.evaluations = 0
        self.nontrivial = set()
        self.rule = ""
        self.samples = []
        self.tie_breaks = []      # impl != model (correspondence broken)
        self.prop_failures = []   # impl violates the property on a concrete input
        self.histogram = {}
        self.notes = []
        self.exhaustive = False
        self.extra = {}

    def count(self, key, n=1):
        self.histogram[key] = self.histogram.get(key, 0) + n

    def nontriv(self, key):
        self.nontrivial.add(hashlib.blake2b(repr(key).encode(), digest_size=8).digest())

    def sample(self, s, limit=6):
        if len(self.samples) < limit:
            self.samples.append(s)

    def tie_break(self, case, impl, model, family=""):
        if len(self.tie_breaks) < 50:
            self.tie_breaks.append({"family": family, "case": case, "impl": impl, "model": model})
        self.count("tie_break")

    def prop_failure(self, case, what, family=""):
        if len(self.prop_failures) < 50:
            self.prop_failures.append({"family": family, "case": case, "what": what})
        self.count("property_failure")


def load_known_findings():
    p = os.path.join(VERIF, "known_findings.json")
    if not os.path.exists(p):
        return {"findings": [], "fixed": []}
    return json.load(open(p))


def write_replay(pid, payload):
    os.makedirs(os.path.join(VERIF, "replays"), exist_ok=True)
    h = hashlib.blake2b(json.dumps(payload, sort_keys=True, default=str).encode(), digest_size=6).hexdigest()
    path = os.path.join(VERIF, "replays", f"{pid}-{h}.json")
    with open(path, "w") as f:
        json.dump(payload, f, indent=1, sort_keys=True, default=str)
    return os.path.relpath(path, VERIF)


def write_evidence(res: Result, aud, violations, extra_assumptions=(), checker_cmd=None):
    os.makedirs(os.path.join(VERIF, "evidence"), exist_ok=True)
    cov = {
        "obligations": max(1, aud.get("obligations", 0)),
        "discharged": aud.get("discharged", 0),
        "checker_cmd": checker_cmd or f"cd lean && lake build Amshan.Props.{res.pid} && lake env lean <audit: #print axioms of every theorem in Props/{res.pid}.lean>",
        "trusted_base": TRUSTED_BASE,
        "theorems": aud.get("theorems", []),
        "proof_failures": aud.get("failures", []),
        "evaluations": res.evaluations,
        "distinct_nontrivial": len(res.nontrivial),
        "rule": res.rule,
        "samples": res.samples or ["(no correspondence cases were run)"],
        "disagreements_checked": res.evaluations,
        "tie_breaks": len(res.tie_breaks),
        "property_failures_on_impl": len(res.prop_failures),
        "histogram": res.histogram,
        "exhaustive": res.exhaustive,
        "notes": res.notes,
    }
    cov.update(res.extra)
    ev = {
        "property_id": res.pid,
        "tier": res.tier,
        "seed": res.seed,
        "level": "proof",
        "coverage": cov,
        "assumptions": TRUSTED_BASE + list(extra_assumptions),
        "wall_s": round(time.time() - res.t0, 2),
        "violations": violations,
    }
    path = os.path.join(VERIF, "evidence", f"{res.pid}.json")
    tmp = path + ".tmp"
    with open(tmp, "w") as f:
        json.dump(ev, f, indent=1, default=str)
    os.replace(tmp, path)
    return path


def rng_for(seed, *tags):
    h = hashlib.blake2b(("%d/" % seed + "/".join(map(str, tags))).encode(), digest_size=8).digest()
    return random.Random(int.from_bytes(h, "big"))


def random_cuts(rng, n, maxcuts=None):
    """a random chunking of a stream of length n, as a sorted list of cut positions"""
    if n <= 1:
        return []
    k = rng.choice([0, 1, 1, 2, 3, 5, 8]) if maxcuts is None else rng.randint(0, maxcuts)
    return sorted(set(rng.randint(1, n - 1) for _ in range(k)))


def split_at(data: bytes, cuts):
    res, prev = [], 0
    for c in cuts:
        res.append(data[prev:c])
        prev = c
    res.append(data[prev:])
    return res


# ---------------------------------------------------------------- fingerprints (change detectors, not obligations)
FINGERPRINT_FILE = os.path.join(VERIF, "harness", "fingerprints.json")
FINGERPRINT_OWNERS = [("fcs", ["C03"]), ("hdlc", ["C01", "C02", "C06", "C16", "C19"]), ("p1IsValid", ["C04"]),
                      ("p1ExpectedChecksum", ["C04"]), ("crc16", ["C04"]), ("p1Decode", ["C11", "C15"]), ("p1Datetime", ["C11"]),
                      ("aidonNormalize", ["C07"]), ("kamNormalize", ["C09"]), ("backoff", ["C18"]), ("getBackOffTime", ["C18", "C17"])]


def current_fingerprints():
    """the `…Literals` / `…Strings` lists of Generated.lean: the literals in the source of each hand-modelled function"""
    out = {}
    path = os.path.join(LEAN, "Amshan", "Generated.lean")
    if os.path.exists(path):
        for m in re.finditer(r"^def (\w+(?:Literals|Strings)) : [^=]*:= (.*)$", open(path).read(), flags=re.M):
            out[m.group(1)] = m.group(2).strip()
    return out


def changed_fingerprints(pid):
    """names of the literal lists relevant to pid that differ from the recorded ones (harness/fingerprints.json).
    A difference means the source of a hand-modelled function was edited: not an alarm, a reason to search wider."""
    try:
        recorded = json.load(open(FINGERPRINT_FILE))
    except (OSError, ValueError):
        return []
    cur = current_fingerprints()
    res = []
    for name in sorted(set(recorded) | set(cur)):
        if recorded.get(name) != cur.get(name):
            owners = next((o for pre, o in FINGERPRINT_OWNERS if name.startswith(pre)), [])
            if pid in owners:
                res.append(name)
    return res


# ---------------------------------------------------------------- clock injection
class patched_clock:
    """Make `utcnow()`/`now()` as seen BY ONE MODULE of the library return `now_fn()` (a datetime), whichever way that
    module imported the clock (`import datetime` or `from datetime import datetime`), without touching the
    process-wide datetime module."""

    def __init__(self, module, now_fn):
        self.module, self.now_fn = module, now_fn

    def __enter__(self):
        import datetime as _dt
        import types
        now_fn = self.now_fn

        class _Fake(_dt.datetime):
            @classmethod
            def utcnow(cls):
                return now_fn()

            @classmethod
            def now(cls, tz=None):
                v = now_fn()
                return v if tz is None else v.replace(tzinfo=_dt.timezone.utc).astimezone(tz)

        self.old = getattr(self.module, "datetime", None)
        if isinstance(self.old, types.ModuleType):
            shim = types.ModuleType("datetime")
            shim.__dict__.update(vars(self.old))
            shim.datetime = _Fake
            self.module.datetime = shim
        elif self.old is not None:
            self.module.datetime = _Fake
        return self

    def __exit__(self, *a):
        if self.old is not None:
            self.module.datetime = self.old
        return False


# ---------------------------------------------------------------- heartbeat (which case is being evaluated)
def heartbeat(case):
    """Record the case about to be given to the implementation (file named by VERIF_HEARTBEAT, set by the supervising
    parent of runner.py): if the implementation never returns, the parent reports this case as the failing input."""
    path = os.environ.get("VERIF_HEARTBEAT")
    if path:
        try:
            with open(path, "w") as f:
                json.dump(case, f)
        except OSError:
            pass
