#!/venv/bin/python
"""Translator (data only): read constants, tables, pattern strings and literals from the
current /repo working tree and emit lean/Amshan/Generated.lean.

Everything that is *data* in the code is regenerated on every run; the theorems in
Amshan/Props are then re-checked by the Lean kernel against what the code says now.
Control flow is modelled by hand and tied by the correspondence check (see DESIGN.md 2.2/2.3).
"""
from __future__ import annotations

import ast
import importlib
import inspect
import json
import re
import os
import sys
import textwrap

REPO = os.environ.get("AMSHAN_REPO", "/repo")
OUT = os.path.join(os.path.dirname(os.path.abspath(__file__)), "..", "lean", "Amshan", "Generated.lean")


def lean_str(s: str) -> str:
    out = ['"']
    for ch in s:
        o = ord(ch)
        if ch == "\\":
            out.append("\\\\")
        elif ch == '"':
            out.append('\\"')
        elif ch == "\n":
            out.append("\\n")
        elif ch == "\r":
            out.append("\\r")
        elif ch == "\t":
            out.append("\\t")
        elif 32 <= o < 127:
            out.append(ch)
        else:
            out.append("\\u{%x}" % o)
    out.append('"')
    return "".join(out)


def lean_nat_list(xs) -> str:
    return "[" + ", ".join(str(int(x)) for x in xs) + "]"


def lean_int(i: int) -> str:
    return str(i) if i >= 0 else f"({i})"


def unwrap_fn(x):
    """the plain function behind a property / functools.cached_property / staticmethod / classmethod"""
    for attr in ("fget", "func", "__func__"):
        f = getattr(x, attr, None)
        if callable(f):
            return f
    return x


class _StripNoise(ast.NodeTransformer):
    """Drop what cannot change behaviour: docstrings / bare string statements and logging calls
    (`_LOGGER.x(...)`, `logging.x(...)`), so that adding a log line or editing a docstring does not
    change the extracted literal lists."""

    def visit_Expr(self, node):
        v = node.value
        if isinstance(v, ast.Constant) and isinstance(v.value, str):
            return ast.Pass()
        if isinstance(v, ast.Call):
            f = v.func
            if isinstance(f, ast.Attribute) and isinstance(f.value, ast.Name) and f.value.id in ("_LOGGER", "logging", "LOGGER"):
                return ast.Pass()
        return self.generic_visit(node)


class _InlineIntNames(ast.NodeTransformer):
    """Replace a name that is bound to an int constant - a bare module-level name (`MAX_SIZE = 8191`), or a class
    attribute read as `self.X` / `cls.X` / `ClassName.X` - by that int, so that naming a literal does not change the
    extracted literal lists."""

    def __init__(self, glob, owner=None):
        self.glob = glob
        self.owner = owner          # the class the function belongs to, if any

    @staticmethod
    def _is_int(v):
        return isinstance(v, int) and not isinstance(v, bool)

    def visit_Name(self, node):
        v = self.glob.get(node.id)
        if isinstance(node.ctx, ast.Load) and self._is_int(v):
            return ast.copy_location(ast.Constant(value=int(v)), node)
        return node

    def visit_Attribute(self, node):
        self.generic_visit(node)
        if isinstance(node.ctx, ast.Load) and isinstance(node.value, ast.Name):
            base = node.value.id
            cls = self.owner if base in ("self", "cls") else self.glob.get(base)
            if inspect.isclass(cls):
                try:
                    v = inspect.getattr_static(cls, node.attr)
                except AttributeError:
                    return node
                if self._is_int(v):
                    return ast.copy_location(ast.Constant(value=int(v)), node)
        return node


class _InlineStrNames(ast.NodeTransformer):
    """Replace a bare name bound at module level to a str, or to a tuple / list / set / frozenset of str (a named
    constant such as `_KILO_UNITS = ("kw", "kwh", "kvar", "kvarh")`), by the literal(s) - sets in sorted order - so
    that naming string literals does not empty the extracted string lists the models read."""

    def __init__(self, glob):
        self.glob = glob

    def visit_Name(self, node):
        if not isinstance(node.ctx, ast.Load):
            return node
        v = self.glob.get(node.id)
        if isinstance(v, str):
            return ast.copy_location(ast.Constant(value=v), node)
        if isinstance(v, (tuple, list, set, frozenset)) and v and all(isinstance(x, str) for x in v):
            xs = sorted(v) if isinstance(v, (set, frozenset)) else list(v)
            return ast.copy_location(ast.Tuple(elts=[ast.Constant(value=x) for x in xs], ctx=ast.Load()), node)
        return node


def _owner_class(obj, glob):
    qn = getattr(inspect.unwrap(obj), "__qualname__", "")
    parts = qn.split(".")
    if len(parts) >= 2 and glob:
        c = glob.get(parts[0])
        for name in parts[1:-1]:
            c = getattr(c, name, None)
        return c if inspect.isclass(c) else None
    return None


def func_ast(obj) -> ast.AST:
    src = textwrap.dedent(inspect.getsource(obj))
    tree = _StripNoise().visit(ast.parse(src))
    if inspect.isclass(obj):
        glob = vars(sys.modules.get(obj.__module__, None)) if obj.__module__ in sys.modules else None
        owner = obj
    else:
        glob = getattr(inspect.unwrap(obj), "__globals__", None)
        owner = _owner_class(obj, glob)
    if glob:
        tree = _InlineIntNames(glob, owner).visit(tree)
        tree = _InlineStrNames(glob).visit(tree)
    return ast.fix_missing_locations(tree)


def int_consts(tree: ast.AST, pred=lambda n, parent: True):
    """All integer literals in `tree` (in source order) whose parent satisfies pred."""
    res = []
    for parent in ast.walk(tree):
        for child in ast.iter_child_nodes(parent):
            if isinstance(child, ast.Constant) and isinstance(child.value, int) and not isinstance(child.value, bool):
                if pred(child, parent):
                    res.append((child.lineno, child.col_offset, child.value))
    res.sort()
    return [v for _, _, v in res]


def str_consts(tree: ast.AST):
    res = []

    def walk(node, loc):
        # (inlined constants have no location of their own: they inherit the location of the name they replace)
        loc = (getattr(node, "lineno", loc[0]), getattr(node, "col_offset", loc[1]))
        if isinstance(node, ast.Constant) and isinstance(node.value, str):
            res.append((loc[0], loc[1], len(res), node.value))
        for child in ast.iter_child_nodes(node):
            walk(child, loc)

    walk(tree, (0, 0))
    res.sort()
    return [v for _, _, _, v in res]


def probe_esc_xor(hdlc, problems):
    """The value the reader XORs an escaped octet with, observed through the public API (independent of where and
    how the source spells it): with octet stuffing, the frame `7E 7D 00 <10 octets> 7E` comes back with first octet
    0 xor that value; a second probe with 7D FF cross-checks that it is an XOR with a constant."""
    import logging
    logging.disable(logging.CRITICAL)
    try:
        def first(octet):
            r = hdlc.HdlcFrameReader(use_octet_stuffing=True)
            frames = r.read(bytes([0x7E, 0x7D, octet]) + bytes(range(1, 11)) + bytes([0x7E]))
            return frames[0].as_bytes[0]
        a, b = first(0x00), first(0xFF)
        if a ^ b != 0xFF:
            problems.append(f"escXor: un-escaping is not XOR with a constant (00 -> {a}, FF -> {b})")
        return int(a)
    except Exception as ex:  # noqa
        problems.append(f"escXor: probe failed: {type(ex).__name__}: {ex}")
        return 0
    finally:
        logging.disable(logging.NOTSET)


def one(xs, what, problems, name, default=0):
    xs = list(dict.fromkeys(xs))        # the same value spelled twice (a literal and a named constant) is one value
    if len(xs) != 1:
        problems.append(f"{name}: {what}: expected exactly one literal, found {xs}")
        return xs[0] if xs else default
    return xs[0]


def except_names(func) -> list[str]:
    """Names of the exception classes caught by the except handlers of func, in order."""
    tree = func_ast(func)
    names = []
    for node in ast.walk(tree):
        if isinstance(node, ast.ExceptHandler):
            t = node.type
            elts = t.elts if isinstance(t, ast.Tuple) else ([t] if t is not None else [])
            if t is None:
                names.append("BaseException")
            for e in elts:
                names.append(ast.unparse(e).split(".")[-1])
    return names


class _guard:
    """A section of the generator: an exception inside it (an attribute the changed source no longer has, a
    function whose source cannot be read, ...) is recorded as a translator problem and the rest of the section is
    skipped; the Lean files that use the missing definitions then fail to build, so exactly the properties that
    depend on the section stop being shown - and the check goes on to search for a failing input instead of
    giving up with a tool failure."""

    def __init__(self, problems, name):
        self.problems, self.name = problems, name

    def __enter__(self):
        return self

    def __exit__(self, et, ev, tb):
        if et is not None and issubclass(et, Exception):
            self.problems.append(f"section_{self.name}: {et.__name__}: {ev}")
            return True
        return False


def generate() -> tuple[str, list[str]]:
    sys.path.insert(0, REPO)
    for m in list(sys.modules):
        if m == "han" or m.startswith("han."):
            del sys.modules[m]
    problems: list[str] = []
    L: list[str] = []
    emit = L.append
    emit("/- GENERATED by harness/extract.py from the current /repo working tree. Do not edit. -/")
    emit("namespace Amshan.Gen")
    emit("")

    # ---------------------------------------------------------------- fastframecheck
    with _guard(problems, "fastframecheck"):
        ffc = importlib.import_module("han.fastframecheck")
        F = ffc.FastFrameCheckSequence16
        emit(f"def fcsTable : List Nat := {lean_nat_list(F.fast_frame_check_crc_table)}")
        emit(f"def fcsInit : Nat := {int(F.INIT_FCS_16)}")
        emit(f"def fcsGood : Nat := {int(F.GOOD_FCS_16)}")
        t = func_ast(ffc._compute_fcs_16_crc_table)
        poly = [v for v in int_consts(t) if v > 256]
        emit(f"def fcsPoly : Nat := {one(poly, 'fcs polynomial literal', problems, 'fcsPoly')}")
        t = func_ast(unwrap_fn(F.checksum))
        emit(f"def fcsComplement : Nat := {one(int_consts(t), 'fcs complement literal', problems, 'fcsComplement')}")
        t = func_ast(F._next)
        emit(f"def fcsNextLiterals : List Nat := {lean_nat_list(int_consts(t))}")
        t = func_ast(F.compute_checksum)
        emit(f"def fcsComputeLiterals : List Nat := {lean_nat_list(int_consts(t))}")
        emit("")

    # ---------------------------------------------------------------- hdlc
    with _guard(problems, "hdlc"):
        hdlc = importlib.import_module("han.hdlc")
        emit(f"def maxFrameLen : Nat := {int(hdlc.HdlcFrame.MAX_FRAME_LENGTH)}")
        emit(f"def escOctet : Nat := {int(hdlc.HdlcFrameReader.CONTROL_ESCAPE)}")
        emit(f"def flagOctet : Nat := {int(hdlc.HdlcFrameReader.FLAG_SEQUENCE)}")
        emit(f"def escXor : Nat := {probe_esc_xor(hdlc, problems)}")
        H = hdlc.HdlcFrameHeader
        emit(f"def hdlcFrameLengthLiterals : List Nat := {lean_nat_list(int_consts(func_ast(unwrap_fn(H.frame_length))))}")
        emit(f"def hdlcFrameFormatLiterals : List Nat := {lean_nat_list(int_consts(func_ast(unwrap_fn(H.frame_format))))}")
        emit(f"def hdlcHeaderUpdateLiterals : List Nat := {lean_nat_list(int_consts(func_ast(H.update)))}")
        emit(f"def hdlcGetAddressLiterals : List Nat := {lean_nat_list(int_consts(func_ast(H._get_address)))}")
        emit(f"def hdlcDestLiterals : List Nat := {lean_nat_list(int_consts(func_ast(unwrap_fn(H.destination_address))))}")
        emit(f"def hdlcSrcLiterals : List Nat := {lean_nat_list(int_consts(func_ast(unwrap_fn(H.source_address))))}")
        emit(f"def hdlcCtlPosLiterals : List Nat := {lean_nat_list(int_consts(func_ast(H._get_control_field_position)))}")
        emit(f"def hdlcHcsLiterals : List Nat := {lean_nat_list(int_consts(func_ast(unwrap_fn(H.header_check_sequence))))}")
        emit(f"def hdlcInfoPosLiterals : List Nat := {lean_nat_list(int_consts(func_ast(unwrap_fn(H.information_position))))}")
        emit(f"def hdlcFcsFieldLiterals : List Nat := {lean_nat_list(int_consts(func_ast(unwrap_fn(hdlc.HdlcFrame.frame_check_sequence))))}")
        emit(f"def hdlcPayloadLiterals : List Nat := {lean_nat_list(int_consts(func_ast(unwrap_fn(hdlc.HdlcFrame.payload))))}")
        emit(f"def hdlcHandleFlagLiterals : List Nat := {lean_nat_list(int_consts(func_ast(hdlc.HdlcFrameReader._handle_flag_sequence)))}")
        emit("")

    # ---------------------------------------------------------------- dlde
    with _guard(problems, "dlde"):
        dlde = importlib.import_module("han.dlde")
        emit(f"def p1Start : Nat := {int(dlde.START_CHARACTER_HEX)}")
        emit(f"def p1End : Nat := {int(dlde.END_CHARACTER_HEX)}")
        emit(f"def p1Lf : Nat := {int(dlde.LF_CHARACTER)}")
        # the size guard: the one integer > 255 anywhere in the class (the guard may live in a helper method or be a
        # named constant: module-level and class-level names are inlined)
        t = func_ast(dlde.ModeDReader)
        emit(f"def p1Guard : Nat := {one(sorted(set(v for v in int_consts(t) if v > 255)), 'P1 size guard literal', problems, 'p1Guard')}")
        t = func_ast(dlde.DataReadout._calculate_crc16)
        emit(f"def crc16Poly : Nat := {one([v for v in int_consts(t) if v > 256], 'crc16 polynomial literal', problems, 'crc16Poly')}")
        emit(f"def crc16Literals : List Nat := {lean_nat_list(int_consts(t))}")
        t = func_ast(unwrap_fn(dlde.DataReadout.is_valid))
        emit(f"def p1IsValidLiterals : List Nat := {lean_nat_list(int_consts(t))}")
        emit(f"def p1ExpectedChecksumLiterals : List Nat := {lean_nat_list(int_consts(func_ast(unwrap_fn(dlde.DataReadout.expected_checksum))))}")
        emit(f"def identPatternSrc : String := {lean_str(dlde._ident_pattern.pattern)}")
        emit(f"def p1DatetimeLiterals : List Nat := {lean_nat_list(int_consts(func_ast(dlde._parse_p1_datetime)))}")
        t = func_ast(dlde._decode_parsed)
        emit(f"def p1DecodeLiterals : List Nat := {lean_nat_list(int_consts(t))}")
        emit("def p1DecodeStrings : List String := [" + ", ".join(lean_str(s) for s in str_consts(t)) + "]")
        emit("")

    # ---------------------------------------------------------------- obis
    with _guard(problems, "obis"):
        obis = importlib.import_module("han.obis")
        emit(f"def obisReducedPatternSrc : String := {lean_str(obis.REDUCED_OBIS_PATTERN)}")
        emit(f"def obisStandardPatternSrc : String := {lean_str(obis.STANDARD_OBIS_PATTERN)}")
        emit(f"def obisBothPatternSrc : String := {lean_str(obis.OBIS_PATTERN_BOTH)}")
        emit(f"def obisCompiledPatternSrc : String := {lean_str(obis._obis_pattern.pattern)}")
        emit("")

    # ---------------------------------------------------------------- obis_map
    with _guard(problems, "obis_map"):
        om = importlib.import_module("han.obis_map")
        pairs = sorted(om.obis_name_map.items())
        emit("def obisNameMap : List (String × String) := [" + ", ".join(f"({lean_str(k)}, {lean_str(v)})" for k, v in pairs) + "]")
        for nm in sorted(n for n in dir(om) if n.startswith("FIELD_")):
            emit(f"def {nm[0].lower() + nm[1:]} : String := {lean_str(getattr(om, nm))}".replace("fIELD_", "field_"))
        emit("")

    # ---------------------------------------------------------------- cosem
    with _guard(problems, "cosem"):
        cosem = importlib.import_module("han.cosem")
        def enum_pairs(e):
            return sorted((str(k), int(v)) for k, v in e.encmapping.items())
        emit("def cosemTypes : List (String × Nat) := [" + ", ".join(f"({lean_str(k)}, {v})" for k, v in enum_pairs(cosem.CommonDataTypes)) + "]")
        emit("def cosemUnits : List (String × Nat) := [" + ", ".join(f"({lean_str(k)}, {v})" for k, v in enum_pairs(cosem.PhysicalUnits)) + "]")
        emit("def apduTags : List (String × Nat) := [" + ", ".join(f"({lean_str(k)}, {v})" for k, v in enum_pairs(cosem.ApduTag)) + "]")
        emit("")

    # ---------------------------------------------------------------- kaifa
    with _guard(problems, "kaifa"):
        kaifa = importlib.import_module("han.kaifa")
        emit("def kaifaFieldLists : List (List String) := [" + ", ".join("[" + ", ".join(lean_str(x) for x in lst) + "]" for lst in kaifa._field_order_lists) + "]")
        emit("def kaifaScaling : List (String × Int) := [" + ", ".join(f"({lean_str(k)}, {lean_int(v)})" for k, v in sorted(kaifa._FIELD_SCALING.items())) + "]")
        emit("")

    # ---------------------------------------------------------------- kamstrup
    with _guard(problems, "kamstrup"):
        kam = importlib.import_module("han.kamstrup")
        emit("def kamScalingStd : List (String × Int) := [" + ", ".join(f"({lean_str(k)}, {lean_int(v)})" for k, v in sorted(kam._field_scaling_standard.items())) + "]")
        emit("def kamScalingCt : List (String × Int) := [" + ", ".join(f"({lean_str(k)}, {lean_int(v)})" for k, v in sorted(kam._field_scaling_ct_meter.items())) + "]")
        t = func_ast(kam._normalize_parsed_items)
        emit("def kamNormalizeStrings : List String := [" + ", ".join(lean_str(s) for s in str_consts(t)) + "]")
        emit(f"def kamNormalizeLiterals : List Nat := {lean_nat_list(int_consts(t))}")
        emit("")

    # ---------------------------------------------------------------- aidon
    with _guard(problems, "aidon"):
        aidon = importlib.import_module("han.aidon")
        t = func_ast(aidon._normalize_parsed_items)
        emit("def aidonNormalizeStrings : List String := [" + ", ".join(lean_str(s) for s in str_consts(t)) + "]")
        emit("")

    # ---------------------------------------------------------------- autodecoder
    with _guard(problems, "autodecoder"):
        ad = importlib.import_module("han.autodecoder")
        emit("def decoderOrder : List String := [" + ", ".join(lean_str(n) for n, _ in ad.AutoDecoder.payload_decoder_functions) + "]")
        emit("def caughtPayload : List String := [" + ", ".join(lean_str(n) for n in except_names(ad.AutoDecoder.decode_message_payload)) + "]")
        emit("def caughtMessage : List String := [" + ", ".join(lean_str(n) for n in except_names(ad.AutoDecoder.decode_message)) + "]")
        emit("")

    # ---------------------------------------------------------------- meter_connection
    with _guard(problems, "meter_connection"):
        mc = importlib.import_module("han.meter_connection")
        emit(f"def defaultMaxDelay : Nat := {int(mc.BackOffStrategy.DEFAULT_MAX_DELAY_SEC)}")
        emit(f"def defaultLostThreshold : Nat := {int(mc.ConnectionManager.DEFAULT_CONNECTION_LOST_BACK_OFF_THRESHOLD)}")
        emit(f"def defaultLostSleep : Nat := {int(mc.ConnectionManager.DEFAULT_CONNECTION_LOST_BACK_OFF_SLEEP_SEC)}")
        emit(f"def backoffFailureLiterals : List Nat := {lean_nat_list(int_consts(func_ast(mc.ExponentialBackOff.failure)))}")
        emit(f"def backoffResetLiterals : List Nat := {lean_nat_list(int_consts(func_ast(mc.ExponentialBackOff.reset)))}")
        emit(f"def backoffInitLiterals : List Nat := {lean_nat_list(int_consts(func_ast(mc.ExponentialBackOff.__init__)))}")
        _b = mc.ExponentialBackOff()      # the initial state, observed through the public API
        emit(f"def backoffInitDelay : Nat := {int(_b.current_delay_sec)}")
        emit(f"def backoffInitMax : Nat := {int(_b.max_delay)}")
        emit(f"def getBackOffTimeLiterals : List Nat := {lean_nat_list(int_consts(func_ast(mc.ConnectionManager._get_back_off_time)))}")
        emit("")
    # definitions a failed section could not produce: emit a typed placeholder (so that Generated.lean and the model
    # driver still build and unrelated properties are unaffected) and a problem under that name - the properties whose
    # theorems use the name then have an obligation that no longer checks
    names_file = os.path.join(os.path.dirname(os.path.abspath(__file__)), "generated_names.json")
    emitted = {}
    for line in L:
        m = re.match(r"def (\w+) : (.*?) :=", line)
        if m:
            emitted[m.group(1)] = m.group(2)
    try:
        expected = json.load(open(names_file))
    except (OSError, ValueError):
        expected = {}
    for name, typ in expected.items():
        if name not in emitted:
            emit(f"def {name} : {typ} := default   -- placeholder: could not be extracted from the changed source")
            problems.append(f"{name}: the translator could not produce this definition from the changed source")
    if not problems and emitted != expected and os.environ.get("AMSHAN_WRITE_NAMES") == "1":
        json.dump(emitted, open(names_file, "w"), indent=1, sort_keys=True)
    emit("def extractionProblems : List String := [" + ", ".join(lean_str(p) for p in problems) + "]")
    emit("")
    emit("end Amshan.Gen")
    return "\n".join(L) + "\n", problems


def write_if_changed(out, text, label):
    old = open(out).read() if os.path.exists(out) else None
    if old != text:
        tmp = out + ".tmp"
        with open(tmp, "w") as f:
            f.write(text)
        os.replace(tmp, out)
        print(label, "updated")


def main() -> int:
    try:
        text, problems = generate()
        # mechanical translation of small pure function bodies (harness/pytrans.py)
        sys.path.insert(0, os.path.dirname(os.path.abspath(__file__)))
        import pytrans
        han = {m: importlib.import_module("han." + m) for m in ("fastframecheck", "hdlc", "dlde", "meter_connection", "autodecoder")}
        code, code_problems = pytrans.generate(han)
        problems += code_problems
    except Exception as ex:  # the tree does not even import: report, keep the old file
        print(f"EXTRACT-ERROR {type(ex).__name__}: {ex}")
        return 3
    out = os.path.normpath(OUT)
    write_if_changed(out, text, "Generated.lean")
    for fname, ftext in code.items():
        write_if_changed(os.path.join(os.path.dirname(out), fname), ftext, fname)
    for p in problems:
        print("EXTRACT-PROBLEM", p)
    return 0


if __name__ == "__main__":
    sys.exit(main())
