"""Generators of well-formed list descriptors for `list.enc` (Lean spec encoders) — C07 C08 C09 C10 C12."""
from __future__ import annotations

import calendar

import lib

KNOWN_CDE = ["1.7.0", "2.7.0", "3.7.0", "4.7.0", "31.7.0", "51.7.0", "71.7.0", "32.7.0", "52.7.0", "72.7.0",
             "1.8.0", "2.8.0", "3.8.0", "4.8.0", "21.7.0", "41.7.0", "61.7.0", "22.7.0", "42.7.0", "62.7.0",
             "23.7.0", "43.7.0", "63.7.0", "24.7.0", "44.7.0", "64.7.0"]
PRINT = bytes(range(32, 127))


def gen_dt(rng, boundary=False):
    if boundary:
        y = rng.choice([1, 1999, 2000, 2024, 9999, 2100, 1900])
        m = rng.choice([1, 2, 12, 2, 6])
        d = rng.choice([1, calendar.monthrange(max(y, 1), m)[1] if y >= 1 else 28, 28])
        h, mi, s = rng.choice([0, 23, 12]), rng.choice([0, 59]), rng.choice([0, 59])
        hs = rng.choice(["N", "0", "99", "50"])
        dev = rng.choice(["N", "0", "-720", "720", "-60", "60", "-120", "1"])
    else:
        y = rng.randint(1, 9999) if rng.random() < 0.3 else rng.randint(2000, 2040)
        m = rng.randint(1, 12)
        d = rng.randint(1, calendar.monthrange(y, m)[1])
        h, mi, s = rng.randint(0, 23), rng.randint(0, 59), rng.randint(0, 59)
        hs = "N" if rng.random() < 0.5 else str(rng.randint(0, 99))
        dev = "N" if rng.random() < 0.4 else str(rng.randint(-720, 720))
    return f"{y}.{m}.{d}.{rng.randrange(256)}.{h}.{mi}.{s}.{hs}.{dev}.{rng.randrange(256)}"


def gen_header(rng, clock=None, boundary=False):
    llc = rng.choice(["e6e700", "e6e700", "%06x" % rng.randrange(1 << 24)])
    tag = rng.choice([15, 15, 15, rng.randrange(256)])
    inv = "%08x" % rng.choice([0x40000000, 0, 0x000DD1A4, rng.randrange(1 << 32)])
    c = clock or rng.choice(["T", "T", "U", "N"])
    clk = "N" if c == "N" else c + gen_dt(rng, boundary)
    return f"{llc},{tag},{inv},{clk}"


def reg_value(rng, lo, hi):
    return rng.choice([lo, hi, 0, 1, 57, hi // 2, lo // 2 if lo else 0]) if rng.random() < 0.5 else rng.randint(lo, hi)


def obis6(rng, cde=None):
    c, d, e = map(int, (cde or rng.choice(KNOWN_CDE)).split("."))
    return "%02x%02x%02x%02x%02x%02x" % (rng.choice([0, 1]), rng.choice([0, 1]), c, d, e, 255)


def text(rng, n=None, exclude_len=()):
    while True:
        # 12 = the length of a COSEM date-time (the octet-string alternative tried first), 6 = an OBIS code, 2/4/8 = integers
        k = rng.choice([0, 1, 7, 16, 18, 40, 12, 12, 6, 2, 4, 8, 11, 13, 255]) if n is None else n
        if k not in exclude_len:
            break
    r = rng.random()
    if r < 0.08 and k:      # outside "printable" (not well-formed for the theorems): still compared with the model
        b = bytearray(rng.choice(PRINT) for _ in range(k))
        for _ in range(rng.choice([1, 1, 2])):
            b[rng.choice([len(b) - 1, len(b) - 1, 0, rng.randrange(len(b))])] = rng.choice([0, 0, 0, 9, 10, 13, 31, 127, 128, 255])
        return lib.hexs(bytes(b))
    return lib.hexs(bytes(rng.choice(PRINT) for _ in range(k)))


def gen_aidon(rng):
    n = rng.choice([1, 2, 4, 9, 12, 22, 27])
    es = []
    for _ in range(n):
        k = rng.randrange(10)
        if k == 0:
            es.append(f"T,{obis6(rng, rng.choice(['0.2.129', '0.0.5', '96.1.7', '96.1.0']))},{text(rng)}")
        elif k == 1:
            es.append(f"C,{obis6(rng, '1.0.0')},{gen_dt(rng, rng.random() < 0.5)}")
        else:
            ty = rng.choice(["u32", "s16", "u16"])
            lo, hi = {"u32": (0, 2**32 - 1), "s16": (-32768, 32767), "u16": (0, 65535)}[ty]
            cde = rng.choice(KNOWN_CDE) if rng.random() < 0.9 else f"{rng.randrange(256)}.{rng.randrange(256)}.{rng.randrange(256)}"
            es.append(f"R,{obis6(rng, cde)},{ty},{reg_value(rng, lo, hi)},{rng.choice([-3, -2, -1, 0, 0, 1, 2, 3])},{rng.choice([27, 29, 30, 32, 33, 35, rng.randrange(256)])}")
    return ";".join(es)


KAIFA_LAYOUT = {1: "U", 9: "TTTUUUUUU", 13: "TTTUUUUUUUUUU", 14: "TTTUUUUUUCUUUU", 18: "TTTUUUUUUUUUUCUUUU"}


def gen_kaifa_values(rng):
    n = rng.choice([1, 9, 13, 14, 18])
    layout = KAIFA_LAYOUT[n]
    if rng.random() < 0.06:
        # a positional list of a length that is NOT one of the documented layouts (a foreign / future / damaged list): not
        # well-formed for the theorems, compared with the model only - and it must leave no trace for the lists that follow
        layout = (KAIFA_LAYOUT[rng.choice([1, 9, 13])] + "U" * rng.choice([1, 1, 2, 5, 8]))[: rng.choice([2, 3, 10, 12, 15, 19, 20])]
    vs = []
    for i, k in enumerate(layout):
        if k == "T":
            vs.append("T," + text(rng, exclude_len=(6,) if i == 0 else ()))
        elif k == "U":
            vs.append(f"U,{reg_value(rng, 0, 2**32 - 1)}")
        else:
            vs.append("C," + gen_dt(rng, rng.random() < 0.5))
    return ";".join(vs)


def gen_kaifa_obis(rng):
    n = rng.choice([1, 3, 10, 27])
    es = []
    for _ in range(n):
        k = rng.randrange(10)
        if k == 0:
            es.append(f"{obis6(rng, rng.choice(['0.2.129', '0.0.5', '96.1.7']))},T,{text(rng)}")
        elif k == 1:
            es.append(f"{obis6(rng, '1.0.0')},C,{gen_dt(rng)}")
        else:
            es.append(f"{obis6(rng)},U,{reg_value(rng, 0, 2**32 - 1)}")
    return ";".join(es)


KAM_CDE = ["1.7.0", "2.7.0", "3.7.0", "4.7.0", "31.7.0", "51.7.0", "71.7.0", "32.7.0", "52.7.0", "72.7.0", "1.8.0", "2.8.0", "3.8.0", "4.8.0"]


def gen_kamstrup(rng, ct=None):
    first = f"{rng.choice([25, 35, 15, rng.randrange(256)])},{text(rng, 14)},{rng.choice([0, 0, 1, 3])}"
    es = []
    ct = rng.random() < 0.4 if ct is None else ct
    mt = ("685" if ct else rng.choice(["684", "686", "000", "68", "5685"])) + "".join(rng.choice("0123456789BN") for _ in range(15))
    es.append(f"0101600101ff,T,{lib.hexs(mt.encode())},{rng.choice([0, 0, 2])}")
    es.append(f"0101000005ff,T,{text(rng, 16)},{rng.choice([0, 1])}")
    for _ in range(rng.choice([1, 4, 10, 14])):
        cde = rng.choice(KAM_CDE)
        c, d, e = map(int, cde.split("."))
        kind = rng.choice(["U", "U", "S"])
        hi = 2**32 - 1 if kind == "U" else 65535
        es.append("0101%02x%02x%02xff,%s,%d,%d" % (c, d, e, kind, reg_value(rng, 0, hi), rng.choice([0, 0, 0, 1, 3])))
    if rng.random() < 0.5:
        es.insert(rng.randrange(len(es) + 1), f"0001010000ff,C,{gen_dt(rng, rng.random() < 0.5)},{rng.choice([0, 1])}")
    if rng.random() < 0.3:
        rng.shuffle(es)
    return first + ";" + ";".join(es)


def parse_answer(a: str):
    parts = a.split(" | ")
    if len(parts) != 4:
        raise lib.ToolFailure(f"driver: {a[:300]}")
    return parts[0], parts[1], parts[2], parts[3] == "1"


# ------------------------------------------------------------------ shared check body for C07 C08 C09
import dec_common as D  # noqa: E402

GEN = {"aidon": gen_aidon, "kaifa_values": gen_kaifa_values, "kaifa_obis": gen_kaifa_obis, "kamstrup": gen_kamstrup}
PREFIX = {"aidon": "Aidon", "kaifa_values": "Kaifa", "kaifa_obis": "Kaifa", "kamstrup": "Kamstrup"}


def run_lists(res, rng, meters, n, family, manufacturer):
    """descriptor -> Lean spec encoder -> real decoder (frame and bare body of the SAME list)"""
    reqs, meta = [], []
    for i in range(n):
        m = meters[i % len(meters)]
        desc = GEN[m](rng)
        hdr = gen_header(rng, boundary=rng.random() < 0.3)
        reqs.append(f"list.enc {m} - {desc}")
        meta.append((m, False))
        reqs.append(f"list.enc {m} {hdr} {desc}")
        meta.append((m, True))
    answers = lib.drive(reqs)
    for k, ((m, frame), rq, a) in enumerate(zip(meta, reqs, answers)):
        wire, model, spec, wf = parse_answer(a)
        dn = PREFIX[m] + ("_frame" if frame else "_notification_body")
        impl = D.impl_decode(dn, bytes.fromhex(wire))
        res.evaluations += 1
        case = {"op": "list.enc", "request": rq}
        if impl != model:
            res.tie_break(case, impl[:400], model[:400], family)
        if wf:
            if impl != spec:
                res.prop_failure(case, f"{dn}: decoded {impl[:300]} but the transmitted list means {spec[:300]}", family)
            elif f"meter_manufacturer=s{lib.hexs(manufacturer.encode())}" not in impl:
                res.prop_failure(case, f"{dn}: manufacturer field is not {manufacturer!r}", family)
            res.nontriv(wire)
            res.count("wellformed_" + ("frame" if frame else "body"))
            if frame:
                # frame and bare body of the same list agree on every field except (Kaifa/Kamstrup) the clock
                body_impl = D.impl_decode(PREFIX[m] + "_notification_body", bytes.fromhex(parse_answer(answers[k - 1])[0]))
                strip = lambda s: ",".join(x for x in s.strip("{}").split(",") if not x.startswith("meter_datetime="))
                if body_impl.startswith("{") and impl.startswith("{") and strip(body_impl) != strip(impl):
                    res.prop_failure(case, f"{dn}: frame and bare body of the same list decode differently", family)
        else:
            res.count("not_wellformed_control")
        res.count(family)
    if reqs:
        res.sample({"family": family, "request": reqs[len(reqs) // 2][:400]})


def replay_list(payload, res, family="replay"):
    rq = payload["case"]["request"]
    a = lib.drive([rq])[0]
    wire, model, spec, wf = parse_answer(a)
    parts = rq.split(" ")
    m, frame = parts[1], parts[2] != "-"
    dn = PREFIX[m] + ("_frame" if frame else "_notification_body")
    impl = D.impl_decode(dn, bytes.fromhex(wire))
    print("impl :", impl[:600])
    print("model:", model[:600])
    print("spec :", spec[:600], "wf=", wf)
    ok = (not wf) or impl == spec
    print("REPLAY", "passes" if ok else "fails")
    return 0 if ok else 1
