#!/bin/sh
# Build the framework from files on disk only (offline): translator, Lean library, proofs, driver.
cd "$(dirname "$0")" || exit 2
export PYTHONDONTWRITEBYTECODE=1
/venv/bin/python harness/extract.py || exit 2
cd lean || exit 2
lake build Amshan driver 2>&1 | tail -5
for f in Amshan/Props/C*.lean; do
  m=$(basename "$f" .lean)
  lake build "Amshan.Props.$m" 2>&1 | tail -2
done
test -x .lake/build/bin/driver
