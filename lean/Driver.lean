import Amshan.Model.Fcs
import Amshan.Model.Hdlc
import Amshan.Model.HdlcObs
import Amshan.Spec.Rfc1662
import Amshan.Model.HdlcDefs
import Amshan.Model.P1Obs
import Amshan.Model.P1Defs
import Amshan.Model.ProtoInst
import Amshan.Model.Obis
import Amshan.Model.BackOff
import Amshan.Spec.ObisText
/-
  Line-protocol driver: one request per line on stdin, one answer per line on stdout.
  Imports models and executable specs only (never Props / Lemmas / Mathlib).
-/
open Amshan Amshan.Wire

def opFcsStep : List String → String
  | [r, b] =>
    match r.toNat?, b.toNat? with
    | some r, some b => s!"{Fcs.next r b} {Rfc1662.stepSerial r b}"
    | _, _ => "bad-args"
  | _ => "bad-args"

def opFcsMsg : List String → String
  | [hex, start, len] =>
    match octetsOfHex? hex, start.toNat?, len.toNat? with
    | some bs, some st, some ln =>
      let reg := Fcs.feed Gen.fcsInit bs
      let comp := match Fcs.computeChecksum bs st ln with
        | .ok v => toString v
        | .error e => e.name
      let specWin := Rfc1662.fcs16 ((bs.drop st).take ln)
      s!"{reg} {Fcs.checksum reg} {bool01 (Fcs.isGood reg)} {comp} {Rfc1662.register bs} {Rfc1662.fcs16 bs} {specWin}"
    | _, _, _ => "bad-args"
  | _ => "bad-args"

def opFcsTable : List String → String
  | [] => String.intercalate "," ((List.range 256).map (fun i => toString (Rfc1662.stepSerial 0 i)))
  | _ => "bad-args"

def cfgOf? (s a : String) : Option Hdlc.Cfg :=
  match s, a with
  | "0", "0" => some ⟨false, false⟩
  | "0", "1" => some ⟨false, true⟩
  | "1", "0" => some ⟨true, false⟩
  | "1", "1" => some ⟨true, true⟩
  | _, _ => none

def opHdlcRead : List String → String
  | [s, a, chunks] =>
    match cfgOf? s a, chunksOf? chunks with
    | some cfg, some chs =>
      let calls := Hdlc.readAllRender cfg Hdlc.Reader.init chs
      let perOctet := (Hdlc.run cfg Hdlc.Core.init chs.flatten).2
      let buffered := (Hdlc.readAll cfg Hdlc.Reader.init chs).2.flatten
      let same := decide (perOctet = buffered)
      String.intercalate " ; " calls ++ " # runeq=" ++ bool01 same
    | _, _ => "bad-args"
  | _ => "bad-args"


/-- frame descriptor: fmt,seg,dsthex,srchex,ctl,infohex,fill -/
def frameDescOf? (s : String) : Option (HdlcSpec.FrameDesc × Nat) :=
  match s.splitOn "," with
  | [fmt, seg, dst, src, ctl, info, fill] =>
    match fmt.toNat?, octetsOfHex? dst, octetsOfHex? src, ctl.toNat?, octetsOfHex? info, fill.toNat? with
    | some fmt, some dst, some src, some ctl, some info, some fill =>
      some ({ fmt := fmt, seg := seg == "1", dst := dst, src := src, ctl := ctl, info := info }, fill)
    | _, _, _, _, _, _ => none
  | _ => none

def splitAtCuts (xs : List Nat) (cuts : List Nat) : List (List Nat) :=
  let rec go (xs : List Nat) (prev : Nat) : List Nat → List (List Nat)
    | [] => [xs]
    | c :: cs => (xs.take (c - prev)) :: go (xs.drop (c - prev)) c cs
  go xs 0 cuts

def cutsOf? (s : String) : Option (List Nat) :=
  if s == "." then some [] else (s.splitOn ",").mapM String.toNat?

/-- hdlc.clean s a noisehex frames closing cuts  (frames: descriptors joined by ';', "." = none) -/
def opHdlcClean : List String → String
  | [s, a, noise, frames, closing, cuts] =>
    let fsO : Option (List (HdlcSpec.FrameDesc × Nat)) :=
      if frames == "." then some [] else (frames.splitOn ";").mapM frameDescOf?
    match cfgOf? s a, octetsOfHex? noise, fsO, closing.toNat?, cutsOf? cuts with
    | some cfg, some noise, some fs, some closing, some cuts =>
      let w := HdlcSpec.wire cfg.stuffing noise fs closing
      let chunks := splitAtCuts w cuts
      let out := (Hdlc.readAll cfg Hdlc.Reader.init chunks).2.flatten
      let spec := fs.map (fun p => Hdlc.expectedFrame p.1)
      let dom := fs.all (fun p => decide p.1.WF && decide (1 ≤ p.2) && decide (HdlcSpec.InDomain cfg.stuffing cfg.abort p.1))
        && decide (1 ≤ closing) && decide (HdlcSpec.flag ∉ noise) && decide (Octets noise)
      s!"{hexOfOctets w} | {Hdlc.renderFrames out} | {Hdlc.renderFrames spec} | {bool01 dom} | {String.intercalate "," (chunks.map hexOfOctets)}"
    | _, _, _, _, _ => "bad-args"
  | _ => "bad-args"

def opP1Read : List String → String
  | [chunks] =>
    match chunksOf? chunks with
    | some chs => String.intercalate " ; " (P1.readAllRender P1.Reader.init chs)
    | none => "bad-args"
  | _ => "bad-args"

def opP1Readout : List String → String
  | [hex] =>
    match octetsOfHex? hex with
    | some bs =>
      match P1.Readout.make bs with
      | .ok r => r.render
      | .error e => "EXC " ++ e.name
    | none => "bad-args"
  | _ => "bad-args"

def opP1Ident : List String → String
  | [hex] =>
    match octetsOfHex? hex with
    | some s =>
      match P1.identMatch s with
      | some m => hexOfOctets m.manid ++ "/" ++ optHex m.ident
      | none => "nomatch"
    | none => "bad-args"
  | _ => "bad-args"

def opInt16 : List String → String
  | [hex] =>
    match octetsOfHex? hex with
    | some s => P1.excOr toString (Py.intBase16 s)
    | none => "bad-args"
  | _ => "bad-args"

/-- readout descriptor: manhex,baud,escshex,identhex,lines,chk   (lines: hex joined by '/', "." = none; chk: N|U|L) -/
def readoutDescOf? (s : String) : Option P1Spec.ReadoutDesc :=
  match s.splitOn "," with
  | [man, baud, escs, ident, lines, chk] =>
    let linesO : Option (List (List Nat)) := if lines == "." then some [] else (lines.splitOn "/").mapM octetsOfHex?
    match octetsOfHex? man, baud.toNat?, octetsOfHex? escs, octetsOfHex? ident, linesO with
    | some man, some baud, some escs, some ident, some lines =>
      let chk := if chk == "U" then some false else if chk == "L" then some true else none
      some { man := man, baud := baud, escs := escs, ident := ident, lines := lines, checksum := chk }
    | _, _, _, _, _ => none
  | _ => none

/-- p1.clean prehex descs cuts   (descs joined by ';', "." = none) -/
def opP1Clean : List String → String
  | [pre, descs, cuts] =>
    let dsO : Option (List P1Spec.ReadoutDesc) := if descs == "." then some [] else (descs.splitOn ";").mapM readoutDescOf?
    match octetsOfHex? pre, dsO, cutsOf? cuts with
    | some pre, some ds, some cuts =>
      let w := pre ++ ds.flatMap P1Spec.ReadoutDesc.encode
      let chunks := splitAtCuts w cuts
      let out := match P1.readAll P1.Reader.init chunks with
        | .ok (_, outs) => P1.renderReadouts outs.flatten
        | .error e => "EXC " ++ e.name
      let spec := P1.renderReadouts (ds.map P1.expectedReadout)
      let dom := ds.all (fun d => decide d.WF && decide (d.encode.length ≤ Gen.p1Guard)) &&
        decide (Octets pre) && decide (Gen.p1Start ∉ pre)
      s!"{hexOfOctets w} | {out} | {spec} | {bool01 dom} | {String.intercalate "," (chunks.map hexOfOctets)}"
    | _, _, _ => "bad-args"
  | _ => "bad-args"

def candOf? (s : String) : Option Proto.Rd :=
  match s with
  | "H00" => some (Proto.hdlcRd ⟨false, false⟩)
  | "H01" => some (Proto.hdlcRd ⟨false, true⟩)
  | "H10" => some (Proto.hdlcRd ⟨true, false⟩)
  | "H11" => some (Proto.hdlcRd ⟨true, true⟩)
  | "P" => some Proto.p1Rd
  | _ => none

def renderItem : Proto.Item → String
  | .msg m => "M" ++ hexOfOctets m.bytes ++ "/" ++ bool01 m.valid
  | .payload p => "P" ++ hexOfOctets p

/-- proto kind cands chunks   (kind: message|payload; cands: e.g. H10,P ; "." = none) -/
def opProto : List String → String
  | [kind, cands, chunks] =>
    let candsO : Option (List Proto.Rd) := if cands == "." then some [] else (cands.splitOn ",").mapM candOf?
    let kindO : Option Proto.Kind := if kind == "message" then some .message else if kind == "payload" then some .payload else none
    match kindO, candsO, chunksOf? chunks with
    | some k, some cs, some chs =>
      let res := Proto.runAll k (Proto.State.init cs) chs
      let sel := match res.1.selected with | some (i, _) => toString i | none => "N"
      let items := res.2.map renderItem
      (if items.isEmpty then "." else String.intercalate " " items) ++ " @" ++ sel
    | _, _, _ => "bad-args"
  | _ => "bad-args"

def renderGroups (g : Obis.Groups) : String :=
  let (a, b, c, d, e, f) := g
  String.intercalate "," [optNat a, optNat b, toString c, toString d, optNat e, optNat f]

def optNatOf? (s : String) : Option (Option Nat) :=
  if s == "N" then some none else s.toNat?.map some

def groupsOf? (s : String) : Option Obis.Groups :=
  match s.splitOn "," with
  | [a, b, c, d, e, f] =>
    match optNatOf? a, optNatOf? b, c.toNat?, d.toNat?, optNatOf? e, optNatOf? f with
    | some a, some b, some c, some d, some e, some f => some (a, b, c, d, e, f)
    | _, _, _, _, _, _ => none
  | _ => none

/-- obis.parse hex(text) -> groups | ValueError ; hasDigitDotDigit -/
def opObisParse : List String → String
  | [hex] =>
    match octetsOfHex? hex with
    | some s => P1.excOr renderGroups (Obis.parse s) ++ " " ++ bool01 (ObisSpec.hasDigitDotDigit s)
    | none => "bad-args"
  | _ => "bad-args"

/-- obis.fmt groups -> reduced str, str, cde str, spec reduced text (when groups ≤ 255) -/
def opObisFmt : List String → String
  | [g] =>
    match groupsOf? g with
    | some g =>
      let (a, b, c, d, e, f) := g
      String.intercalate " " [hexOfOctets (Obis.toReducedStr g), hexOfOctets (Obis.toStr g), hexOfOctets (Obis.cdeStr g),
        hexOfOctets (ObisSpec.reduced a b c d e f),
        P1.excOr renderGroups (Obis.parse (Obis.toReducedStr g))]
    | none => "bad-args"
  | _ => "bad-args"

/-- obis.eq groups hex(text) -/
def opObisEq : List String → String
  | [g, hex] =>
    match groupsOf? g, octetsOfHex? hex with
    | some g, some s => bool01 (Obis.eqStr g s)
    | _, _ => "bad-args"
  | _ => "bad-args"

/-- backoff max ops(string of f/r) -> delays after each op ; spec values -/
def opBackoff : List String → String
  | [mx, ops] =>
    match mx.toNat? with
    | some mx =>
      let opsL : List BackOff.Op := (if ops == "." then [] else ops.toList).map (fun c => if c == 'f' then BackOff.Op.failure else BackOff.Op.reset)
      let rec go (s : BackOff.Strategy) (n : Nat) : List BackOff.Op → List String
        | [] => []
        | o :: os =>
          let s1 := s.apply o
          let n1 := match o with | .failure => n + 1 | .reset => 0
          let spec := if n1 = 0 then 0 else min (2 ^ (n1 - 1)) mx
          (toString s1.current ++ "/" ++ toString spec) :: go s1 n1 os
      String.intercalate " " (toString (BackOff.Strategy.new mx).current :: go (BackOff.Strategy.new mx) 0 opsL)
    | none => "bad-args"
  | _ => "bad-args"

/-- breaker threshold sleep delay maxdelay losses(comma list of µs, "." none) -> flag,backofftime after each loss -/
def opBreaker : List String → String
  | [thr, slp, delay, mx, losses] =>
    let ls : Option (List Nat) := if losses == "." then some [] else (losses.splitOn ",").mapM String.toNat?
    match thr.toNat?, slp.toNat?, delay.toNat?, mx.toNat?, ls with
    | some thr, some slp, some delay, some mx, some ls =>
      let s : BackOff.Strategy := { delay := delay, maxDelay := mx }
      let b0 : BackOff.Breaker := { threshold := thr, sleepSec := slp, lastLoss := none, sleepFlag := false }
      let rec go (b : BackOff.Breaker) : List Nat → List String
        | [] => []
        | t :: ts => let b1 := b.update t; (bool01 b1.sleepFlag ++ "/" ++ toString (BackOff.getBackOffTime s b1)) :: go b1 ts
      String.intercalate " " ((bool01 b0.sleepFlag ++ "/" ++ toString (BackOff.getBackOffTime s b0)) :: go b0 ls)
    | _, _, _, _, _ => "bad-args"
  | _ => "bad-args"

def dispatch (line : String) : String :=
  match (line.trimAscii.toString.splitOn " ").filter (· ≠ "") with
  | [] => "bad-op"
  | op :: args =>
    match op with
    | "fcs.step" => opFcsStep args
    | "fcs.msg" => opFcsMsg args
    | "fcs.table" => opFcsTable args
    | "hdlc.read" => opHdlcRead args
    | "hdlc.clean" => opHdlcClean args
    | "p1.read" => opP1Read args
    | "proto" => opProto args
    | "backoff" => opBackoff args
    | "breaker" => opBreaker args
    | "obis.parse" => opObisParse args
    | "obis.fmt" => opObisFmt args
    | "obis.eq" => opObisEq args
    | "p1.clean" => opP1Clean args
    | "p1.readout" => opP1Readout args
    | "p1.ident" => opP1Ident args
    | "py.int16" => opInt16 args
    | "ping" => "pong"
    | _ => "bad-op"

partial def loop (hin hout : IO.FS.Stream) : IO Unit := do
  let line ← hin.getLine
  if line.isEmpty then return ()
  hout.putStrLn (dispatch line)
  loop hin hout

def main : IO Unit := do
  let hin ← IO.getStdin
  let hout ← IO.getStdout
  loop hin hout
  hout.flush
