import Amshan.Model.Fcs
import Amshan.Model.Hdlc
import Amshan.Model.HdlcObs
import Amshan.Spec.Rfc1662
/-
  Line-protocol driver: one request per line on stdin, one answer per line on stdout.
  Imports models and executable specs only (never Props / Lemmas / Mathlib).
-/
open Amshan Amshan.Wire

def opFcsStep : List String → String
  | [r, b] =>
    match r.toNat?, b.toNat? with
    | some r, some b => s!"{Fcs.next r b} {Rfc1662.stepSerial r b}"
    | _, _ => "bad-args"
  | _ => "bad-args"

def opFcsMsg : List String → String
  | [hex, start, len] =>
    match octetsOfHex? hex, start.toNat?, len.toNat? with
    | some bs, some st, some ln =>
      let reg := Fcs.feed Gen.fcsInit bs
      let comp := match Fcs.computeChecksum bs st ln with
        | .ok v => toString v
        | .error e => e.name
      let specWin := Rfc1662.fcs16 ((bs.drop st).take ln)
      s!"{reg} {Fcs.checksum reg} {bool01 (Fcs.isGood reg)} {comp} {Rfc1662.register bs} {Rfc1662.fcs16 bs} {specWin}"
    | _, _, _ => "bad-args"
  | _ => "bad-args"

def opFcsTable : List String → String
  | [] => String.intercalate "," ((List.range 256).map (fun i => toString (Rfc1662.stepSerial 0 i)))
  | _ => "bad-args"

def cfgOf? (s a : String) : Option Hdlc.Cfg :=
  match s, a with
  | "0", "0" => some ⟨false, false⟩
  | "0", "1" => some ⟨false, true⟩
  | "1", "0" => some ⟨true, false⟩
  | "1", "1" => some ⟨true, true⟩
  | _, _ => none

def opHdlcRead : List String → String
  | [s, a, chunks] =>
    match cfgOf? s a, chunksOf? chunks with
    | some cfg, some chs =>
      let calls := Hdlc.readAllRender cfg Hdlc.Reader.init chs
      let perOctet := (Hdlc.run cfg Hdlc.Core.init chs.flatten).2
      let buffered := (Hdlc.readAll cfg Hdlc.Reader.init chs).2.flatten
      let same := decide (perOctet = buffered)
      String.intercalate " ; " calls ++ " # runeq=" ++ bool01 same
    | _, _ => "bad-args"
  | _ => "bad-args"

def dispatch (line : String) : String :=
  match (line.trimAscii.toString.splitOn " ").filter (· ≠ "") with
  | [] => "bad-op"
  | op :: args =>
    match op with
    | "fcs.step" => opFcsStep args
    | "fcs.msg" => opFcsMsg args
    | "fcs.table" => opFcsTable args
    | "hdlc.read" => opHdlcRead args
    | "ping" => "pong"
    | _ => "bad-op"

partial def loop (hin hout : IO.FS.Stream) : IO Unit := do
  let line ← hin.getLine
  if line.isEmpty then return ()
  hout.putStrLn (dispatch line)
  loop hin hout

def main : IO Unit := do
  let hin ← IO.getStdin
  let hout ← IO.getStdout
  loop hin hout
  hout.flush
