import Amshan.Model.Fcs
import Amshan.Model.Hdlc
import Amshan.Model.HdlcObs
import Amshan.Spec.Rfc1662
import Amshan.Model.HdlcDefs
import Amshan.Model.P1Obs
import Amshan.Model.P1Defs
import Amshan.Model.ProtoInst
import Amshan.Model.Obis
import Amshan.Model.BackOff
import Amshan.Model.Decoders
import Amshan.Spec.Lists
import Amshan.Model.ConnMgr
import Amshan.Spec.ObisText
/-
  Line-protocol driver: one request per line on stdin, one answer per line on stdout.
  Imports models and executable specs only (never Props / Lemmas / Mathlib).
-/
open Amshan Amshan.Wire

def opFcsStep : List String → String
  | [r, b] =>
    match r.toNat?, b.toNat? with
    | some r, some b => s!"{Fcs.next r b} {Rfc1662.stepSerial r b}"
    | _, _ => "bad-args"
  | _ => "bad-args"

def opFcsMsg : List String → String
  | [hex, start, len] =>
    match octetsOfHex? hex, start.toNat?, len.toNat? with
    | some bs, some st, some ln =>
      let reg := Fcs.feed Gen.fcsInit bs
      let comp := match Fcs.computeChecksum bs st ln with
        | .ok v => toString v
        | .error e => e.name
      let specWin := Rfc1662.fcs16 ((bs.drop st).take ln)
      s!"{reg} {Fcs.checksum reg} {bool01 (Fcs.isGood reg)} {comp} {Rfc1662.register bs} {Rfc1662.fcs16 bs} {specWin}"
    | _, _, _ => "bad-args"
  | _ => "bad-args"

def opFcsTable : List String → String
  | [] => String.intercalate "," ((List.range 256).map (fun i => toString (Rfc1662.stepSerial 0 i)))
  | _ => "bad-args"

def cfgOf? (s a : String) : Option Hdlc.Cfg :=
  match s, a with
  | "0", "0" => some ⟨false, false⟩
  | "0", "1" => some ⟨false, true⟩
  | "1", "0" => some ⟨true, false⟩
  | "1", "1" => some ⟨true, true⟩
  | _, _ => none

def opHdlcRead : List String → String
  | [s, a, chunks] =>
    match cfgOf? s a, chunksOf? chunks with
    | some cfg, some chs =>
      let calls := Hdlc.readAllRender cfg Hdlc.Reader.init chs
      let perOctet := (Hdlc.run cfg Hdlc.Core.init chs.flatten).2
      let buffered := (Hdlc.readAll cfg Hdlc.Reader.init chs).2.flatten
      let same := decide (perOctet = buffered)
      String.intercalate " ; " calls ++ " # runeq=" ++ bool01 same
    | _, _ => "bad-args"
  | _ => "bad-args"


/-- frame descriptor: fmt,seg,dsthex,srchex,ctl,infohex,fill -/
def frameDescOf? (s : String) : Option (HdlcSpec.FrameDesc × Nat) :=
  match s.splitOn "," with
  | [fmt, seg, dst, src, ctl, info, fill] =>
    match fmt.toNat?, octetsOfHex? dst, octetsOfHex? src, ctl.toNat?, octetsOfHex? info, fill.toNat? with
    | some fmt, some dst, some src, some ctl, some info, some fill =>
      some ({ fmt := fmt, seg := seg == "1", dst := dst, src := src, ctl := ctl, info := info }, fill)
    | _, _, _, _, _, _ => none
  | _ => none

def splitAtCuts (xs : List Nat) (cuts : List Nat) : List (List Nat) :=
  let rec go (xs : List Nat) (prev : Nat) : List Nat → List (List Nat)
    | [] => [xs]
    | c :: cs => (xs.take (c - prev)) :: go (xs.drop (c - prev)) c cs
  go xs 0 cuts

def cutsOf? (s : String) : Option (List Nat) :=
  if s == "." then some [] else (s.splitOn ",").mapM String.toNat?

/-- hdlc.clean s a noisehex frames closing cuts  (frames: descriptors joined by ';', "." = none) -/
def opHdlcClean : List String → String
  | [s, a, noise, frames, closing, cuts] =>
    let fsO : Option (List (HdlcSpec.FrameDesc × Nat)) :=
      if frames == "." then some [] else (frames.splitOn ";").mapM frameDescOf?
    match cfgOf? s a, octetsOfHex? noise, fsO, closing.toNat?, cutsOf? cuts with
    | some cfg, some noise, some fs, some closing, some cuts =>
      let w := HdlcSpec.wire cfg.stuffing noise fs closing
      let chunks := splitAtCuts w cuts
      let out := (Hdlc.readAll cfg Hdlc.Reader.init chunks).2.flatten
      let spec := fs.map (fun p => Hdlc.expectedFrame p.1)
      let dom := fs.all (fun p => decide p.1.WF && decide (1 ≤ p.2) && decide (HdlcSpec.InDomain cfg.stuffing cfg.abort p.1))
        && decide (1 ≤ closing) && decide (HdlcSpec.flag ∉ noise) && decide (Octets noise)
      s!"{hexOfOctets w} | {Hdlc.renderFrames out} | {Hdlc.renderFrames spec} | {bool01 dom} | {String.intercalate "," (chunks.map hexOfOctets)}"
    | _, _, _, _, _ => "bad-args"
  | _ => "bad-args"

def opP1Read : List String → String
  | [chunks] =>
    match chunksOf? chunks with
    | some chs => String.intercalate " ; " (P1.readAllRender P1.Reader.init chs)
    | none => "bad-args"
  | _ => "bad-args"

def opP1Readout : List String → String
  | [hex] =>
    match octetsOfHex? hex with
    | some bs =>
      match P1.Readout.make bs with
      | .ok r => r.render
      | .error e => "EXC " ++ e.name
    | none => "bad-args"
  | _ => "bad-args"

def opP1Ident : List String → String
  | [hex] =>
    match octetsOfHex? hex with
    | some s =>
      match P1.identMatch s with
      | some m => hexOfOctets m.manid ++ "/" ++ optHex m.ident
      | none => "nomatch"
    | none => "bad-args"
  | _ => "bad-args"

def opInt16 : List String → String
  | [hex] =>
    match octetsOfHex? hex with
    | some s => P1.excOr toString (Py.intBase16 s)
    | none => "bad-args"
  | _ => "bad-args"

/-- readout descriptor: manhex,baud,escshex,identhex,lines,chk   (lines: hex joined by '/', "." = none; chk: N|U|L) -/
def readoutDescOf? (s : String) : Option P1Spec.ReadoutDesc :=
  match s.splitOn "," with
  | [man, baud, escs, ident, lines, chk] =>
    let linesO : Option (List (List Nat)) := if lines == "." then some [] else (lines.splitOn "/").mapM octetsOfHex?
    match octetsOfHex? man, baud.toNat?, octetsOfHex? escs, octetsOfHex? ident, linesO with
    | some man, some baud, some escs, some ident, some lines =>
      let chk := if chk == "U" then some false else if chk == "L" then some true else none
      some { man := man, baud := baud, escs := escs, ident := ident, lines := lines, checksum := chk }
    | _, _, _, _, _ => none
  | _ => none

/-- p1.clean prehex descs cuts   (descs joined by ';', "." = none) -/
def opP1Clean : List String → String
  | [pre, descs, cuts] =>
    let dsO : Option (List P1Spec.ReadoutDesc) := if descs == "." then some [] else (descs.splitOn ";").mapM readoutDescOf?
    match octetsOfHex? pre, dsO, cutsOf? cuts with
    | some pre, some ds, some cuts =>
      let w := pre ++ ds.flatMap P1Spec.ReadoutDesc.encode
      let chunks := splitAtCuts w cuts
      let out := match P1.readAll P1.Reader.init chunks with
        | .ok (_, outs) => P1.renderReadouts outs.flatten
        | .error e => "EXC " ++ e.name
      let spec := P1.renderReadouts (ds.map P1.expectedReadout)
      let dom := ds.all (fun d => decide d.WF && decide (d.encode.length ≤ Gen.p1Guard)) &&
        decide (Octets pre) && decide (Gen.p1Start ∉ pre)
      s!"{hexOfOctets w} | {out} | {spec} | {bool01 dom} | {String.intercalate "," (chunks.map hexOfOctets)}"
    | _, _, _ => "bad-args"
  | _ => "bad-args"

def candOf? (s : String) : Option Proto.Rd :=
  match s with
  | "H00" => some (Proto.hdlcRd ⟨false, false⟩)
  | "H01" => some (Proto.hdlcRd ⟨false, true⟩)
  | "H10" => some (Proto.hdlcRd ⟨true, false⟩)
  | "H11" => some (Proto.hdlcRd ⟨true, true⟩)
  | "P" => some Proto.p1Rd
  | _ => none

def renderItem : Proto.Item → String
  | .msg m => "M" ++ hexOfOctets m.bytes ++ "/" ++ bool01 m.valid
  | .payload p => "P" ++ hexOfOctets p

/-- proto kind cands chunks   (kind: message|payload; cands: e.g. H10,P ; "." = none) -/
def opProto : List String → String
  | [kind, cands, chunks] =>
    let candsO : Option (List Proto.Rd) := if cands == "." then some [] else (cands.splitOn ",").mapM candOf?
    let kindO : Option Proto.Kind := if kind == "message" then some .message else if kind == "payload" then some .payload else none
    match kindO, candsO, chunksOf? chunks with
    | some k, some cs, some chs =>
      let res := Proto.runAll k (Proto.State.init cs) chs
      let sel := match res.1.selected with | some (i, _) => toString i | none => "N"
      let items := res.2.map renderItem
      (if items.isEmpty then "." else String.intercalate " " items) ++ " @" ++ sel
    | _, _, _ => "bad-args"
  | _ => "bad-args"

def renderGroups (g : Obis.Groups) : String :=
  let (a, b, c, d, e, f) := g
  String.intercalate "," [optNat a, optNat b, toString c, toString d, optNat e, optNat f]

def optNatOf? (s : String) : Option (Option Nat) :=
  if s == "N" then some none else s.toNat?.map some

def groupsOf? (s : String) : Option Obis.Groups :=
  match s.splitOn "," with
  | [a, b, c, d, e, f] =>
    match optNatOf? a, optNatOf? b, c.toNat?, d.toNat?, optNatOf? e, optNatOf? f with
    | some a, some b, some c, some d, some e, some f => some (a, b, c, d, e, f)
    | _, _, _, _, _, _ => none
  | _ => none

/-- obis.parse hex(text) -> groups | ValueError ; hasDigitDotDigit -/
def opObisParse : List String → String
  | [hex] =>
    match octetsOfHex? hex with
    | some s => P1.excOr renderGroups (Obis.parse s) ++ " " ++ bool01 (ObisSpec.hasDigitDotDigit s)
    | none => "bad-args"
  | _ => "bad-args"

/-- obis.fmt groups -> reduced str, str, cde str, spec reduced text (when groups ≤ 255) -/
def opObisFmt : List String → String
  | [g] =>
    match groupsOf? g with
    | some g =>
      let (a, b, c, d, e, f) := g
      String.intercalate " " [hexOfOctets (Obis.toReducedStr g), hexOfOctets (Obis.toStr g), hexOfOctets (Obis.cdeStr g),
        hexOfOctets (ObisSpec.reduced a b c d e f),
        P1.excOr renderGroups (Obis.parse (Obis.toReducedStr g))]
    | none => "bad-args"
  | _ => "bad-args"

/-- obis.eq groups hex(text) -/
def opObisEq : List String → String
  | [g, hex] =>
    match groupsOf? g, octetsOfHex? hex with
    | some g, some s => bool01 (Obis.eqStr g s)
    | _, _ => "bad-args"
  | _ => "bad-args"

/-- backoff max ops(string of f/r) -> delays after each op ; spec values -/
def opBackoff : List String → String
  | [mx, ops] =>
    match mx.toNat? with
    | some mx =>
      let opsL : List BackOff.Op := (if ops == "." then [] else ops.toList).map (fun c => if c == 'f' then BackOff.Op.failure else BackOff.Op.reset)
      let rec go (s : BackOff.Strategy) (n : Nat) : List BackOff.Op → List String
        | [] => []
        | o :: os =>
          let s1 := s.apply o
          let n1 := match o with | .failure => n + 1 | .reset => 0
          let spec := if n1 = 0 then 0 else min (2 ^ (n1 - 1)) mx
          (toString s1.current ++ "/" ++ toString spec) :: go s1 n1 os
      String.intercalate " " (toString (BackOff.Strategy.new mx).current :: go (BackOff.Strategy.new mx) 0 opsL)
    | none => "bad-args"
  | _ => "bad-args"

/-- breaker threshold sleep delay maxdelay losses(comma list of µs, "." none) -> flag,backofftime after each loss -/
def opBreaker : List String → String
  | [thr, slp, delay, mx, losses] =>
    let ls : Option (List Nat) := if losses == "." then some [] else (losses.splitOn ",").mapM String.toNat?
    match thr.toNat?, slp.toNat?, delay.toNat?, mx.toNat?, ls with
    | some thr, some slp, some delay, some mx, some ls =>
      let s : BackOff.Strategy := { delay := delay, maxDelay := mx }
      let b0 : BackOff.Breaker := { threshold := thr, sleepSec := slp, lastLoss := none, sleepFlag := false }
      let rec go (b : BackOff.Breaker) : List Nat → List String
        | [] => []
        | t :: ts => let b1 := b.update t; (bool01 b1.sleepFlag ++ "/" ++ toString (BackOff.getBackOffTime s b1)) :: go b1 ts
      String.intercalate " " ((bool01 b0.sleepFlag ++ "/" ++ toString (BackOff.getBackOffTime s b0)) :: go b0 ls)
    | _, _, _, _, _ => "bad-args"
  | _ => "bad-args"

/-- decode <decoder name> hex -/
def opDecode : List String → String
  | [name, hex] =>
    match Dec.decoderByName name, octetsOfHex? hex with
    | some d, some p => Dec.renderResult (d p)
    | _, _ => "bad-args"
  | _ => "bad-args"

def prevOf? (s : String) : Option (Option Nat) := if s == "N" then some none else s.toNat?.map some

/-- auto prev payloads(comma hex) -> per payload "result @prev" -/
def opAuto : List String → String
  | [prev, payloads] =>
    match prevOf? prev, chunksOf? payloads with
    | some prev, some ps =>
      let rec go (prev : Option Nat) : List (List Nat) → List String
        | [] => []
        | p :: rest =>
          match Dec.stepPayload prev p with
          | .ok (prev1, r) => ((match r with | some d => Dec.renderDict d | none => "None") ++ " @" ++ optNat prev1) :: go prev1 rest
          | .error e => ["EXC " ++ e.name]
      String.intercalate " ; " (go prev ps)
    | _, _ => "bad-args"
  | _ => "bad-args"

def frameOfData (d : List Nat) : Hdlc.Frame := d.foldl Hdlc.Frame.append Hdlc.Frame.empty

/-- automsg prev kind hex   (kind H = HDLC frame octets, D = DLMS message, P = P1 readout bytes) -/
def opAutoMsg : List String → String
  | [prev, kind, hex] =>
    match prevOf? prev, octetsOfHex? hex with
    | some prev, some b =>
      let msg : Option Dec.Message :=
        if kind == "H" then some (.hdlc (frameOfData b))
        else if kind == "D" then some (.dlms b)
        else if kind == "P" then (match P1.Readout.make b with | .ok r => some (.p1 r) | .error _ => none)
        else none
      match msg with
      | none => "bad-message"
      | some m =>
        match Dec.stepMessage prev m with
        | .ok (prev1, r) => (match r with | some d => Dec.renderDict d | none => "None") ++ " @" ++ optNat prev1
        | .error e => "EXC " ++ e.name
    | _, _ => "bad-args"
  | _ => "bad-args"

/-- p1.parse hex(text) -> data sets and loop iterations -/
def opP1Parse : List String → String
  | [hex] =>
    match octetsOfHex? hex with
    | some t =>
      match P1Parse.parseContent t with
      | .ok (items, iters) =>
        let rv (v : P1Parse.DataSetValue) := hexOfOctets v.value ++ "*" ++ optHex v.unit
        (if items.isEmpty then "." else String.intercalate " " (items.map fun i => hexOfOctets i.address ++ "(" ++ String.intercalate "," (i.values.map rv) ++ ")"))
          ++ " #" ++ toString iters
      | .error e => e.name
    | none => "bad-args"
  | _ => "bad-args"

/-- float ops for the correspondence of Model/Float.lean: flt.str hex | flt.scale v s | flt.kilo hex -/
def opFltStr : List String → String
  | [hex] => match octetsOfHex? hex with
    | some t => P1.excOr Flt.render (Flt.ofStr t)
    | none => "bad-args"
  | _ => "bad-args"

def opFltScale : List String → String
  | [v, s] => match v.toInt?, s.toNat? with
    | some v, some s => Flt.render (Flt.roundDigits (Flt.mul (Flt.ofInt v) (Flt.tenPowNeg s)) s) ++ " " ++
        Flt.render (Flt.mul (Flt.ofInt v) (Flt.tenPowNeg s)) ++ " " ++ Flt.render (Flt.ofRat (decide (v < 0)) v.natAbs (10 ^ s))
    | _, _ => "bad-args"
  | _ => "bad-args"

def opFltKilo : List String → String
  | [hex] => match octetsOfHex? hex with
    | some t => match Flt.ofStr t with
      | .ok f => P1.excOr toString (Flt.toInt (Flt.mul f (Flt.ofNat 1000)))
      | .error e => e.name
    | none => "bad-args"
  | _ => "bad-args"

/-! list.enc : descriptors of well-formed lists -> Lean spec encoder -> model decoder + expected dictionary -/
open Amshan.ListSpec in
def optNatTok? (s : String) : Option (Option Nat) := if s == "N" then some none else s.toNat?.map some
def optIntTok? (s : String) : Option (Option Int) := if s == "N" then some none else s.toInt?.map some

/-- date-time descriptor  y.m.d.dow.h.mi.s.hs|N.dev|N.status -/
def dtDescOf? (s : String) : Option ListSpec.DateTimeDesc :=
  match s.splitOn "." with
  | [y, m, d, w, h, mi, se, hs, dev, st] =>
    match y.toNat?, m.toNat?, d.toNat?, w.toNat?, h.toNat?, mi.toNat?, se.toNat?, optNatTok? hs, optIntTok? dev, st.toNat? with
    | some y, some m, some d, some w, some h, some mi, some se, some hs, some dev, some st =>
      some { year := y, month := m, day := d, dow := w, hour := h, minute := mi, second := se, hundredths := hs, deviation := dev, status := st }
    | _, _, _, _, _, _, _, _, _, _ => none
  | _ => none

/-- header  llchex,tag,invokehex,clock   clock = N | T<dt> | U<dt> -/
def headerOf? (s : String) : Option ListSpec.Header :=
  match s.splitOn "," with
  | [llc, tag, inv, clk] =>
    let clkO : Option ListSpec.ApduClock :=
      if clk == "N" then some .null
      else if clk.startsWith "T" then (dtDescOf? (clk.drop 1).toString).map .tagged
      else if clk.startsWith "U" then (dtDescOf? (clk.drop 1).toString).map .untagged
      else none
    match octetsOfHex? llc, tag.toNat?, octetsOfHex? inv, clkO with
    | some llc, some tag, some inv, some clk => some { llc := llc, tag := tag, invoke := inv, clock := clk }
    | _, _, _, _ => none
  | _ => none

def aidonElemOf? (s : String) : Option ListSpec.AidonElem :=
  match s.splitOn "," with
  | ["T", o, t] => match octetsOfHex? o, octetsOfHex? t with | some o, some t => some (.text o t) | _, _ => none
  | ["C", o, d] => match octetsOfHex? o, dtDescOf? d with | some o, some d => some (.clock o d) | _, _ => none
  | ["R", o, ty, v, sc, u] =>
    let tyO : Option ListSpec.RegType := if ty == "u32" then some .u32 else if ty == "s16" then some .s16 else if ty == "u16" then some .u16 else none
    match octetsOfHex? o, tyO, v.toInt?, sc.toInt?, u.toNat? with
    | some o, some ty, some v, some sc, some u => some (.reg o ty v sc u)
    | _, _, _, _, _ => none
  | _ => none

def kvalOf? (k v : String) : Option ListSpec.KVal :=
  if k == "T" then (octetsOfHex? v).map .text
  else if k == "U" then v.toNat?.map .u32
  else if k == "C" then (dtDescOf? v).map .clock
  else none

def kamValOf? (k v : String) : Option ListSpec.KamVal :=
  if k == "T" then (octetsOfHex? v).map .text
  else if k == "U" then v.toNat?.map .u32
  else if k == "S" then v.toNat?.map .u16
  else if k == "C" then (dtDescOf? v).map .clock
  else none

def listOf? {α} (f : String → Option α) (s : String) : Option (List α) :=
  if s == "." then some [] else (s.splitOn ";").mapM f

def apduDtOf (h : ListSpec.Header) : Option Cosem.DT :=
  match h.clock with
  | .null => none
  | .tagged d => some (ListSpec.expectedDT d)
  | .untagged d => some (ListSpec.expectedDT d)

instance (h : ListSpec.Header) : Decidable h.WF := by
  unfold ListSpec.Header.WF; cases h.clock <;> infer_instance
instance (e : ListSpec.AidonElem) : Decidable e.WF := by cases e <;> (unfold ListSpec.AidonElem.WF; infer_instance)
instance (e : ListSpec.KVal) : Decidable e.WF := by cases e <;> (unfold ListSpec.KVal.WF; infer_instance)
instance (e : ListSpec.KamVal) : Decidable e.WF := by cases e <;> (unfold ListSpec.KamVal.WF; infer_instance)

def outStr (o : Cosem.Out) : String := Dec.renderResult (Dec.ofOut o)

/-- list.enc meter header|- desc -/
def opListEnc : List String → String
  | [meter, hdr, desc] =>
    let hdrO : Option (Option ListSpec.Header) := if hdr == "-" then some none else (headerOf? hdr).map some
    match hdrO with
    | none => "bad-args"
    | some h =>
      let pre := match h with | some h => ListSpec.encHeader h | none => []
      let hwf := match h with | some h => decide h.WF | none => true
      if meter == "aidon" then
        match listOf? aidonElemOf? desc with
        | some es =>
          let w := pre ++ ListSpec.encAidonBody es
          let m := if h.isSome then Aidon.decodeFrame w else Aidon.decodeBody w
          let wf := hwf && es.all (fun e => decide e.WF) && decide (es.length ≤ 255)
          s!"{hexOfOctets w} | {outStr m} | {Dec.renderDict (ListSpec.aidonExpected es)} | {bool01 wf}"
        | none => "bad-args"
      else if meter == "kaifa_values" then
        match listOf? (fun t => match t.splitOn "," with | [k, v] => kvalOf? k v | _ => none) desc with
        | some vs =>
          let w := pre ++ ListSpec.encKaifaValues vs
          let m := if h.isSome then Kaifa.decodeFrame w else Kaifa.decodeBody w
          let names := (ListSpec.kaifaLayout vs.length).getD []
          let posok := (List.zip names vs).all (fun p => match p.2 with
            | .text t => (p.1 == "list_ver_id" && t.length != 6) || p.1 == "meter_id" || p.1 == "meter_type"
            | .u32 _ => p.1 != "list_ver_id" && p.1 != "meter_id" && p.1 != "meter_type" && p.1 != "meter_datetime"
            | .clock _ => p.1 == "meter_datetime")
          let clockOk := match h with | some h => (match h.clock with | .null => false | _ => true) | none => true
          let wf := hwf && clockOk && (ListSpec.kaifaLayout vs.length).isSome && posok && vs.all (fun e => decide e.WF)
          let apdu := match h with | some h => apduDtOf h | none => none
          s!"{hexOfOctets w} | {outStr m} | {Dec.renderDict (ListSpec.kaifaValuesExpected apdu vs)} | {bool01 wf}"
        | none => "bad-args"
      else if meter == "kaifa_obis" then
        match listOf? (fun t => match t.splitOn "," with
            | [o, k, v] => (match octetsOfHex? o, kvalOf? k v with | some o, some v => some (o, v) | _, _ => none)
            | _ => none) desc with
        | some es =>
          let w := pre ++ ListSpec.encKaifaObis es
          let m := if h.isSome then Kaifa.decodeFrame w else Kaifa.decodeBody w
          let wf := hwf && es.all (fun p => decide (ListSpec.Obis6 p.1) && decide p.2.WF) && decide (es.length ≤ 127)
          s!"{hexOfOctets w} | {outStr m} | {Dec.renderDict (ListSpec.kaifaObisExpected es)} | {bool01 wf}"
        | none => "bad-args"
      else if meter == "kamstrup" then
        -- desc: lenOctet,versionhex,pad;obishex,kind,val,pad;...
        match desc.splitOn ";" with
        | first :: rest =>
          match first.splitOn ",", rest.mapM (fun t => match t.splitOn "," with
              | [o, k, v, p] => (match octetsOfHex? o, kamValOf? k v, p.toNat? with
                  | some o, some v, some p => some ({ obis := o, value := v, pad := p } : ListSpec.KamElem) | _, _, _ => none)
              | _ => none) with
          | [lo, ver, vp], some elems =>
            match lo.toNat?, octetsOfHex? ver, vp.toNat? with
            | some lo, some ver, some vp =>
              let l : ListSpec.KamList := { lenOctet := lo, version := ver, versionPad := vp, elems := elems }
              let w := pre ++ ListSpec.encKamList l
              let m := if h.isSome then Kamstrup.decodeFrame w else Kamstrup.decodeBody w
              let clockOk := match h with | some h => (match h.clock with | .null => false | _ => true) | none => true
              let ewf := elems.all (fun e => decide (ListSpec.Obis6 e.obis) && decide e.value.WF && decide (ListSpec.kamKnown e.obis) &&
                (match e.value with | .clock _ => ListSpec.obisName e.obis == "meter_datetime" | _ => ListSpec.obisName e.obis != "meter_datetime"))
              let wf := hwf && clockOk && ewf && decide (lo < 256) && decide (ListSpec.printable ver) && decide (ver.length ≤ 255)
              let exp := ListSpec.kamExpected l
              let exp := match h with
                | some h => (match apduDtOf h with | some t => exp.set "meter_datetime" (.dt t) | none => exp)
                | none => exp
              s!"{hexOfOctets w} | {outStr m} | {Dec.renderDict exp} | {bool01 wf}"
            | _, _, _ => "bad-args"
          | _, _ => "bad-args"
        | [] => "bad-args"
      else "bad-args"
  | _ => "bad-args"

/-! connmgr : trace inclusion — does the transition system have a run producing exactly the observed events? -/
def evOf? (tok : String) : Option (Nat × ConnMgr.Ev) :=
  match tok.splitOn ":" with
  | [t, e] =>
    match t.toNat? with
    | some t =>
      if e == "A" then some (t, .attempt)
      else if e == "F" then some (t, .failed)
      else if e == "X" then some (t, .closeCalled)
      else if e == "D" then some (t, .loopDone)
      else if e.startsWith "O" then ((e.drop 1).toString.toNat?).map (fun n => (t, .obtained n))
      else if e.startsWith "C" then ((e.drop 1).toString.toNat?).map (fun n => (t, .closed n))
      else if e.startsWith "L" then ((e.drop 1).toString.toNat?).map (fun n => (t, .lost n))
      else none
    | none => none
  | _ => none

/-- depth-first search over the scheduler nondeterminism: internal steps are free, environment steps
    are taken only when the observed trace shows them, every emitted event must be the next observed one -/
def cmAccepts : Nat → ConnMgr.S → List (Nat × ConnMgr.Ev) → Bool
  | 0, _, obs => obs.isEmpty
  | fuel + 1, s, obs =>
    if obs.isEmpty then true
    else
      let s0 := { s with log := [] }
      let tryLabel (l : ConnMgr.Label) : Bool :=
        match ConnMgr.next s0 l with
        | some s' =>
          let em := s'.log
          if em.isPrefixOf obs then
            -- silent steps must make progress: forbid a silent step that changes nothing
            if em.isEmpty && decide ({ s' with log := [] } = s0) then false
            else cmAccepts fuel { s' with log := [] } (obs.drop em.length)
          else false
        | none => false
      let envLabels : List ConnMgr.Label := match obs with
        | (t, e) :: _ =>
          (if t > s.now then [ConnMgr.Label.tick (t - s.now)] else []) ++
          (if t == s.now then
            (match e with
             | .obtained _ => [ConnMgr.Label.factoryOk]
             | .failed => [ConnMgr.Label.factoryFail]
             | .lost _ => [ConnMgr.Label.lose]
             | .closeCalled => [ConnMgr.Label.close]
             | _ => [])
           else [])
        | [] => []
      ([ConnMgr.Label.lRun, ConnMgr.Label.tRun] ++ envLabels).any tryLabel

/-- connmgr maxDelay threshold sleep trace(tokens time:event joined by ',') -/
def opConnMgr : List String → String
  | [md, th, sl, trace] =>
    let obsO : Option (List (Nat × ConnMgr.Ev)) := if trace == "." then some [] else (trace.splitOn ",").mapM evOf?
    match md.toNat?, th.toNat?, sl.toNat?, obsO with
    | some md, some th, some sl, some obs =>
      bool01 (cmAccepts (8 * obs.length + 40) (ConnMgr.S.init md th sl) obs)
    | _, _, _, _ => "bad-args"
  | _ => "bad-args"

def dispatch (line : String) : String :=
  match (line.trimAscii.toString.splitOn " ").filter (· ≠ "") with
  | [] => "bad-op"
  | op :: args =>
    match op with
    | "fcs.step" => opFcsStep args
    | "fcs.msg" => opFcsMsg args
    | "fcs.table" => opFcsTable args
    | "hdlc.read" => opHdlcRead args
    | "hdlc.clean" => opHdlcClean args
    | "p1.read" => opP1Read args
    | "proto" => opProto args
    | "connmgr" => opConnMgr args
    | "decode" => opDecode args
    | "list.enc" => opListEnc args
    | "auto" => opAuto args
    | "automsg" => opAutoMsg args
    | "p1.parse" => opP1Parse args
    | "flt.str" => opFltStr args
    | "flt.scale" => opFltScale args
    | "flt.kilo" => opFltKilo args
    | "backoff" => opBackoff args
    | "breaker" => opBreaker args
    | "obis.parse" => opObisParse args
    | "obis.fmt" => opObisFmt args
    | "obis.eq" => opObisEq args
    | "p1.clean" => opP1Clean args
    | "p1.readout" => opP1Readout args
    | "p1.ident" => opP1Ident args
    | "py.int16" => opInt16 args
    | "ping" => "pong"
    | _ => "bad-op"

partial def loop (hin hout : IO.FS.Stream) : IO Unit := do
  let line ← hin.getLine
  if line.isEmpty then return ()
  hout.putStrLn (dispatch line)
  loop hin hout

def main : IO Unit := do
  let hin ← IO.getStdin
  let hout ← IO.getStdout
  loop hin hout
  hout.flush
