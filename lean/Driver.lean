import Amshan.Model.Fcs
import Amshan.Model.Hdlc
import Amshan.Model.HdlcObs
import Amshan.Spec.Rfc1662
import Amshan.Model.HdlcDefs
import Amshan.Model.P1Obs
/-
  Line-protocol driver: one request per line on stdin, one answer per line on stdout.
  Imports models and executable specs only (never Props / Lemmas / Mathlib).
-/
open Amshan Amshan.Wire

def opFcsStep : List String → String
  | [r, b] =>
    match r.toNat?, b.toNat? with
    | some r, some b => s!"{Fcs.next r b} {Rfc1662.stepSerial r b}"
    | _, _ => "bad-args"
  | _ => "bad-args"

def opFcsMsg : List String → String
  | [hex, start, len] =>
    match octetsOfHex? hex, start.toNat?, len.toNat? with
    | some bs, some st, some ln =>
      let reg := Fcs.feed Gen.fcsInit bs
      let comp := match Fcs.computeChecksum bs st ln with
        | .ok v => toString v
        | .error e => e.name
      let specWin := Rfc1662.fcs16 ((bs.drop st).take ln)
      s!"{reg} {Fcs.checksum reg} {bool01 (Fcs.isGood reg)} {comp} {Rfc1662.register bs} {Rfc1662.fcs16 bs} {specWin}"
    | _, _, _ => "bad-args"
  | _ => "bad-args"

def opFcsTable : List String → String
  | [] => String.intercalate "," ((List.range 256).map (fun i => toString (Rfc1662.stepSerial 0 i)))
  | _ => "bad-args"

def cfgOf? (s a : String) : Option Hdlc.Cfg :=
  match s, a with
  | "0", "0" => some ⟨false, false⟩
  | "0", "1" => some ⟨false, true⟩
  | "1", "0" => some ⟨true, false⟩
  | "1", "1" => some ⟨true, true⟩
  | _, _ => none

def opHdlcRead : List String → String
  | [s, a, chunks] =>
    match cfgOf? s a, chunksOf? chunks with
    | some cfg, some chs =>
      let calls := Hdlc.readAllRender cfg Hdlc.Reader.init chs
      let perOctet := (Hdlc.run cfg Hdlc.Core.init chs.flatten).2
      let buffered := (Hdlc.readAll cfg Hdlc.Reader.init chs).2.flatten
      let same := decide (perOctet = buffered)
      String.intercalate " ; " calls ++ " # runeq=" ++ bool01 same
    | _, _ => "bad-args"
  | _ => "bad-args"


/-- frame descriptor: fmt,seg,dsthex,srchex,ctl,infohex,fill -/
def frameDescOf? (s : String) : Option (HdlcSpec.FrameDesc × Nat) :=
  match s.splitOn "," with
  | [fmt, seg, dst, src, ctl, info, fill] =>
    match fmt.toNat?, octetsOfHex? dst, octetsOfHex? src, ctl.toNat?, octetsOfHex? info, fill.toNat? with
    | some fmt, some dst, some src, some ctl, some info, some fill =>
      some ({ fmt := fmt, seg := seg == "1", dst := dst, src := src, ctl := ctl, info := info }, fill)
    | _, _, _, _, _, _ => none
  | _ => none

def splitAtCuts (xs : List Nat) (cuts : List Nat) : List (List Nat) :=
  let rec go (xs : List Nat) (prev : Nat) : List Nat → List (List Nat)
    | [] => [xs]
    | c :: cs => (xs.take (c - prev)) :: go (xs.drop (c - prev)) c cs
  go xs 0 cuts

def cutsOf? (s : String) : Option (List Nat) :=
  if s == "." then some [] else (s.splitOn ",").mapM String.toNat?

/-- hdlc.clean s a noisehex frames closing cuts  (frames: descriptors joined by ';', "." = none) -/
def opHdlcClean : List String → String
  | [s, a, noise, frames, closing, cuts] =>
    let fsO : Option (List (HdlcSpec.FrameDesc × Nat)) :=
      if frames == "." then some [] else (frames.splitOn ";").mapM frameDescOf?
    match cfgOf? s a, octetsOfHex? noise, fsO, closing.toNat?, cutsOf? cuts with
    | some cfg, some noise, some fs, some closing, some cuts =>
      let w := HdlcSpec.wire cfg.stuffing noise fs closing
      let chunks := splitAtCuts w cuts
      let out := (Hdlc.readAll cfg Hdlc.Reader.init chunks).2.flatten
      let spec := fs.map (fun p => Hdlc.expectedFrame p.1)
      let dom := fs.all (fun p => decide p.1.WF && decide (1 ≤ p.2) && decide (HdlcSpec.InDomain cfg.stuffing cfg.abort p.1))
        && decide (1 ≤ closing) && decide (HdlcSpec.flag ∉ noise) && decide (Octets noise)
      s!"{hexOfOctets w} | {Hdlc.renderFrames out} | {Hdlc.renderFrames spec} | {bool01 dom} | {String.intercalate "," (chunks.map hexOfOctets)}"
    | _, _, _, _, _ => "bad-args"
  | _ => "bad-args"

def opP1Read : List String → String
  | [chunks] =>
    match chunksOf? chunks with
    | some chs => String.intercalate " ; " (P1.readAllRender P1.Reader.init chs)
    | none => "bad-args"
  | _ => "bad-args"

def opP1Readout : List String → String
  | [hex] =>
    match octetsOfHex? hex with
    | some bs =>
      match P1.Readout.make bs with
      | .ok r => r.render
      | .error e => "EXC " ++ e.name
    | none => "bad-args"
  | _ => "bad-args"

def opP1Ident : List String → String
  | [hex] =>
    match octetsOfHex? hex with
    | some s =>
      match P1.identMatch s with
      | some m => hexOfOctets m.manid ++ "/" ++ optHex m.ident
      | none => "nomatch"
    | none => "bad-args"
  | _ => "bad-args"

def opInt16 : List String → String
  | [hex] =>
    match octetsOfHex? hex with
    | some s => P1.excOr toString (Py.intBase16 s)
    | none => "bad-args"
  | _ => "bad-args"

def dispatch (line : String) : String :=
  match (line.trimAscii.toString.splitOn " ").filter (· ≠ "") with
  | [] => "bad-op"
  | op :: args =>
    match op with
    | "fcs.step" => opFcsStep args
    | "fcs.msg" => opFcsMsg args
    | "fcs.table" => opFcsTable args
    | "hdlc.read" => opHdlcRead args
    | "hdlc.clean" => opHdlcClean args
    | "p1.read" => opP1Read args
    | "p1.readout" => opP1Readout args
    | "p1.ident" => opP1Ident args
    | "py.int16" => opInt16 args
    | "ping" => "pong"
    | _ => "bad-op"

partial def loop (hin hout : IO.FS.Stream) : IO Unit := do
  let line ← hin.getLine
  if line.isEmpty then return ()
  hout.putStrLn (dispatch line)
  loop hin hout

def main : IO Unit := do
  let hin ← IO.getStdin
  let hout ← IO.getStdout
  loop hin hout
  hout.flush
