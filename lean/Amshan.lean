import Amshan.Generated
import Amshan.Model.Basic
import Amshan.Model.Fcs
import Amshan.Model.Hdlc
import Amshan.Spec.Rfc1662
