import Amshan.Model.P1
import Amshan.Spec.P1Wire
/- Definitions shared by the P1 property statements. -/
namespace Amshan.P1
open Amshan.Gen Amshan.P1Spec

/-- readers reachable from a new reader by `read()` calls (none of which raised) -/
def Reachable (r : Reader) : Prop := ∃ chunks outs, readAll Reader.init chunks = .ok (r, outs)

/-- text after the end character '!' -/
def Readout.afterBang (r : Readout) : List Nat := r.bytes.drop (r.endPos + 1)

/-- the readout object the reader must deliver for a well-formed readout -/
def expectedReadout (d : ReadoutDesc) : Readout :=
  { bytes := d.encode, endPos := d.body.length - 1, dataPos := d.identLine.length }

end Amshan.P1
