import Amshan.Model.Cosem
/- Model of han/kamstrup.py -/
namespace Amshan.Kamstrup
open Amshan.Gen Amshan.Cosem

structure Element where
  obis : Option (List Nat)
  value : FieldVal
  deriving Repr, DecidableEq, Inhabited

/-- `kamstrup.Element` : optional OBIS (when the next octet is the octet-string tag), then a
    date-time field (when the next octet is the octet-string tag) or a generic field, then any
    null-data padding -/
def element (s : List Nat) : Res Element :=
  let obisR : Res (Option (List Nat)) := match s with
    | b :: _ => if b = tOctet then (obisField s).bind fun o r => .ok (some o) r else .ok none s
    | [] => .ok none s
  obisR.bind fun o r =>
    let valR : Res FieldVal := match r with
      | b :: _ => if b = tOctet then (dateTimeField r).bind fun d r' => .ok (.dt d) r' else field r
      | [] => field r
    valR.bind fun v r' => .ok ⟨o, v⟩ (nullData r')

/-- `GreedyRange(Element)`; fuel = remaining length + 1 (each element consumes at least one octet) -/
def greedy : Nat → List Nat → Res (List Element)
  | 0, s => .ok [] s
  | fuel + 1, s =>
    match element s with
    | .ok e r => (greedy fuel r).bind fun es r' => .ok (e :: es) r'
    | .explicit => .explicit
    | _ => .ok [] s

/-- `NotificationBody` : structure tag, length octet (ignored), greedy elements -/
def notificationBody (s : List Nat) : Res (List Element) :=
  (constByte tStructure s).bind fun _ r => (u8 r).bind fun _ r => greedy (r.length + 1) r

def meterTypeObis : List Nat := Py.ofString (kamNormalizeStrings.getD 1 "")
def ctPrefix : List Nat := Py.ofString (kamNormalizeStrings.getD 2 "")

/-- CT meter detection: the value of the first element whose OBIS text is the meter-type code is a
    string starting with the CT prefix -/
def isCtMeter (items : List Element) : Bool :=
  match items.find? (fun el => match el.obis with | some o => obisText o == meterTypeObis | none => false) with
  | some el => (match el.value with | .str s => ctPrefix.isPrefixOf s | _ => false)
  | none => false

def scaleFor (ct : Bool) (obis : List Nat) : Option Int :=
  (if ct then kamScalingCt else kamScalingStd).lookup (Py.toString (obisText obis))

def scaled (v : Int) (scale : Int) : Val :=
  if scale < 0 then
    let s := (-scale).toNat
    .flt (Flt.roundDigits (Flt.mul (Flt.ofInt v) (Flt.tenPowNeg s)) s)
  else .int (v * 10 ^ scale.toNat)

def normLoop (ct : Bool) : List Element → Dict → Except PyExc Dict
  | [], d => .ok d
  | el :: rest, d =>
    let nameR : Except PyExc String := match el.obis with
      | some o =>
        (match o with
         | [_, _, c, dd, e, _] =>
           (match obisNameMap.lookup (cdeText c dd e) with
            | some n => .ok n
            | none => .error .keyError)
         | _ => .error .keyError)
      | none => .ok field_OBIS_LIST_VER_ID
    match nameR with
    | .error e => .error e
    | .ok name =>
      if name == field_METER_DATETIME then
        match el.value with
        | .dt t => normLoop ct rest (d.set name (.dt t))
        | _ => .error .attributeError
      else
        match el.value with
        | .int z =>
          let sc := match el.obis with | some o => scaleFor ct o | none => none
          (match sc with
           | some s => if s = 0 then normLoop ct rest (d.set name (.int z)) else normLoop ct rest (d.set name (scaled z s))
           | none => normLoop ct rest (d.set name (.int z)))
        | .str s => normLoop ct rest (d.set name (.str s))
        | .dt _ => normLoop ct rest (d.set name (.obj "DateTime"))
        | .null => normLoop ct rest (d.set name (.obj "NullData"))

def normalize (items : List Element) : Except PyExc Dict :=
  normLoop (isCtMeter items) items [(field_METER_MANUFACTURER, Val.str (Py.ofString "Kamstrup"))]

/-- `decode_notification_body` -/
def decodeBody (s : List Nat) : Out :=
  match notificationBody s with
  | .ok items _ => (match normalize items with | .ok d => .dict d | .error e => .exc e)
  | .py e => .exc e
  | _ => .construct

/-- `decode_frame_content` : the APDU date-time becomes the meter clock -/
def decodeFrame (s : List Nat) : Out :=
  match llc notificationBody s with
  | .ok (dt, items) _ =>
    (match normalize items with
     | .error e => .exc e
     | .ok d =>
       match dt with
       | .dt t => .dict (d.set field_METER_DATETIME (.dt t))
       | .byte _ => .exc .attributeError)
  | .py e => .exc e
  | _ => .construct

end Amshan.Kamstrup
