import Amshan.Generated
import Amshan.Model.Basic
/-
  Model of han/autodecoder.py, generic in the decoder functions:
  `AutoDecoder.decode_message_payload` / `decode_message` and `previous_success_decoder`.
  `decs` is `payload_decoder_functions` (in order), `caught e` says whether the `except` clause
  catches exception class `e` (after the repair: every `Exception`).
-/
namespace Amshan.Auto

variable {α β : Type}

abbrev Decoder (α β : Type) := α → Except PyExc β

/-- the `for i in range(len(...))` loop, from iteration `i`, with `k` iterations left -/
def tryLoop (decs : List (Decoder α β)) (caught : PyExc → Bool) (start : Nat) (payload : α) :
    Nat → Nat → Except PyExc (Option (Nat × β))
  | 0, _ => .ok none
  | k + 1, i =>
    let idx := (i + start) % decs.length
    match decs[idx]? with
    | none => .error .indexError
    | some dec =>
      match dec payload with
      | .ok v => .ok (some (idx, v))
      | .error e => if caught e then tryLoop decs caught start payload k (i + 1) else .error e

/-- `decode_message_payload(payload)` with `__previous_success = prev`;
    returns the new `__previous_success` and the result -/
def step (decs : List (Decoder α β)) (caught : PyExc → Bool) (prev : Option Nat) (payload : α) :
    Except PyExc (Option Nat × Option β) :=
  -- `self.__previous_success if self.__previous_success else 0`
  let start := match prev with | some p => p | none => 0
  match tryLoop decs caught start payload decs.length 0 with
  | .ok (some (idx, v)) => .ok (some idx, some v)
  | .ok none => .ok (prev, none)
  | .error e => .error e

/-- a whole history of payloads given to one AutoDecoder -/
def runHistory (decs : List (Decoder α β)) (caught : PyExc → Bool) :
    Option Nat → List α → Except PyExc (Option Nat × List (Option β))
  | prev, [] => .ok (prev, [])
  | prev, p :: ps =>
    match step decs caught prev p with
    | .error e => .error e
    | .ok (prev1, r) =>
      match runHistory decs caught prev1 ps with
      | .error e => .error e
      | .ok (prev2, rs) => .ok (prev2, r :: rs)

/-- `previous_success_decoder` -/
def previousName (names : List String) (prev : Option Nat) : Option String :=
  match prev with
  | some i => names[i]?
  | none => none

end Amshan.Auto

namespace Amshan.Auto

/-- does an `except (<names>)` clause catch exception class `e`?  (class hierarchy: UnicodeDecodeError
    ⊂ ValueError; KeyError, IndexError ⊂ LookupError; construct's errors ⊂ ConstructError; everything
    ⊂ Exception ⊂ BaseException) -/
def caughtBy (names : List String) (e : PyExc) : Bool :=
  names.contains "Exception" || names.contains "BaseException" || names.contains e.name ||
  (match e with
   | .unicodeError => names.contains "ValueError"
   | .keyError => names.contains "LookupError"
   | .indexError => names.contains "LookupError"
   | .constructExplicit => names.contains "ConstructError"
   | _ => false)

end Amshan.Auto
