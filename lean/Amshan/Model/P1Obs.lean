import Amshan.Model.P1
import Amshan.Model.Wire
/- Canonical rendering of P1 observations for the line protocol. -/
namespace Amshan.P1
open Amshan.Wire

def excOr {α} (f : α → String) : Except PyExc α → String
  | .ok a => f a
  | .error e => e.name

def Readout.render (r : Readout) : String :=
  String.intercalate ":" [
    hexOfOctets r.bytes,
    excOr bool01 r.isValid,
    hexOfOctets r.payload,
    excOr optInt r.expectedChecksum,
    toString r.calcCrc,
    excOr (fun m => hexOfOctets m.manid ++ "/" ++ optHex m.ident) r.identLine]

def renderReadouts (rs : List Readout) : String :=
  if rs.isEmpty then "." else String.intercalate " " (rs.map Readout.render)

def Reader.renderState (r : Reader) : String :=
  String.intercalate "," [toString r.buf.size, toString r.buf.consumed, toString r.raw.length, bool01 r.hunt]

def readAllRender : Reader → List (List Nat) → List String
  | _, [] => []
  | r, ch :: chs =>
    match read r ch with
    | .error e => ["EXC " ++ e.name]
    | .ok (r1, o) => (renderReadouts o ++ " @" ++ r1.renderState) :: readAllRender r1 chs

end Amshan.P1
