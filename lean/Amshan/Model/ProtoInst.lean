import Amshan.Model.Protocol
import Amshan.Model.Hdlc
import Amshan.Model.P1
/-
  The two concrete candidate readers of the protocols: HdlcFrameReader(cfg) and ModeDReader,
  packaged as `Proto.Rd`.
-/
namespace Amshan.Proto
open Amshan

def frameMsg (f : Hdlc.Frame) : Msg := { valid := f.isValid, payload := f.payload, bytes := f.data }

/-- `DataReadout` as a message: `is_valid` never raises (Props/C14P1 `p1_isValid_total`), the
    error branch is unreachable -/
def readoutMsg (r : P1.Readout) : Msg :=
  { valid := (match r.isValid with | .ok b => b | .error _ => false), payload := some r.payload, bytes := r.bytes }

def hdlcRd (cfg : Hdlc.Cfg) : Rd :=
  { σ := Hdlc.Reader, st := Hdlc.Reader.init
    read := fun r ch => let res := Hdlc.read cfg r ch; (res.1, res.2.map frameMsg) }

/-- `ModeDReader.read` never raises from a reachable state (Props/C14P1 `p1_read_total`); the error
    branch (keep the state, no messages) is unreachable -/
def p1Rd : Rd :=
  { σ := P1.Reader, st := P1.Reader.init
    read := fun r ch => match P1.read r ch with
      | .ok (r', os) => (r', os.map readoutMsg)
      | .error _ => (r, []) }

end Amshan.Proto
