import Amshan.Model.Cosem
/- Model of han/kaifa.py -/
namespace Amshan.Kaifa
open Amshan.Gen Amshan.Cosem

inductive Body where
  | values (items : List FieldVal)
  | obis (items : List (List Nat × FieldVal))
  deriving Repr, DecidableEq, Inhabited

def fields : Nat → List Nat → Res (List FieldVal)
  | 0, s => .ok [] s
  | n + 1, s => (field s).bind fun v r => (fields n r).bind fun vs r' => .ok (v :: vs) r'

/-- `NotificationBodyValueElements` -/
def valueBody (s : List Nat) : Res Body :=
  (constByte tStructure s).bind fun _ r => (u8 r).bind fun n r =>
  (fields n r).bind fun vs r => .ok (.values vs) r

/-- one OBIS-tagged element -/
def obisElement (s : List Nat) : Res (List Nat × FieldVal) :=
  (obisField s).bind fun o r => (field r).bind fun v r' => .ok (o, v) r'

/-- `GreedyRange(Element)` : stops at the first element that fails for any reason but ExplicitError;
    fuel = remaining input length + 1 (every element consumes at least 8 octets) -/
def greedyObis : Nat → List Nat → Res (List (List Nat × FieldVal))
  | 0, s => .ok [] s
  | fuel + 1, s =>
    match obisElement s with
    | .ok e r => (greedyObis fuel r).bind fun es r' => .ok (e :: es) r'
    | .explicit => .explicit
    | _ => .ok [] s

/-- `NotificationBodyObisElements` : `_fields / 2 == len(list_items)` -/
def obisBody (s : List Nat) : Res Body :=
  (constByte tStructure s).bind fun _ r => (u8 r).bind fun nf r =>
  (greedyObis (r.length + 1) r).bind fun es r =>
    if nf = 2 * es.length then .ok (.obis es) r else .soft

/-- `Select(first, second)` -/
def select (p q : List Nat → Res α) (s : List Nat) : Res α :=
  match p s with
  | .ok a r => .ok a r
  | .explicit => .explicit
  | _ =>
    match q s with
    | .ok a r => .ok a r
    | .explicit => .explicit
    | _ => .soft        -- SelectError

def notificationBody : List Nat → Res Body := select obisBody valueBody

def llcPdu : List Nat → Res (ApduDT × Body) := select (llc obisBody) (llc valueBody)

def scaleOf (name : String) : Option Int := kaifaScaling.lookup name

/-- `round(value * (10**scale), abs(scale))` for an int value and a negative scale -/
def scaled (v : Int) (scale : Int) : Val :=
  if scale < 0 then
    let s := (-scale).toNat
    .flt (Flt.roundDigits (Flt.mul (Flt.ofInt v) (Flt.tenPowNeg s)) s)
  else .int (v * 10 ^ scale.toNat)    -- `round(int, n)` is the int

/-- value placed in the dictionary for a field that is not the clock -/
def plainValue (name : String) (v : FieldVal) : Except PyExc Val :=
  match scaleOf name with
  | some sc =>
    if sc = 0 then (match v with
      | .int z => .ok (.int z) | .str s => .ok (.str s) | .dt _ => .ok (.obj "DateTime") | .null => .ok (.obj "NullData"))
    else match v with
      | .int z => .ok (scaled z sc)
      | _ => .error .typeError       -- `str * float`, `Container * float`
  | none =>
    match v with
    | .int z => .ok (.int z)
    | .str s => .ok (.str s)
    | .dt _ => .ok (.obj "DateTime")
    | .null => .ok (.obj "NullData")

/-- the loop of `_normalize_parsed_value_elements` -/
def normValuesLoop (names : List String) : Nat → List FieldVal → Dict → Except PyExc Dict
  | _, [], d => .ok d
  | i, v :: vs, d =>
    match names[i]? with
    | none => .error .indexError
    | some name =>
      if name == field_METER_DATETIME then
        match v with
        | .dt t => normValuesLoop names (i + 1) vs (d.set name (.dt t))
        | _ => .error .attributeError
      else
        match plainValue name v with
        | .ok x => normValuesLoop names (i + 1) vs (d.set name x)
        | .error e => .error e

def normValues (apduDt : Option ApduDT) (items : List FieldVal) : Except PyExc Dict :=
  let d0 : Dict := [(field_METER_MANUFACTURER, Val.str (Py.ofString "Kaifa"))]
  let d1 : Except PyExc Dict := match apduDt with
    | some (.dt t) => .ok (d0.set field_METER_DATETIME (.dt t))
    | some (.byte _) => .error .attributeError       -- `int.datetime`
    | none => .ok d0
  match d1 with
  | .error e => .error e
  | .ok d =>
    let names := (kaifaFieldLists.find? (fun l => l.length == items.length)).getD []
    normValuesLoop names 0 items d

def normObisLoop : List (List Nat × FieldVal) → Dict → Except PyExc Dict
  | [], d => .ok d
  | (o, v) :: rest, d =>
    let name := match o with
      | [_, _, c, dd, e, _] => fieldName c dd e
      | _ => ""
    match v with
    | .dt t => normObisLoop rest (d.set name (.dt t))
    | _ =>
      match plainValue name v with
      | .ok x => normObisLoop rest (d.set name x)
      | .error e => .error e

def normObis (items : List (List Nat × FieldVal)) : Except PyExc Dict :=
  normObisLoop items [(field_METER_MANUFACTURER, Val.str (Py.ofString "Kaifa"))]

def outOf (r : Except PyExc Dict) : Out :=
  match r with
  | .ok d => .dict d
  | .error e => .exc e

/-- `decode_notification_body` -/
def decodeBody (s : List Nat) : Out :=
  match notificationBody s with
  | .ok (.values vs) _ => outOf (normValues none vs)
  | .ok (.obis es) _ => outOf (normObis es)
  | .py e => .exc e
  | _ => .construct

/-- `decode_frame_content` -/
def decodeFrame (s : List Nat) : Out :=
  match llcPdu s with
  | .ok (dt, .values vs) _ => outOf (normValues (some dt) vs)
  | .ok (_, .obis es) _ => outOf (normObis es)
  | .py e => .exc e
  | _ => .construct

end Amshan.Kaifa
