import Amshan.Model.BackOff
/-
  Model of han/meter_connection.py ConnectionManager (repaired connect_loop / _try_connect / close)
  as a transition system over asyncio's atomic unit, the task step.  The scheduler is
  nondeterministic: any enabled transition may fire (asyncio's FIFO order is one of the paths).

  Tasks: L = connect_loop, T = the current _try_connect, plus the `closing.wait()` waiter tasks
  (counted).  Environment transitions: close(), the factory resolving (ok / failure), loss of the
  established connection, the clock advancing.
  Not modelled: the one-iteration latency between cancelling a task and its disappearance, threads,
  real sockets, cancellation delivered inside third-party factories, wall-clock time.
-/
namespace Amshan.ConnMgr
open Amshan.BackOff

/-- program counter of connect_loop -/
inductive LPc where
  | start      -- task created, not run yet
  | w1         -- suspended in `wait((connect_task, closing_task))`
  | w2         -- suspended in `wait((done_task, closing_task2))`
  | exited     -- returned
  deriving Repr, DecidableEq, Inhabited

/-- state of the current _try_connect task -/
inductive TSt where
  | none                               -- no connect task yet
  | created                            -- created, first step not run
  | sleeping (wake : Nat)              -- `await sleep(back-off)`
  | inFactory                          -- `await self._connection_factory()`
  | finished
  deriving Repr, DecidableEq, Inhabited

inductive Ev where
  | attempt                -- the connection factory is called
  | obtained (id : Nat)    -- the factory returned transport `id`
  | failed                 -- the factory raised
  | closed (id : Nat)      -- the manager closed transport `id`
  | lost (id : Nat)        -- the connection died (protocol.done set, transport gone)
  | closeCalled
  | loopDone               -- connect_loop returned
  deriving Repr, DecidableEq, Inhabited

structure S where
  now : Nat
  closing : Bool
  conn : Option Nat
  lpc : LPc
  t : TSt
  cancelReq : Bool          -- cancel() was called on the current connect task and not yet delivered
  backoff : Strategy
  breaker : Breaker
  nextId : Nat
  live : List Nat           -- transports obtained from the factory and not closed / lost
  doneSet : List Nat        -- connections whose protocol.done is set
  waiters : Nat             -- pending `closing.wait()` tasks
  log : List (Nat × Ev)     -- (time, event), oldest first
  deriving Repr, DecidableEq, Inhabited

def S.init (maxDelay threshold sleepSec : Nat) : S :=
  { now := 0, closing := false, conn := none, lpc := .start, t := .none, cancelReq := false,
    backoff := Strategy.new maxDelay,
    breaker := { threshold := threshold, sleepSec := sleepSec, lastLoss := none, sleepFlag := false },
    nextId := 0, live := [], doneSet := [], waiters := 0, log := [] }

def S.emit (s : S) (e : Ev) : S := { s with log := s.log ++ [(s.now, e)] }

inductive Label where
  | lRun            -- a step of connect_loop (start, or wake-up from one of its waits)
  | tRun            -- a step of the connect task (start, wake from sleep, or delivery of cancellation)
  | factoryOk       -- environment: the awaited factory returns a connection (and T resumes)
  | factoryFail     -- environment: the awaited factory raises (and T resumes)
  | lose            -- environment: the established connection is lost
  | close           -- environment: close() is called
  | tick (d : Nat)  -- environment: the clock advances by d seconds
  deriving Repr, DecidableEq, Inhabited

/-- `while not closing: create tasks, wait` / `closing.clear(); return` : the part of connect_loop
    from the loop head to its next suspension -/
def topLogic (s : S) : S :=
  if s.closing then ({ s with closing := false, lpc := .exited }).emit .loopDone
  else { s with t := .created, cancelReq := false, waiters := s.waiters + 1, lpc := .w1 }

/-- the part of _try_connect after the back-off sleep -/
def afterSleep (s : S) : S :=
  if s.closing then { s with t := .finished }
  else ({ s with t := .inFactory }).emit .attempt

def closeTransport (s : S) (c : Nat) : S :=
  ({ s with live := s.live.filter (· != c) }).emit (.closed c)

/-- the transition function: `none` = the transition is not enabled -/
def next (s : S) : Label → Option S
  | .lRun =>
    match s.lpc with
    | .start => some (topLogic s)
    | .w1 =>
      -- wait() returns when the connect task is done or the closing waiter is done
      if s.t = .finished || s.closing then
        -- closing_task.cancel(); connect_task.cancel()
        let s := { s with waiters := s.waiters - 1, cancelReq := decide (s.t ≠ TSt.finished) }
        -- connected while closing: close that transport
        let s := match s.conn with
          | some c => if s.closing then { closeTransport s c with conn := none } else s
          | none => s
        match s.conn with
        | some _ => some { s with waiters := s.waiters + 1, lpc := .w2 }
        | none => some (topLogic s)
      else none
    | .w2 =>
      let lostNow := match s.conn with | some c => s.doneSet.contains c | none => false
      if s.closing || lostNow then
        let s := { s with waiters := s.waiters - 1 }
        let s := if s.closing then s else { s with breaker := s.breaker.update (s.now * 1000000) }
        some (topLogic { s with conn := none })
      else none
    | .exited => none
  | .tRun =>
    if s.cancelReq then
      -- CancelledError is delivered at the task's next step: it ends without any effect
      match s.t with
      | .created | .sleeping _ | .inFactory => some { s with t := .finished, cancelReq := false }
      | _ => none
    else
      match s.t with
      | .created =>
        let st := getBackOffTime s.backoff s.breaker
        if st > 0 then some { s with t := .sleeping (s.now + st) } else some (afterSleep s)
      | .sleeping u => if s.now ≥ u then some (afterSleep s) else none
      | _ => none
  | .factoryOk =>
    if s.t = .inFactory && !s.cancelReq then
      let id := s.nextId
      some (({ s with conn := some id, live := s.live ++ [id], nextId := id + 1, backoff := s.backoff.reset,
                      t := .finished }).emit (.obtained id))
    else none
  | .factoryFail =>
    if s.t = .inFactory && !s.cancelReq then
      some (({ s with conn := none, backoff := s.backoff.failure, t := .finished }).emit .failed)
    else none
  | .lose =>
    match s.conn with
    | some c =>
      if s.live.contains c then
        some (({ s with live := s.live.filter (· != c), doneSet := s.doneSet ++ [c] }).emit (.lost c))
      else none
    | none => none
  | .close =>
    let s := ({ s with closing := true }).emit .closeCalled
    match s.conn with
    | some c => some { (if s.live.contains c then closeTransport s c else s) with conn := none }
    | none => some s
  | .tick d => some { s with now := s.now + d }

/-- states reachable from the initial state -/
inductive Reach (maxDelay threshold sleepSec : Nat) : S → Prop where
  | init : Reach maxDelay threshold sleepSec (S.init maxDelay threshold sleepSec)
  | step (s s' : S) (l : Label) : Reach maxDelay threshold sleepSec s → next s l = some s' →
      Reach maxDelay threshold sleepSec s'

/-- tasks that exist and are not finished: connect_loop, the connect task, the closing waiters -/
def pendingTasks (s : S) : Nat :=
  (if s.lpc = .exited then 0 else 1) +
  (match s.t with | .created | .sleeping _ | .inFactory => 1 | _ => 0) + s.waiters

end Amshan.ConnMgr
