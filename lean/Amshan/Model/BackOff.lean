import Amshan.Generated
import Amshan.Model.Basic
/-
  Model of han/meter_connection.py: ExponentialBackOff, the connection-lost circuit breaker and
  ConnectionManager._get_back_off_time.  Times are integers (microseconds) so that
  `delta.total_seconds() < threshold` is exact.
-/
namespace Amshan.BackOff
open Amshan.Gen

structure Strategy where
  /-- `_delay` -/
  delay : Nat
  /-- `max_delay` -/
  maxDelay : Nat
  deriving Repr, DecidableEq, Inhabited

/-- `ExponentialBackOff.__init__` (then the user may assign `max_delay`) -/
def Strategy.new (maxDelay : Nat := defaultMaxDelay) : Strategy := { delay := 0, maxDelay := maxDelay }

/-- `failure()` -/
def Strategy.failure (s : Strategy) : Strategy :=
  let d := s.delay * 2
  { s with delay := if d = 0 then 1 else d }

/-- `reset()` -/
def Strategy.reset (s : Strategy) : Strategy := { s with delay := 0 }

/-- `current_delay_sec` -/
def Strategy.current (s : Strategy) : Nat := if s.delay < s.maxDelay then s.delay else s.maxDelay

inductive Op where
  | failure | reset
  deriving Repr, DecidableEq, Inhabited

def Strategy.apply (s : Strategy) : Op → Strategy
  | .failure => s.failure
  | .reset => s.reset

def Strategy.run (s : Strategy) (ops : List Op) : Strategy := ops.foldl Strategy.apply s

/-- the loss circuit breaker part of ConnectionManager -/
structure Breaker where
  /-- `connection_lost_back_off_threshold` (seconds) -/
  threshold : Nat
  /-- `connection_lost_back_off_sleep_sec` -/
  sleepSec : Nat
  /-- `_connection_lost_last_time` (microseconds on the clock) -/
  lastLoss : Option Nat
  /-- `_connection_lost_sleep_before_reconnect` -/
  sleepFlag : Bool
  deriving Repr, DecidableEq, Inhabited

/-- `ConnectionManager.__init__` : note the threshold default is taken from the SLEEP constant -/
def Breaker.new : Breaker :=
  { threshold := defaultLostSleep, sleepSec := defaultLostSleep, lastLoss := none, sleepFlag := false }

/-- `_update_connection_lost_circuit_breaker()` at clock time `now` (µs); the clock is monotone in
    the model (`now ≥ lastLoss`), a negative delta would also count as "within the threshold" -/
def Breaker.update (b : Breaker) (now : Nat) : Breaker :=
  match b.lastLoss with
  | some t => { b with sleepFlag := decide (now - t < b.threshold * 1000000) || decide (now < t), lastLoss := some now }
  | none => { b with lastLoss := some now }

/-- `_get_back_off_time()` -/
def getBackOffTime (s : Strategy) (b : Breaker) : Nat :=
  let d := s.current
  if d > 0 || b.sleepFlag then
    let reconnectSleep := if b.sleepFlag then b.sleepSec else 0
    max d reconnectSleep
  else 0

end Amshan.BackOff
