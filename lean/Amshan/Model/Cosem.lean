import Amshan.Generated
import Amshan.Model.Float
import Amshan.Model.Obis
/-
  Model of han/cosem.py: the `construct` grammars for COSEM data (DateTime, Field, OBIS octet
  string, scaler/unit, APDU / LLC header), as hand-written parsers over octet lists.

  `Res` distinguishes the failure kinds that matter for the combinators of the `construct`
  library (MODELLED, not verified):
    * `soft`      any ConstructError except ExplicitError (StreamError, ConstError, StringError,
                  CheckError, SelectError …) — swallowed by Select, GreedyRange and Peek;
    * `explicit`  ExplicitError raised by `construct.Error` — propagates through all of them;
    * `py e`      a Python exception raised by a lambda (TypeError, ValueError, …) — swallowed by
                  Select and GreedyRange, NOT by Peek.
-/
namespace Amshan.Cosem
open Amshan.Gen

inductive Res (α : Type) where
  | ok (a : α) (rest : List Nat)
  | soft
  | explicit
  | py (e : PyExc)
  deriving Repr, Inhabited

instance [DecidableEq α] : DecidableEq (Res α) := by intro a b; cases a <;> cases b <;> simp <;> infer_instance

def Res.bind (r : Res α) (f : α → List Nat → Res β) : Res β :=
  match r with
  | .ok a rest => f a rest
  | .soft => .soft
  | .explicit => .explicit
  | .py e => .py e

/-- tag value of a named COSEM common data type, from the regenerated enum table -/
def tagOf (name : String) : Nat := (cosemTypes.lookup name).getD 256

def tNull : Nat := tagOf "null_data"
def tArray : Nat := tagOf "array"
def tStructure : Nat := tagOf "structure"
def tU32 : Nat := tagOf "double_long_unsigned"
def tOctet : Nat := tagOf "octet_string"
def tVisible : Nat := tagOf "visible_string"
def tInt8 : Nat := tagOf "integer"
def tInt16 : Nat := tagOf "long"
def tU16 : Nat := tagOf "long_unsigned"
def tEnum : Nat := tagOf "enum"

/-! ### integers -/
def u8 : List Nat → Res Nat
  | b :: r => .ok b r
  | [] => .soft

def s8 (s : List Nat) : Res Int := (u8 s).bind fun b r => .ok (if b ≥ 128 then (b : Int) - 256 else b) r

def u16 : List Nat → Res Nat
  | a :: b :: r => .ok (a * 256 + b) r
  | _ => .soft

def s16 (s : List Nat) : Res Int := (u16 s).bind fun v r => .ok (if v ≥ 32768 then (v : Int) - 65536 else v) r

def u32 : List Nat → Res Nat
  | a :: b :: c :: d :: r => .ok (((a * 256 + b) * 256 + c) * 256 + d) r
  | _ => .soft

/-- `Const(value, Int8ub)` / `Const(enum member, CommonDataTypes)` : the next octet must be `v` -/
def constByte (v : Nat) (s : List Nat) : Res Unit := (u8 s).bind fun b r => if b = v then .ok () r else .soft

/-- read exactly `n` octets -/
def takeN (n : Nat) (s : List Nat) : Res (List Nat) := if s.length ≥ n then .ok (s.take n) (s.drop n) else .soft

/-! ### DateTime -/

structure DT where
  year : Nat
  month : Nat
  day : Nat
  hour : Nat
  minute : Nat
  second : Nat
  micro : Nat
  /-- UTC offset in minutes (`-deviation`), `none` = naive -/
  tz : Option Int
  deriving Repr, DecidableEq, Inhabited

def isLeap (y : Nat) : Bool := (y % 4 == 0 && y % 100 != 0) || y % 400 == 0

def daysInMonth (y m : Nat) : Nat :=
  if m == 2 then (if isLeap y then 29 else 28)
  else if m == 4 || m == 6 || m == 9 || m == 11 then 30 else 31

/-- `datetime.datetime(y, mo, d, h, mi, s, us, tz)` with Python's argument checks:
    the timezone argument is evaluated first (ValueError unless |offset| < 24 h); `None` for hour,
    minute or second is a TypeError; then the range checks (ValueError). -/
def mkDatetime (y mo d : Nat) (h mi s : Option Nat) (hs : Option Nat) (dev : Option Int) : Except PyExc DT :=
  match (match dev with
         | some dv => if -1440 < dv ∧ dv < 1440 then Except.ok (some (-dv)) else .error PyExc.valueError
         | none => .ok none) with
  | .error e => .error e
  | .ok tz =>
    match h, mi, s with
    | some h, some mi, some s =>
      let us := match hs with | some x => x * 10000 | none => 0
      if 1 ≤ y ∧ y ≤ 9999 ∧ 1 ≤ mo ∧ mo ≤ 12 ∧ 1 ≤ d ∧ d ≤ daysInMonth y mo ∧
         h ≤ 23 ∧ mi ≤ 59 ∧ s ≤ 59 ∧ us ≤ 999999 then
        .ok { year := y, month := mo, day := d, hour := h, minute := mi, second := s, micro := us, tz := tz }
      else .error .valueError
    | _, _, _ => .error .typeError

def optByte (b : Nat) : Option Nat := if b = 0xFF then none else some b

/-- `cosem.DateTime` : length octet 12, fields, status octet, computed datetime -/
def dateTime : List Nat → Res DT
  | 0x0C :: yh :: yl :: mo :: d :: _dow :: h :: mi :: s :: hs :: dh :: dl :: _status :: rest =>
    let dev16 := dh * 256 + dl
    let dev : Int := if dev16 ≥ 32768 then (dev16 : Int) - 65536 else dev16
    match mkDatetime (yh * 256 + yl) mo d (optByte h) (optByte mi) (optByte s) (optByte hs)
        (if dev = -32768 then none else some dev) with
    | .ok dt => .ok dt rest
    | .error e => .py e
  | _ => .soft      -- wrong length octet (ConstError) or not enough octets (StreamError)

/-! ### text -/

def isAsciiOctets (s : List Nat) : Bool := s.all (· < 128)

/-- `PascalString(Int8ub, "ASCII")` -/
def visibleString (s : List Nat) : Res (List Nat) :=
  (u8 s).bind fun n r => (takeN n r).bind fun t r' => if isAsciiOctets t then .ok t r' else .soft

/-- `OctedStringText` : length octet, `PaddedString(length, "ASCII")` (trailing NULs stripped) -/
def octetStringText (s : List Nat) : Res (List Nat) :=
  (u8 s).bind fun n r => (takeN n r).bind fun t r' =>
    let t := Py.rstripWith (· == 0) t
    if isAsciiOctets t then .ok t r' else .soft

/-- `ObisCode` rendered as the six-part dotted text -/
def obisText (g : List Nat) : List Nat :=
  match g with
  | [a, b, c, d, e, f] =>
    Obis.showNat a ++ [46] ++ Obis.showNat b ++ [46] ++ Obis.showNat c ++ [46] ++ Obis.showNat d ++ [46] ++
      Obis.showNat e ++ [46] ++ Obis.showNat f
  | _ => []

/-- `ObisCodeOctedStringField` : tag 9, length 6, six octets; the six octets are the value -/
def obisField (s : List Nat) : Res (List Nat) :=
  (constByte tOctet s).bind fun _ r => (constByte 6 r).bind fun _ r => takeN 6 r

/-! ### generic Field -/

inductive FieldVal where
  | int (z : Int)
  | str (s : List Nat)
  | dt (d : DT)
  | null            -- the `NullData` container
  deriving Repr, DecidableEq, Inhabited

/-- greedy run of null-data octets (`GreedyRange(Const(null_data))`) -/
def skipNulls (s : List Nat) : List Nat := s.dropWhile (· == tNull)

/-- `NullData` : peek; if the next octet is null-data, consume the whole run -/
def nullData (s : List Nat) : List Nat :=
  match s with
  | b :: _ => if b = tNull then skipNulls s else s
  | [] => s

/-- `cosem.Field` : type octet then `Switch` (unknown types → `construct.Error`) -/
def field (s : List Nat) : Res FieldVal :=
  (u8 s).bind fun t r =>
    if t = tNull then .ok .null (nullData r)
    else if t = tInt8 then (s8 r).bind fun v r => .ok (.int v) r
    else if t = tInt16 then (s16 r).bind fun v r => .ok (.int v) r
    else if t = tU16 then (u16 r).bind fun v r => .ok (.int v) r
    else if t = tU32 then (u32 r).bind fun v r => .ok (.int v) r
    else if t = tOctet then
      -- `Select(DateTime, OctedStringText)`: any failure of DateTime except ExplicitError falls through
      match dateTime r with
      | .ok d r' => .ok (.dt d) r'
      | .explicit => .explicit
      | _ => (octetStringText r).bind fun t r' => .ok (.str t) r'
    else if t = tVisible then (visibleString r).bind fun t r' => .ok (.str t) r'
    else .explicit

/-- `DateTimeField` : tag 9 then DateTime -/
def dateTimeField (s : List Nat) : Res DT := (constByte tOctet s).bind fun _ r => dateTime r

/-! ### APDU / LLC header -/

inductive ApduDT where
  | byte (b : Nat)      -- null date-time: `construct.Byte`
  | dt (d : DT)
  deriving Repr, DecidableEq, Inhabited

/-- `_get_apdu_struct` : tag (not checked), LongInvokeIdAndPriority (4 octets), optional date-time,
    then the notification body -/
def apdu (body : List Nat → Res β) (s : List Nat) : Res (ApduDT × β) :=
  (u8 s).bind fun _tag r => (takeN 4 r).bind fun _ r =>
    let dtRes : Res ApduDT :=
      match r with
      | b :: _ =>
        if b = tNull then (u8 r).bind fun v r' => .ok (.byte v) r'
        else if b = tOctet then (dateTimeField r).bind fun d r' => .ok (.dt d) r'
        else (dateTime r).bind fun d r' => .ok (.dt d) r'
      | [] => (dateTime r).bind fun d r' => .ok (.dt d) r'
    dtRes.bind fun d r => (body r).bind fun b r' => .ok (d, b) r'

/-- `get_llc_pdu_struct` : dsap, ssap, control, then the APDU -/
def llc (body : List Nat → Res β) (s : List Nat) : Res (ApduDT × β) :=
  (takeN 3 s).bind fun _ r => apdu body r

/-! ### dictionary values -/

inductive Val where
  | int (z : Int)
  | flt (f : Flt.F)
  | str (s : List Nat)
  | dt (d : DT)
  | obj (kind : String)     -- a construct Container that leaked into the dictionary
  deriving Repr, DecidableEq, Inhabited

abbrev Dict := List (String × Val)

/-- `dict[key] = value` -/
def Dict.set (d : Dict) (k : String) (v : Val) : Dict := (d.filter (·.1 != k)) ++ [(k, v)]

/-- common field name of an OBIS code's C.D.E groups (`obis_name_map`), or the C.D.E text -/
def cdeText (c d e : Nat) : String :=
  Py.toString (Obis.showNat c ++ [46] ++ Obis.showNat d ++ [46] ++ Obis.showNat e)

def fieldName (c d e : Nat) : String :=
  match obisNameMap.lookup (cdeText c d e) with
  | some n => n
  | none => cdeText c d e

/-- decoder result: dictionary or the class of the exception that escapes the decoder -/
inductive Out where
  | dict (d : Dict)
  | construct          -- a ConstructError (incl. ExplicitError)
  | exc (e : PyExc)
  deriving Repr, DecidableEq, Inhabited

def Res.toOut (r : Res Dict) : Out :=
  match r with
  | .ok d _ => .dict d
  | .soft => .construct
  | .explicit => .construct
  | .py e => .exc e

end Amshan.Cosem
