import Amshan.Model.Basic
/-
  CPython built-ins used by han/dlde.py and han/obis.py, as total functions on code-point lists.
  A Python `str` that came from `bytes.decode("ascii")` is a `List Nat` of values < 128.
  These definitions are MODELLED, not verified (trusted base); the correspondence check exercises
  them against the real interpreter.
-/
namespace Amshan.Py

/-- `bytes.decode("ascii")` : UnicodeDecodeError (a ValueError) on any octet ≥ 0x80 -/
def decodeAscii (bs : List Nat) : Except PyExc (List Nat) :=
  if bs.all (· < 128) then .ok bs else .error .unicodeError

/-- `bytes.isascii()` -/
def isAscii (bs : List Nat) : Bool := bs.all (· < 128)

/-- C white space (`Py_ISSPACE`): whitespace for `bytes.lstrip()` / `bytes.strip()` (b' \t\n\r\x0b\x0c'),
    and the only characters that `float()` / `int()` skip around the number in an all-ASCII `str`
    (for ASCII text `_PyUnicode_TransformDecimalAndSpaceToASCII` returns the text unchanged, so the
    Unicode white-space table is never consulted) -/
def isBytesSpace (c : Nat) : Bool := c == 32 || (9 ≤ c && c ≤ 13)

/-- whitespace for `str.strip()` / `str.isspace()` on ASCII text: also the separators 0x1C..0x1F
    (NOT skipped by `float()` / `int()`: those use `isBytesSpace`, see `stripC`) -/
def isStrSpace (c : Nat) : Bool := c == 32 || (9 ≤ c && c ≤ 13) || (28 ≤ c && c ≤ 31)

def lstripBytes (bs : List Nat) : List Nat := bs.dropWhile isBytesSpace

def rstripWith (p : Nat → Bool) (s : List Nat) : List Nat := (s.reverse.dropWhile p).reverse

/-- `str.strip()` -/
def strip (s : List Nat) : List Nat := rstripWith isStrSpace (s.dropWhile isStrSpace)

/-- the white space that `float(text)` / `int(text)` / `int(text, base)` skip before and after the
    number when `text` is an all-ASCII `str`: only the C set {32, 9..13}. 0x1C..0x1F are left in
    place (and then make the conversion fail with ValueError). -/
def stripC (s : List Nat) : List Nat := rstripWith isBytesSpace (s.dropWhile isBytesSpace)

/-- `bytes.find(byte)` / `str.find(ch)` from the start: index of the first occurrence -/
def find (xs : List Nat) (c : Nat) : Option Nat :=
  let i := (xs.takeWhile (· != c)).length
  if i < xs.length then some i else none

def isDigit (c : Nat) : Bool := 48 ≤ c && c ≤ 57
def isUpper (c : Nat) : Bool := 65 ≤ c && c ≤ 90
def isLower (c : Nat) : Bool := 97 ≤ c && c ≤ 122
def isAlpha (c : Nat) : Bool := isUpper c || isLower c
/-- `\w` on ASCII text -/
def isWord (c : Nat) : Bool := isAlpha c || isDigit c || c == 95
/-- `[ -~]` -/
def isPrintable (c : Nat) : Bool := 32 ≤ c && c ≤ 126

def hexDigitVal? (c : Nat) : Option Nat :=
  if isDigit c then some (c - 48)
  else if 97 ≤ c && c ≤ 102 then some (c - 87)
  else if 65 ≤ c && c ≤ 70 then some (c - 55)
  else none

/-- digits of `int(s, 16)` after sign/prefix: hex digits with single underscores strictly between
    digits; `prevUnderscore` = previous character was '_' ; `any` = at least one digit seen. -/
def hexDigitsLoop : List Nat → Nat → Bool → Bool → Option Nat
  | [], acc, prevU, any => if prevU || !any then none else some acc
  | c :: cs, acc, prevU, any =>
    if c == 95 then
      if prevU || !any then none else hexDigitsLoop cs acc true any
    else
      match hexDigitVal? c with
      | some v => hexDigitsLoop cs (acc * 16 + v) false true
      | none => none

/-- `int(s, 16)` for ASCII text `s` (CPython grammar: surrounding C whitespace {32, 9..13}, optional sign,
    optional `0x`/`0X` prefix which may be followed by one underscore, digits with single underscores
    between them). ValueError otherwise. -/
def intBase16 (s : List Nat) : Except PyExc Int :=
  let s := stripC s
  let (neg, s) := match s with
    | 43 :: r => (false, r)
    | 45 :: r => (true, r)
    | _ => (false, s)
  let s := match s with
    | 48 :: x :: r =>
      if x == 120 || x == 88 then (match r with | 95 :: r' => r' | _ => r) else s
    | _ => s
  match hexDigitsLoop s 0 false false with
  | some v => .ok (if neg then -(v : Int) else (v : Int))
  | none => .error .valueError

/-- decimal digits with single underscores between them (for `int(s)`) -/
def decDigitsLoop : List Nat → Nat → Bool → Bool → Option Nat
  | [], acc, prevU, any => if prevU || !any then none else some acc
  | c :: cs, acc, prevU, any =>
    if c == 95 then
      if prevU || !any then none else decDigitsLoop cs acc true any
    else if isDigit c then decDigitsLoop cs (acc * 10 + (c - 48)) false true
    else none

/-- `int(s)` (base 10) for ASCII text -/
def intBase10 (s : List Nat) : Except PyExc Int :=
  let s := stripC s
  let (neg, s) := match s with
    | 43 :: r => (false, r)
    | 45 :: r => (true, r)
    | _ => (false, s)
  match decDigitsLoop s 0 false false with
  | some v => .ok (if neg then -(v : Int) else (v : Int))
  | none => .error .valueError

def toLowerAscii (c : Nat) : Nat := if isUpper c then c + 32 else c
/-- `str.lower()` on ASCII text -/
def lower (s : List Nat) : List Nat := s.map toLowerAscii

/-- `str.split(sep)` for a one-character separator -/
def splitOn (s : List Nat) (sep : Nat) : List (List Nat) :=
  let rec go : List Nat → List Nat → List (List Nat)
    | [], cur => [cur.reverse]
    | c :: cs, cur => if c == sep then cur.reverse :: go cs [] else go cs (c :: cur)
  go s []

/-- line boundaries of `str.splitlines()` on ASCII text: LF VT FF CR(LF) FS GS RS -/
def isLineBreak (c : Nat) : Bool := c == 10 || c == 11 || c == 12 || c == 13 || c == 28 || c == 29 || c == 30

/-- `str.splitlines()` on ASCII text (no keepends); `prevCR`: the previous character was a CR, so
    an LF now belongs to the same line break -/
def splitLinesGo : List Nat → List Nat → Bool → List (List Nat)
  | [], cur, _ => if cur.isEmpty then [] else [cur.reverse]
  | c :: cs, cur, prevCR =>
    if c == 10 && prevCR then splitLinesGo cs cur false
    else if c == 13 then cur.reverse :: splitLinesGo cs [] true
    else if isLineBreak c then cur.reverse :: splitLinesGo cs [] false
    else splitLinesGo cs (c :: cur) false

def splitLines (s : List Nat) : List (List Nat) := splitLinesGo s [] false

def ofString (s : String) : List Nat := s.toList.map Char.toNat
def toString (s : List Nat) : String := String.ofList (s.map Char.ofNat)

end Amshan.Py
