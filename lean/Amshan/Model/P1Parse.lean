import Amshan.Model.Cosem
import Amshan.Model.P1
/-
  Model of han/dlde.py, content side: DataSetValue.parse, DataSet.parse_data_block (repaired: raises
  ValueError on a missing ')' or text after the last value), _parse_p1_datetime, _decode_parsed,
  decode_p1_readout_content (with its guard: content with an octet below 0x20 other than CR and LF is
  refused before parsing; the parser and decode_p1_readout have no such guard), decode_p1_readout.
-/
namespace Amshan.P1Parse
open Amshan.Gen Amshan.Py Amshan.Cosem

structure DataSetValue where
  value : List Nat
  unit : Option (List Nat)
  deriving Repr, DecidableEq, Inhabited

structure DataSet where
  address : List Nat
  values : List DataSetValue
  deriving Repr, DecidableEq, Inhabited

/-- `DataSetValue.parse` -/
def parseValue (s : List Nat) : Except PyExc DataSetValue :=
  match splitOn s 42 with
  | [v] => .ok ⟨v, none⟩
  | [v, u] => .ok ⟨v, some u⟩
  | _ => .error .valueError

/-- `str.find(ch, start)` -/
def findFrom (line : List Nat) (c : Nat) (start : Nat) : Option Nat :=
  (find (line.drop start) c).map (· + start)

/-- the inner `while from_pos > 0` loop of `get_address_and_values`; `iters` counts loop iterations.
    Returns (next position or none for -1, values). -/
def valuesLoop (line : List Nat) : Nat → Nat → List DataSetValue → Nat → Except PyExc (Option Nat × List DataSetValue × Nat)
  | 0, _, _, _ => .error .overflowError        -- fuel exhausted: impossible (see `parse_terminates`)
  | fuel + 1, fromPos, values, iters =>
    if line[fromPos]? != some 40 then .error .valueError           -- text after a data set value
    else
      match findFrom line 41 fromPos with
      | none => .error .valueError                                  -- missing ')'
      | some endPos =>
        match parseValue (slice line (fromPos + 1) endPos) with
        | .error e => .error e
        | .ok v =>
          let values := values ++ [v]
          let next := endPos + 1
          if next = line.length then .ok (none, values, iters + 1)
          else if line[next]? != some 40 then .ok (some next, values, iters + 1)
          else valuesLoop line fuel next values (iters + 1)

/-- `get_address_and_values(line, from_pos)` → (position or -1, address, values, iterations) -/
def getAddressAndValues (line : List Nat) (fromPos : Nat) :
    Except PyExc (Option Nat × Option (List Nat) × List DataSetValue × Nat) :=
  let addressEnd := findFrom line 40 fromPos
  let (address, fromPos) := match addressEnd with
    | some ae => if ae > fromPos then (some (slice line fromPos ae), ae) else (none, fromPos)
    | none => (none, fromPos)
  if fromPos > 0 then
    match valuesLoop line (line.length + 1) fromPos [] 0 with
    | .error e => .error e
    | .ok (pos, values, it) => .ok ((if values.isEmpty then none else pos), address, values, it)
  else .ok (none, address, [], 0)

/-- the `while position > -1` loop for one line; fuel = line length + 1 -/
def lineLoop (line : List Nat) : Nat → Nat → List DataSet → Nat → Except PyExc (List DataSet × Nat)
  | 0, _, _, _ => .error .overflowError        -- fuel exhausted: impossible (see `parse_terminates`)
  | fuel + 1, pos, items, iters =>
    match getAddressAndValues line pos with
    | .error e => .error e
    | .ok (next, address, values, it) =>
      let items := if values.isEmpty then items else items ++ [⟨address.getD [], values⟩]
      match next with
      | none => .ok (items, iters + it + 1)
      | some p => lineLoop line fuel p items (iters + it + 1)

/-- `DataSet.parse_data_block(data)`; also returns the total number of loop iterations -/
def parseDataBlock (data : List Nat) : Except PyExc (List DataSet × Nat) :=
  let lines := (splitLines data).filter (fun l => !(strip l).isEmpty)
  lines.foldl (fun acc line =>
    match acc with
    | .error e => .error e
    | .ok (items, iters) =>
      match lineLoop line (line.length + 1) 0 [] 0 with
      | .error e => .error e
      | .ok (its, n) => .ok (items ++ its, iters + n)) (.ok ([], 0))

/-- `parse_p1_readout_content(content)` -/
def parseContent (content : List Nat) : Except PyExc (List DataSet × Nat) :=
  if !isAscii content then .error .valueError else parseDataBlock content

/-- `_parse_p1_datetime(value)` -/
def parseP1Datetime (v : List Nat) : Except PyExc DT := do
  let yy ← intBase10 (slice v 0 2)
  let mo ← intBase10 (slice v 2 4)
  let d ← intBase10 (slice v 4 6)
  let h ← intBase10 (slice v 6 8)
  let mi ← intBase10 (slice v 8 10)
  let s ← intBase10 (slice v 10 12)
  let y := 2000 + yy
  if 1 ≤ y ∧ y ≤ 9999 ∧ 1 ≤ mo ∧ mo ≤ 12 ∧ 1 ≤ d ∧ d ≤ (daysInMonth y.toNat mo.toNat : Int) ∧
     0 ≤ h ∧ h ≤ 23 ∧ 0 ≤ mi ∧ mi ≤ 59 ∧ 0 ≤ s ∧ s ≤ 59 then
    pure { year := y.toNat, month := mo.toNat, day := d.toNat, hour := h.toNat, minute := mi.toNat,
           second := s.toNat, micro := 0, tz := none }
  else throw .valueError

def unitsPlain : List (List Nat) := (p1DecodeStrings.take 4).map ofString      -- v a var varh
def unitsKilo : List (List Nat) := ((p1DecodeStrings.drop 4).take 4).map ofString  -- kw kwh kvar kvarh
def clockCde : List Nat := ofString (p1DecodeStrings.getD 8 "")

/-- one item of `_decode_parsed` with a single value: (name, value) -/
def decodeItem (item : DataSet) : Except PyExc (String × Val) := do
  let v ← (match item.values with | [v] => pure v | _ => throw PyExc.valueError)
  let g ← Obis.parse item.address
  let cde := Obis.cdeStr g
  let name := match obisNameMap.lookup (Py.toString cde) with
    | some n => n
    | none => Py.toString cde
  let unit : Option (List Nat) := match v.unit with
    | some u => if u.isEmpty then none else some (lower u)
    | none => none
  let isPlain := match unit with | some u => unitsPlain.contains u | none => false
  let isKilo := match unit with | some u => unitsKilo.contains u | none => false
  if isPlain then do
    let f ← Flt.ofStr v.value
    pure (name, Val.flt f)
  else if isKilo then do
    let f ← Flt.ofStr v.value
    let z ← Flt.toInt (Flt.mul f (Flt.ofNat 1000))
    pure (name, Val.int z)
  else if cde == clockCde then do
    let t ← parseP1Datetime v.value
    pure (name, Val.dt t)
  else pure (name, Val.str v.value)

/-- `_decode_parsed` -/
def decodeParsed (items : List DataSet) : Except PyExc Dict :=
  items.foldl (fun acc item =>
    match acc with
    | .error e => .error e
    | .ok d =>
      if item.values.length = 1 then
        match decodeItem item with
        | .ok (k, v) => .ok (d.set k v)
        | .error e => .error e
      else .ok d) (.ok [])

/-- an octet below 0x20 other than CR and LF: `char < 0x20 and char not in (0x0D, 0x0A)` -/
def isControl (c : Nat) : Bool := decide (c < 32) && (c != 13 && c != 10)

/-- `decode_p1_readout_content(content)` after its guard: parse, refuse an empty result, decode -/
def decodeParsedContent (content : List Nat) : Except PyExc Dict :=
  match parseContent content with
  | .error e => .error e
  | .ok (items, _) => if items.isEmpty then .error .valueError else decodeParsed items

/-- `decode_p1_readout_content(content)`: data lines are printable characters, CR and LF; anything
    with another control octet is refused ("Content is not printable characters.") BEFORE parsing -/
def decodeContent (content : List Nat) : Except PyExc Dict :=
  if content.any isControl then .error .valueError else decodeParsedContent content

/-- `decode_p1_readout(readout)` -/
def decodeReadout (r : P1.Readout) : Except PyExc Dict :=
  match parseContent r.payload with
  | .error e => .error e
  | .ok (items, _) =>
    match decodeParsed items with
    | .error e => .error e
    | .ok d =>
      match r.identLine with
      | .error e => .error e
      | .ok m =>
        let d := d.set field_METER_MANUFACTURER_ID (.str m.manid)
        .ok (match m.ident with | some i => d.set field_METER_TYPE_ID (.str i) | none => d)

end Amshan.P1Parse
