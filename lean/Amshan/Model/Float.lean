import Amshan.Model.PyStr
/-
  IEEE-754 binary64 as used by CPython, computed exactly with integers:
  correctly rounded conversion of a rational to a double (round-half-even), `float(str)`,
  float multiplication, `int(float)`, `round(float, ndigits)` and `10 ** -s`.
  MODELLED (trusted base), tied to the interpreter by the correspondence checks; the error-bound
  theorems that C07–C11 need are stated over this executable definition in Lemmas/Float*.lean.
-/
namespace Amshan.Flt

/-- a Python float -/
inductive F where
  | fin (neg : Bool) (m : Nat) (e : Int)     -- ± m · 2^e   (not necessarily normalised)
  | inf (neg : Bool)
  | nan
  deriving Repr, DecidableEq, Inhabited

def zero : F := .fin false 0 0

/-- `⌊num · 2^(-e) / den⌋` and whether the discarded part is zero / below / equal / above one half:
    returns (quotient, cmp) with cmp = 0 exact, 1 below half, 2 exactly half, 3 above half -/
def scaledDiv (num den : Nat) (e : Int) : Nat × Nat :=
  let (n, d) := if e ≥ 0 then (num, den * 2 ^ e.toNat) else (num * 2 ^ (-e).toNat, den)
  let q := n / d
  let r := n % d
  let cmp := if r = 0 then 0 else if 2 * r < d then 1 else if 2 * r = d then 2 else 3
  (q, cmp)

def roundHalfEven (q cmp : Nat) : Nat :=
  if cmp = 3 then q + 1 else if cmp = 2 then (if q % 2 = 1 then q + 1 else q) else q

/-- the double nearest to `num/den` (ties to even), with sign `neg`; `den > 0` -/
def ofRat (neg : Bool) (num den : Nat) : F :=
  if num = 0 || den = 0 then .fin neg 0 0
  else
    -- first guess of the unit exponent so that the quotient has about 53 bits
    let e0 : Int := (Nat.log2 num : Int) - (Nat.log2 den : Int) - 52
    let (q0, _) := scaledDiv num den e0
    -- adjust by one if needed so that 2^52 ≤ q < 2^53
    let e1 : Int := if q0 ≥ 2 ^ 53 then e0 + 1 else if q0 < 2 ^ 52 then e0 - 1 else e0
    -- subnormal range: the unit exponent is at least -1074
    let e : Int := if e1 < -1074 then -1074 else e1
    let (q, cmp) := scaledDiv num den e
    let m := roundHalfEven q cmp
    -- rounding up may carry into 2^53 (same value, normalise) ; overflow beyond the largest double
    let (m, e) := if m = 2 ^ 53 then (2 ^ 52, e + 1) else (m, e)
    if e > 971 then .inf neg else .fin neg m e

/-- exact value as a reduced fraction `(neg, num, den)`; only for finite values -/
def toRat : F → Option (Bool × Nat × Nat)
  | .fin neg m e =>
    if m = 0 then some (neg, 0, 1)
    else if e ≥ 0 then some (neg, m * 2 ^ e.toNat, 1)
    else
      let k := (-e).toNat
      let g := Nat.gcd m (2 ^ k)
      some (neg, m / g, 2 ^ k / g)
  | _ => none

/-- float × float -/
def mul : F → F → F
  | .nan, _ => .nan
  | _, .nan => .nan
  | .inf a, .inf b => .inf (a != b)
  | .inf a, .fin b m _ => if m = 0 then .nan else .inf (a != b)
  | .fin a m _, .inf b => if m = 0 then .nan else .inf (a != b)
  | .fin a m1 e1, .fin b m2 e2 =>
    let e := e1 + e2
    if e ≥ 0 then ofRat (a != b) (m1 * m2 * 2 ^ e.toNat) 1 else ofRat (a != b) (m1 * m2) (2 ^ (-e).toNat)

/-- `float(n)` for a non-negative integer (exact below 2^53, correctly rounded above) -/
def ofNat (n : Nat) : F := ofRat false n 1

/-- `float(z)` for an integer -/
def ofInt (z : Int) : F := ofRat (decide (z < 0)) z.natAbs 1

/-- `int(x)` : truncation toward zero; OverflowError for infinities, ValueError for NaN -/
def toInt : F → Except PyExc Int
  | .nan => .error .valueError
  | .inf _ => .error .overflowError
  | .fin neg m e =>
    let a : Nat := if e ≥ 0 then m * 2 ^ e.toNat else m / 2 ^ (-e).toNat
    .ok (if neg then -(a : Int) else (a : Int))

/-- `10 ** -s` for `s > 0` (CPython: `pow(10.0, -s)`, correctly rounded for the exponents used) -/
def tenPowNeg (s : Nat) : F := ofRat false 1 (10 ^ s)

/-- `round(x, ndigits)` for `ndigits ≥ 0`: the exact value is rounded half-even to `ndigits` decimals
    and the resulting decimal is converted back to the nearest double -/
def roundDigits (x : F) (n : Nat) : F :=
  match x with
  | .fin neg m e =>
    -- exact x·10^n = m·10^n·2^e
    let (q, cmp) := scaledDiv (m * 10 ^ n) 1 (-e)
    let r := roundHalfEven q cmp
    ofRat neg r (10 ^ n)
  | other => other

/-! ### `float(str)` -/

/-- digits (with single underscores between digits); returns the digit list and the rest -/
def takeDigitsU : List Nat → List Nat → Bool → (List Nat × List Nat)
  | [], acc, _ => (acc.reverse, [])
  | c :: cs, acc, prevU =>
    if Py.isDigit c then takeDigitsU cs (c :: acc) false
    else if c == 95 && !prevU && !acc.isEmpty then
      match cs with
      | d :: _ => if Py.isDigit d then takeDigitsU cs acc true else (acc.reverse, c :: cs)
      | [] => (acc.reverse, c :: cs)
    else (acc.reverse, c :: cs)

def digitsVal (ds : List Nat) : Nat := ds.foldl (fun a c => a * 10 + (c - 48)) 0

def lowerAscii (s : List Nat) : List Nat := s.map Py.toLowerAscii

/-- `float(s)` for ASCII text: C whitespace {32, 9..13} only (not 0x1C..0x1F), sign, inf/infinity/nan, decimal with optional fraction and
    exponent. ValueError otherwise. -/
def ofStr (s : List Nat) : Except PyExc F :=
  let s := Py.stripC s
  let (neg, s) := match s with
    | 43 :: r => (false, r)
    | 45 :: r => (true, r)
    | _ => (false, s)
  let low := lowerAscii s
  if low == [105, 110, 102] || low == [105, 110, 102, 105, 110, 105, 116, 121] then .ok (.inf neg)
  else if low == [110, 97, 110] then .ok .nan
  else
    let (ip, rest) := takeDigitsU s [] false
    let (fp, rest, hadDot) := match rest with
      | 46 :: r => let (f, r') := takeDigitsU r [] false; (f, r', true)
      | _ => ([], rest, false)
    if ip.isEmpty && fp.isEmpty then .error .valueError
    else if hadDot && false then .error .valueError
    else
      -- exponent
      let expPart : Option (Int × List Nat) := match rest with
        | c :: r =>
          if c == 101 || c == 69 then
            let (eneg, r) := match r with
              | 43 :: r' => (false, r')
              | 45 :: r' => (true, r')
              | _ => (false, r)
            let (ed, r') := takeDigitsU r [] false
            if ed.isEmpty then none
            else some ((if eneg then -(digitsVal ed : Int) else (digitsVal ed : Int)), r')
          else some (0, rest)
        | [] => some (0, [])
      match expPart with
      | none => .error .valueError
      | some (ex, rest) =>
        if !rest.isEmpty then .error .valueError
        else
          let mant := digitsVal (ip ++ fp)
          let e10 : Int := ex - (fp.length : Int)
          -- clamp absurd exponents (the result is 0 or inf anyway)
          if mant = 0 then .ok (.fin neg 0 0)
          else if e10 > 400 then .ok (.inf neg)
          else if e10 + ((ip ++ fp).length : Int) < -400 then .ok (.fin neg 0 0)   -- value < 10^-400: rounds to zero
          else if e10 ≥ 0 then .ok (ofRat neg (mant * 10 ^ e10.toNat) 1)
          else .ok (ofRat neg mant (10 ^ (-e10).toNat))

/-- rendering for the line protocol: exact fraction "n/d" (with sign), "inf", "-inf", "nan" -/
def render : F → String
  | .nan => "nan"
  | .inf neg => if neg then "-inf" else "inf"
  | x =>
    match toRat x with
    | some (neg, n, d) => (if neg && n != 0 then "-" else "") ++ toString n ++ "/" ++ toString d
    | none => "?"

end Amshan.Flt
