import Amshan.Generated
import Amshan.Model.Basic
/-
  Model of han/fastframecheck.py (FastFrameCheckSequence16).
  The table and the constants come from Generated.lean (re-read from the source on every run).
-/
namespace Amshan.Fcs
open Amshan.Gen

/-- `FastFrameCheckSequence16._next(crc, byte)`:
    `(crc >> 8) ^ table[(crc ^ byte) & 0xFF]`.  The index is always `< 256 = table.length`
    (lemma `Fcs.index_lt`), so the default of `getD` is never used. -/
def next (crc byte : Nat) : Nat :=
  (crc >>> 8) ^^^ fcsTable.getD ((crc ^^^ byte) &&& 0xFF) 0

/-- register after `update()` has been called for every octet of `bs`, starting from `r`. -/
def feed (r : Nat) (bs : List Nat) : Nat := bs.foldl next r

/-- `is_good` -/
def isGood (r : Nat) : Bool := fcsGood == r

/-- `checksum` (complemented register) -/
def checksum (r : Nat) : Nat := r ^^^ fcsComplement

/-- the loop of `compute_checksum(data, start, length)` for `start, length ≥ 0`;
    `data[i]` raises IndexError when `i ≥ len(data)`. -/
def computeLoop (data : List Nat) : Nat → Nat → Nat → Except PyExc Nat
  | _, 0, fcs => .ok fcs
  | i, n + 1, fcs =>
    match data[i]? with
    | none => .error .indexError
    | some b => computeLoop data (i + 1) n ((fcs >>> 8) ^^^ fcsTable.getD ((fcs ^^^ b) &&& 0xFF) 0)

def computeChecksum (data : List Nat) (start len : Nat) : Except PyExc Nat :=
  match computeLoop data start len fcsInit with
  | .ok fcs => .ok (fcs ^^^ 0xFFFF)
  | .error e => .error e

end Amshan.Fcs
