import Amshan.Model.Hdlc
/-
  C14 view of han/hdlc.py: the same functions as Model/Hdlc.lean, but every Python operation that
  can raise (indexing a bytes/bytearray, `assert`, attribute access on `None`) is modelled by a
  partial primitive returning `Except PyExc`.  `Props/C14Hdlc.lean` proves that each of these
  functions returns `.ok` of the value computed by the pure model — i.e. every such operation in the
  source is guarded.  Slices (`x[a:b]`, `x[-1:]`) never raise in Python and stay pure.
-/
namespace Amshan.Hdlc
open Amshan.Gen

/-- `seq[i]` for `i ≥ 0` : IndexError when out of range -/
def pyIndex (xs : List Nat) (i : Nat) : Except PyExc Nat :=
  match xs[i]? with
  | some x => .ok x
  | none => .error .indexError

/-- `seq[-1:][0]` : the last element; IndexError when the slice is empty -/
def pyLastViaSlice (xs : List Nat) : Except PyExc Nat :=
  match xs.getLast? with
  | some x => .ok x
  | none => .error .indexError

/-- `header.frame_format` -/
def Frame.frameFormatE (f : Frame) : Except PyExc (Option Nat) :=
  if f.len ≥ 2 then do
    let a ← pyIndex f.data 0
    let b ← pyIndex f.data 1
    pure (some ((a <<< 8) ||| b))
  else pure none

/-- `_get_address`'s loop: `frame_data[i]` is only evaluated after the test `i >= len(frame)` -/
def getAddressLoopE (d : List Nat) : Nat → Nat → List Nat → Except PyExc (Option (List Nat))
  | 0, _, _ => pure none   -- fuel (= len - position + 1) exhausted: cannot happen, see `getAddressE_ok`
  | fuel + 1, i, adr =>
    if i ≥ d.length then pure none
    else do
      let cur ← pyIndex d i
      let adr := adr ++ [cur]
      if cur % 2 = 1 then pure (some adr) else getAddressLoopE d fuel (i + 1) adr

def getAddressE (d : List Nat) (pos : Nat) : Except PyExc (Option (List Nat)) :=
  if d.length > pos then getAddressLoopE d (d.length - pos + 1) pos [] else pure none

/-- `header.control` -/
def Frame.controlE (f : Frame) : Except PyExc (Option Nat) :=
  match f.ctlPos with
  | some p => if f.len > p then do let x ← pyIndex f.data p; pure (some x) else pure none
  | none => pure none

/-- `header.header_check_sequence` -/
def Frame.hcsE (f : Frame) : Except PyExc (Option Nat) :=
  match f.ctlPos with
  | some p =>
    if f.len > p + 2 then do
      let a ← pyIndex f.data (p + 1)
      let b ← pyIndex f.data (p + 2)
      pure (some ((a <<< 8) ||| b))
    else pure none
  | none => pure none

/-- `frame_check_sequence` : `_frame_data[len-2]`, `_frame_data[len-1]`
    (Python would index from the end for a negative value; `len ≥ information_position ≥ 5` here) -/
def Frame.fcsFieldE (f : Frame) : Except PyExc (Option Nat) :=
  match f.infoPos with
  | some ip =>
    if f.len ≥ ip then
      if f.len < 2 then .error .indexError
      else do
        let a ← pyIndex f.data (f.len - 2)
        let b ← pyIndex f.data (f.len - 1)
        pure (some ((a <<< 8) ||| b))
    else pure none
  | none => pure none

/-- `is_expected_length` -/
def Frame.isExpectedLengthE (f : Frame) : Except PyExc Bool := do
  let ff ← f.frameFormatE
  pure (ff.map (· &&& 0x7FF) == some f.len)

/-- `is_valid` (evaluates `is_good_ffc and is_expected_length`) -/
def Frame.isValidE (f : Frame) : Except PyExc Bool :=
  if f.isGoodFfc then f.isExpectedLengthE else pure false

/-- `_append_to_frame` begins with `assert self._frame is not None` -/
def appendToFrameE (cfg : Cfg) (c : Core) (x : Nat) : Except PyExc Core :=
  match c.frame with
  | none => .error .attributeError      -- AssertionError / attribute access on None
  | some f => pure (appendToFrame cfg c f x)

def maxLenCheck (c1 : Core) : Core × Act :=
  match c1.frame with
  | some f1 => if f1.len > maxFrameLen then (gotoHunt c1, .hunt) else (c1, .cont)
  | none => (c1, .cont)

/-- `_handle_flag_sequence` -/
def handleFlagE (cfg : Cfg) (c : Core) : Except PyExc (Core × Act) :=
  match c.frame with
  | none => pure (startFrame c, .cont)
  | some f =>
    if f.len = 0 then pure ({ c with raw := [], unescapeNext := false }, .cont)
    else do
      let hcs ← f.hcsE
      if hcs.isNone then pure (gotoHunt c, .hunt)
      else do
        let aborted ←
          if cfg.abort && decide (c.raw.length > 1) then do
            let last ← pyLastViaSlice c.raw
            pure (last == escOctet)
          else pure false
        if aborted then pure (gotoHunt c, .hunt)
        else if cfg.stuffing then pure (c, .complete)
        else do
          let exp ← f.isExpectedLengthE
          if exp then pure (c, .complete)
          else do
            let c1 ← appendToFrameE cfg c flagOctet
            pure (maxLenCheck c1)

/-- `_read_next` for the popped octet -/
def readNextE (cfg : Cfg) (c : Core) (x : Nat) : Except PyExc (Core × Act) :=
  if x = flagOctet then handleFlagE cfg c
  else
    match c.frame with
    | none => pure (c, .cont)
    | some _ => do
      let c1 ← appendToFrameE cfg c x
      pure (maxLenCheck c1)

/-- `_ReaderBuffer.pop` : `self._buffer[self._buffer_pos]` -/
def Buf.popE (b : Buf) : Except PyExc (Nat × Buf) :=
  match b.inp with
  | x :: rest => pure (x, { consumed := b.consumed + 1, inp := rest })
  | [] => .error .indexError

/-- the read loop with fuel `= unread octets + 1`; `frames_received.append(cast(HdlcFrame, self._frame))`
    and the debug log read `self._frame.is_expected_length`: AttributeError if `_frame` were None -/
def loopE (cfg : Cfg) : Nat → Core → Buf → List Frame → Except PyExc (Core × Buf × List Frame)
  | 0, c, b, out => pure (c, b, out)
  | fuel + 1, c, b, out =>
    if b.inp.length > 0 then do      -- `is_available`
      let (x, b1) ← b.popE
      let (c1, act) ← readNextE cfg c x
      match act with
      | .cont => loopE cfg fuel c1 b1 out
      | .hunt => loopE cfg fuel c1 b1.trimToFlagOrEnd out
      | .complete =>
        match c1.frame with
        | none => .error .attributeError
        | some f => do
          let _ ← f.isExpectedLengthE      -- evaluated by the debug log call
          loopE cfg fuel (startFrame c1) b1.trimToPos (out ++ [f])
    else pure (c, b, out)

def readE (cfg : Cfg) (r : Reader) (chunk : List Nat) : Except PyExc (Reader × List Frame) := do
  let b0 := r.buf.extend chunk
  let b1 := if r.core.frame.isNone then b0.trimToFlagOrEnd else b0
  let res ← loopE cfg (b1.inp.length + 1) r.core b1 []
  pure ({ core := res.1, buf := res.2.1.trimToPos }, res.2.2)

end Amshan.Hdlc
