/-
  Common vocabulary of the models.  Import-free (Lean core only) so that the driver links as a
  native executable.
-/
namespace Amshan

/-- A Python exception class, as far as the models distinguish them. -/
inductive PyExc where
  | valueError | unicodeError | keyError | indexError | typeError | attributeError
  | overflowError | constructSoft | constructExplicit
  deriving Repr, DecidableEq, BEq, Inhabited

def PyExc.name : PyExc → String
  | .valueError => "ValueError"
  | .unicodeError => "UnicodeDecodeError"
  | .keyError => "KeyError"
  | .indexError => "IndexError"
  | .typeError => "TypeError"
  | .attributeError => "AttributeError"
  | .overflowError => "OverflowError"
  | .constructSoft => "ConstructError"
  | .constructExplicit => "ExplicitError"

deriving instance DecidableEq for Except

/-- Python `bytes`: every element is an octet. -/
def Octets (bs : List Nat) : Prop := ∀ b ∈ bs, b < 256

instance (bs : List Nat) : Decidable (Octets bs) := by unfold Octets; infer_instance

/-- Python slice `xs[a:b]` for `0 ≤ a`, `0 ≤ b`. -/
def slice (xs : List α) (a b : Nat) : List α := (xs.take b).drop a

/-- Python slice `xs[a:-k]` for `0 ≤ a`, `k > 0`. -/
def sliceNegEnd (xs : List α) (a k : Nat) : List α := (xs.take (xs.length - k)).drop a

end Amshan
