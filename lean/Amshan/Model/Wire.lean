import Amshan.Model.Basic
/-
  Text helpers for the line protocol of the driver (hex octet strings, option rendering).
-/
namespace Amshan.Wire

def hexDigit (n : Nat) : Char :=
  if n < 10 then Char.ofNat (48 + n) else Char.ofNat (87 + n)

def hexOfOctets (bs : List Nat) : String :=
  if bs.isEmpty then "-" else
  String.ofList (bs.foldr (fun b acc => hexDigit (b / 16 % 16) :: hexDigit (b % 16) :: acc) [])

def hexVal? (c : Char) : Option Nat :=
  if '0' ≤ c ∧ c ≤ '9' then some (c.toNat - 48)
  else if 'a' ≤ c ∧ c ≤ 'f' then some (c.toNat - 87)
  else if 'A' ≤ c ∧ c ≤ 'F' then some (c.toNat - 55)
  else none

def octetsOfHexChars : List Char → Option (List Nat)
  | [] => some []
  | a :: b :: rest =>
    match hexVal? a, hexVal? b, octetsOfHexChars rest with
    | some x, some y, some r => some ((x * 16 + y) :: r)
    | _, _, _ => none
  | _ => none

def octetsOfHex? (s : String) : Option (List Nat) :=
  if s == "-" then some [] else octetsOfHexChars s.toList

def optNat : Option Nat → String
  | some n => toString n
  | none => "N"

def optInt : Option Int → String
  | some n => toString n
  | none => "N"

def optHex : Option (List Nat) → String
  | some bs => hexOfOctets bs
  | none => "N"

def optBool : Option Bool → String
  | some true => "1"
  | some false => "0"
  | none => "N"

def bool01 (b : Bool) : String := if b then "1" else "0"

/-- chunk list: "." = no chunks, otherwise comma separated hex ("-" = empty chunk) -/
def chunksOf? (s : String) : Option (List (List Nat)) :=
  if s == "." then some [] else (s.splitOn ",").mapM octetsOfHex?

/-- text transported as hex of its code points (all < 256 in this protocol) -/
def stringOfHex? (s : String) : Option String :=
  (octetsOfHex? s).map (fun bs => String.ofList (bs.map Char.ofNat))

def hexOfString (s : String) : String := hexOfOctets (s.toList.map Char.toNat)

end Amshan.Wire
