import Amshan.Model.Hdlc
import Amshan.Model.Wire
/- Canonical rendering of HDLC observations for the line protocol. -/
namespace Amshan.Hdlc
open Amshan.Wire

/-- everything `observe_at` of C01 names, for one frame -/
def Frame.render (f : Frame) : String :=
  String.intercalate ":" [
    hexOfOctets f.data, bool01 f.isValid, optHex f.payload, optNat f.fcsField, optNat f.frameLength,
    optHex f.dest, optHex f.src, optNat f.control, optNat f.hcs, optNat f.formatType,
    optBool f.segmentation, bool01 f.isGoodFfc, bool01 f.isExpectedLength]

def renderFrames (fs : List Frame) : String :=
  if fs.isEmpty then "." else String.intercalate " " (fs.map Frame.render)

def Reader.renderState (r : Reader) : String :=
  String.intercalate "," [toString r.buf.size, toString r.buf.consumed, toString r.core.raw.length,
    (match r.core.frame with | some f => toString f.len | none => "N"), bool01 r.core.unescapeNext]

/-- run a call sequence, rendering the frames and the state after every call -/
def readAllRender (cfg : Cfg) : Reader → List (List Nat) → List String
  | _, [] => []
  | r, ch :: chs =>
    let r1 := read cfg r ch
    (renderFrames r1.2 ++ " @" ++ r1.1.renderState) :: readAllRender cfg r1.1 chs

end Amshan.Hdlc
