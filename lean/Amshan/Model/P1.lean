import Amshan.Generated
import Amshan.Model.PyStr
/-
  Model of han/dlde.py, reader side: _calculate_crc16, Ident (identification-line pattern),
  DataReadout, ModeDReader, _ReaderBuffer.   (Parsing/decoding of the data block: Model/P1Parse.lean.)
  Not modelled: logging; the content of the buffer before the read position (only its length).
-/
namespace Amshan.P1
open Amshan.Gen Amshan.Py

/-! ### CRC16 -/

/-- inner loop of `_calculate_crc16`: one bit -/
def crcBit (crc : Nat) : Nat := if crc &&& 1 = 1 then (crc >>> 1) ^^^ crc16Poly else crc >>> 1

def crcBits : Nat → Nat → Nat
  | 0, crc => crc
  | n + 1, crc => crcBits n (crcBit crc)

def crcByte (crc byte : Nat) : Nat := crcBits 8 (crc ^^^ byte)

/-- `_calculate_crc16` over a buffer -/
def crc16 (buf : List Nat) : Nat := buf.foldl crcByte 0

/-! ### Ident: deterministic equivalent of
    `^\/(?P<MANID>[A-Z][A-Z][a-zA-Z])(?P<BAUDID>\d)((\\\w)*)(?P<ID>[ -~]{1,16})?(\r\n)?$`
    (the pattern text is pinned in Props/C04.lean against the regenerated `identPatternSrc`) -/

/-- drop the maximal run of backslash + word-character pairs -/
def dropEscPairs : List Nat → List Nat
  | 92 :: w :: rest => if isWord w then dropEscPairs rest else 92 :: w :: rest
  | s => s

structure IdentMatch where
  manid : List Nat
  ident : Option (List Nat)
  deriving Repr, DecidableEq, Inhabited

/-- `_ident_pattern.match(line)` -/
def identMatch (line : List Nat) : Option IdentMatch :=
  match line with
  | 47 :: a :: b :: c :: d :: rest =>
    if isUpper a && isUpper b && isAlpha c && isDigit d then
      let rest := dropEscPairs rest
      let ident := rest.takeWhile isPrintable
      let tail := rest.dropWhile isPrintable
      -- `(\r\n)?$` : end of string, or just before a final "\n"
      if ident.length ≤ 16 && (tail == [] || tail == [10] || tail == [13, 10] || tail == [13, 10, 10]) then
        some { manid := [a, b, c], ident := if ident.isEmpty then none else some ident }
      else none
    else none
  | _ => none

/-- `Ident.is_ident_line` -/
def isIdentLine (line : List Nat) : Bool := (identMatch line).isSome

/-! ### DataReadout -/

structure Readout where
  /-- `_readout` (after `lstrip`) -/
  bytes : List Nat
  /-- `_end_pos`: index of the first '!' -/
  endPos : Nat
  /-- `_data_pos`: index after the first LF (0 when there is none) -/
  dataPos : Nat
  deriving Repr, DecidableEq, Inhabited

/-- `DataReadout.__init__` -/
def Readout.make (raw : List Nat) : Except PyExc Readout :=
  let r := lstripBytes raw
  match r with
  | [] => .error .indexError
  | b :: _ =>
    if b != p1Start then .error .valueError
    else
      match find r p1End with
      | none => .error .valueError
      | some e =>
        .ok { bytes := r, endPos := e, dataPos := match find r p1Lf with | some i => i + 1 | none => 0 }

/-- `_calculated_crc` : over `_readout[0 : _end_pos + 1]` -/
def Readout.calcCrc (r : Readout) : Nat := crc16 (r.bytes.take (r.endPos + 1))

/-- `payload` -/
def Readout.payload (r : Readout) : List Nat := slice r.bytes r.dataPos r.endPos

/-- `end_line` -/
def Readout.endLine (r : Readout) : Except PyExc (List Nat) := do
  let s ← decodeAscii (r.bytes.drop r.endPos)
  pure (strip s)

/-- `expected_checksum` -/
def Readout.expectedChecksum (r : Readout) : Except PyExc (Option Int) := do
  let e ← r.endLine
  if e.length > 1 then do
    let v ← intBase16 (strip (e.drop 1))
    pure (some v)
  else pure none

/-- `identification_line` : `Ident(self._readout[: self._data_pos].decode("ascii").strip())` -/
def Readout.identLine (r : Readout) : Except PyExc IdentMatch := do
  let s ← decodeAscii (r.bytes.take r.dataPos)
  match identMatch (strip s) with
  | some m => pure m
  | none => .error .valueError

def isValueError : PyExc → Bool
  | .valueError => true
  | .unicodeError => true      -- UnicodeDecodeError is a subclass of ValueError
  | _ => false

/-- `is_valid` (a ValueError from the end line or the identification line means "not valid";
    any other exception propagates) -/
def Readout.isValid (r : Readout) : Except PyExc Bool :=
  match r.expectedChecksum with
  | .error e => if isValueError e then .ok false else .error e
  | .ok expected =>
    if (match expected with | some v => decide ((r.calcCrc : Int) ≠ v) | none => false) then .ok false
    else
      match r.identLine with
      | .error e => if isValueError e then .ok false else .error e
      | .ok _ =>
        -- `char > 0x80 or char == b"!"` : the second test compares an int with bytes, never true
        .ok ((r.payload).all (fun ch => !(decide (ch > 0x80))))

/-! ### _ReaderBuffer / ModeDReader -/

structure Buf where
  consumed : Nat
  inp : List Nat
  deriving Repr, DecidableEq, Inhabited

def Buf.empty : Buf := { consumed := 0, inp := [] }
def Buf.size (b : Buf) : Nat := b.consumed + b.inp.length
def Buf.extend (b : Buf) (chunk : List Nat) : Buf := { b with inp := b.inp ++ chunk }
def Buf.trimToPos (b : Buf) : Buf := { b with consumed := 0 }
def notStart (x : Nat) : Bool := x != p1Start
def notLf (x : Nat) : Bool := x != p1Lf
def Buf.trimToFlagOrEnd (b : Buf) : Buf := { consumed := 0, inp := b.inp.dropWhile notStart }

/-- `pop()` : one line including its LF, when the unread part contains an LF -/
def Buf.pop (b : Buf) : Option (List Nat × Buf) :=
  let line := b.inp.takeWhile notLf
  match b.inp.dropWhile notLf with
  | [] => none
  | lf :: rest => some (line ++ [lf], { consumed := b.consumed + line.length + 1, inp := rest })

structure Reader where
  buf : Buf
  /-- `_raw_data` -/
  raw : List Nat
  /-- `_is_int_hunt_mode` -/
  hunt : Bool
  deriving Repr, DecidableEq, Inhabited

def Reader.init : Reader := { buf := Buf.empty, raw := [], hunt := true }

def Reader.size (r : Reader) : Nat := r.buf.size + r.raw.length

theorem length_dropWhile_le (p : Nat → Bool) (l : List Nat) : (l.dropWhile p).length ≤ l.length := by
  induction l with
  | nil => simp
  | cons a t ih =>
    simp only [List.dropWhile]
    split
    · simp only [List.length_cons]; omega
    · simp

/-- handle one popped line; returns new (raw, hunt) and the readout completed by it -/
def handleLine (raw : List Nat) (hunt : Bool) (line : List Nat) :
    Except PyExc (List Nat × Bool × Option Readout) :=
  if hunt then
    match line with
    | [] => .error .indexError               -- `line[0]` (a popped line is never empty)
    | c :: _ =>
      if c == p1Start && isAscii line then do
        let s ← decodeAscii line
        if isIdentLine s then pure (raw ++ line, false, none) else pure (raw, true, none)
      else pure (raw, true, none)
  else
    let raw := raw ++ line
    match line with
    | [] => .error .indexError
    | c :: _ =>
      if c == p1End then do
        let ro ← Readout.make raw
        pure ([], true, some ro)
      else pure (raw, false, none)

/-- the `while True:` loop of `read()` -/
def loop (b : Buf) (raw : List Nat) (hunt : Bool) (out : List Readout) :
    Except PyExc (Reader × List Readout) :=
  match h : b.pop with
  | none => .ok ({ buf := b, raw := raw, hunt := hunt }, out)
  | some (line, b1) =>
    match handleLine raw hunt line with
    | .error e => .error e
    | .ok (raw1, hunt1, ro) => loop b1 raw1 hunt1 (out ++ ro.toList)
termination_by b.inp.length
decreasing_by
  simp only [Buf.pop] at h
  split at h
  · simp at h
  · rename_i lf rest heq
    simp only [Option.some.injEq, Prod.mk.injEq] at h
    have hlen : (b.inp.dropWhile notLf).length ≤ b.inp.length := length_dropWhile_le _ _
    rw [heq] at hlen
    rw [← h.2]
    simp only [List.length_cons] at hlen
    simp_wf
    omega

/-- `ModeDReader.read(data_chunk)` -/
def read (r : Reader) (chunk : List Nat) : Except PyExc (Reader × List Readout) :=
  let b := r.buf.trimToPos
  let over := decide (b.inp.length + r.raw.length > p1Guard)
  let hunt := if over then true else r.hunt
  let raw := if over then [] else r.raw
  let b := if over then Buf.empty else b
  let b := b.extend chunk
  let b := if hunt then b.trimToFlagOrEnd else b
  loop b raw hunt []

/-- a sequence of `read()` calls; stops at the first exception -/
def readAll (r : Reader) : List (List Nat) → Except PyExc (Reader × List (List Readout))
  | [] => .ok (r, [])
  | ch :: chs =>
    match read r ch with
    | .error e => .error e
    | .ok (r1, o1) =>
      match readAll r1 chs with
      | .error e => .error e
      | .ok (r2, o2) => .ok (r2, o1 :: o2)

end Amshan.P1
