import Amshan.Model.Basic
/-
  Model of han/meter_connection.py: SmartMeterBaseProtocol.data_received,
  SmartMeterMessageProtocol.message_received, SmartMeterMessagePayloadProtocol.message_received,
  generic in the candidate readers (any state type, any total `read`).
-/
namespace Amshan.Proto

/-- what the protocols look at in a message -/
structure Msg where
  /-- `is_valid` -/
  valid : Bool
  /-- `payload` -/
  payload : Option (List Nat)
  /-- identity of the message object (its octets), for the message protocol -/
  bytes : List Nat
  deriving Repr, DecidableEq, Inhabited

/-- a candidate reader: some state and a `read` function -/
structure Rd where
  σ : Type
  st : σ
  read : σ → List Nat → σ × List Msg

/-- call `reader.read(data)` -/
def Rd.feed (r : Rd) (data : List Nat) : Rd × List Msg :=
  let res := r.read r.st data
  ({ r with st := res.1 }, res.2)

/-- all the messages a reader reports for a chunk sequence, chunk by chunk -/
def Rd.feedAll (r : Rd) : List (List Nat) → List (List Msg)
  | [] => []
  | ch :: chs => let res := r.feed ch; res.2 :: Rd.feedAll res.1 chs

inductive Kind where
  | message   -- SmartMeterMessageProtocol
  | payload   -- SmartMeterMessagePayloadProtocol
  deriving Repr, DecidableEq, Inhabited

/-- queue items -/
inductive Item where
  | msg (m : Msg)
  | payload (p : List Nat)
  deriving Repr, DecidableEq, Inhabited

/-- `message_received` : what is put on the queue for one message -/
def received (k : Kind) (m : Msg) : List Item :=
  match k with
  | .message => [Item.msg m]
  | .payload =>
    if m.valid then
      match m.payload with
      | some p => if p.length > 0 then [Item.payload p] else []
      | none => []
    else []

structure State where
  /-- `_selected_reader` with its original candidate index -/
  selected : Option (Nat × Rd)
  /-- `_reader_candidates` -/
  candidates : List Rd

/-- the `for reader in self._reader_candidates` loop of `data_received` (no reader selected yet):
    returns the updated candidates, and the selected reader (index, reader, its messages) if any -/
def trySelect (data : List Nat) : List Rd → Nat → List Rd × Option (Nat × Rd × List Msg)
  | [], _ => ([], none)
  | r :: rs, i =>
    let res := r.feed data
    if res.2.any (·.valid) then (res.1 :: rs, some (i, res.1, res.2))
    else
      let rest := trySelect data rs (i + 1)
      (res.1 :: rest.1, rest.2)

/-- `data_received(data)`; returns the items put on the queue by this call -/
def dataReceived (k : Kind) (s : State) (data : List Nat) : State × List Item :=
  match s.selected with
  | some (i, r) =>
    let res := r.feed data
    ({ s with selected := some (i, res.1) }, res.2.flatMap (received k))
  | none =>
    match trySelect data s.candidates 0 with
    | (_, some (i, r, msgs)) => ({ selected := some (i, r), candidates := [] }, msgs.flatMap (received k))
    | (cands, none) => ({ selected := none, candidates := cands }, [])

/-- the queue after a sequence of `data_received` calls -/
def runAll (k : Kind) (s : State) : List (List Nat) → State × List Item
  | [] => (s, [])
  | ch :: chs =>
    let r1 := dataReceived k s ch
    let r2 := runAll k r1.1 chs
    (r2.1, r1.2 ++ r2.2)

def State.init (cands : List Rd) : State := { selected := none, candidates := cands }

end Amshan.Proto
