import Amshan.Model.Hdlc
import Amshan.Spec.HdlcWire
/- Definitions shared by the HDLC property statements. -/
namespace Amshan.Hdlc
open Amshan.Gen Amshan.HdlcSpec

/-- readers reachable from a new reader by `read()` calls -/
def Reachable (cfg : Cfg) (r : Reader) : Prop := ∃ chunks, r = (readAll cfg Reader.init chunks).1

/-- the frame object the reader must deliver for a well-formed frame -/
def expectedFrame (d : FrameDesc) : Frame :=
  { data := d.encode, crc := fcsGood, ctlPos := some (d.headLen - 1) }

/-- invariant of every frame object the reader builds -/
def FrameInv (f : Frame) : Prop :=
  f.crc = Fcs.feed fcsInit f.data ∧ f.ctlPos = controlPos f.data ∧ Octets f.data

def CoreInv (c : Core) : Prop :=
  match c.frame with
  | some f => FrameInv f
  | none => True

end Amshan.Hdlc
