import Amshan.Model.Protocol
/-
  The state of `SmartMeterBaseProtocol` as the Python object holds it - the record that the mechanically translated
  `data_received` (Amshan/GeneratedCodeProto.lean) takes and answers: `_selected_reader` (a reader or None) and
  `_reader_candidates` (a list of readers).  The model's `Proto.State` additionally remembers WHICH candidate was
  selected (its index in the original list: the identity of the reader object, which the theorems of C13 speak
  about); `State.erase` forgets it.
-/
namespace Amshan.Proto

/-- a reader that reports nothing (the translation is total: a method of None uses it; never reached under the guards) -/
instance : Inhabited Rd := ⟨{ σ := Unit, st := (), read := fun _ _ => ((), []) }⟩

structure PyState where
  /-- `_selected_reader` -/
  selected : Option Rd
  /-- `_reader_candidates` -/
  candidates : List Rd

/-- the Python object's view of a model state -/
def State.erase (s : State) : PyState := { selected := s.selected.map (·.2), candidates := s.candidates }

end Amshan.Proto
