import Amshan.Model.Cosem
/- Model of han/aidon.py -/
namespace Amshan.Aidon
open Amshan.Gen Amshan.Cosem

inductive Content where
  | str (s : List Nat)
  | dt (d : DT)
  /-- `unscaled_value` (None when the type is not one of the three numeric ones), scaler exponent -/
  | num (unscaled : Option Int) (exponent : Int)
  deriving Repr, DecidableEq, Inhabited

structure Element where
  obis : List Nat      -- six octets
  content : Content
  deriving Repr, DecidableEq, Inhabited

/-- `ScalerUnitField` : structure(2) { integer exponent, enum unit } -/
def scalerUnit (s : List Nat) : Res Int :=
  (constByte tStructure s).bind fun _ r => (constByte 2 r).bind fun _ r =>
  (constByte tInt8 r).bind fun _ r => (s8 r).bind fun e r =>
  (constByte tEnum r).bind fun _ r => (u8 r).bind fun _unit r => .ok e r

/-- `aidon.Element` -/
def element (s : List Nat) : Res Element :=
  (constByte tStructure s).bind fun _ r => (u8 r).bind fun _len r =>
  (obisField r).bind fun obis r => (u8 r).bind fun t r =>
    if t = tVisible then (visibleString r).bind fun v r => .ok ⟨obis, .str v⟩ r
    else if t = tOctet then (dateTime r).bind fun d r => .ok ⟨obis, .dt d⟩ r
    else
      let unscaled : Res (Option Int) :=
        if t = tU32 then (u32 r).bind fun v r => .ok (some (v : Int)) r
        else if t = tInt16 then (s16 r).bind fun v r => .ok (some v) r
        else if t = tU16 then (u16 r).bind fun v r => .ok (some (v : Int)) r
        else .ok none r        -- Switch without default: `Pass`
      unscaled.bind fun u r => (scalerUnit r).bind fun e r =>
        match u with
        | some _ => .ok ⟨obis, .num u e⟩ r
        | none => .py .typeError      -- `None * Decimal`

def elements : Nat → List Nat → Res (List Element)
  | 0, s => .ok [] s
  | n + 1, s => (element s).bind fun e r => (elements n r).bind fun es r' => .ok (e :: es) r'

/-- `NotificationBody` : array tag, length, that many elements -/
def notificationBody (s : List Nat) : Res (List Element) :=
  (constByte tArray s).bind fun _ r => (u8 r).bind fun n r => elements n r

/-- value = unscaled × 10^exponent : int when equal to the unscaled value, else `float(Decimal)` -/
def numVal (u : Int) (e : Int) : Val :=
  if e = 0 ∨ u = 0 then .int u
  else if e > 0 then .flt (Flt.ofRat (decide (u < 0)) (u.natAbs * 10 ^ e.toNat) 1)
  else .flt (Flt.ofRat (decide (u < 0)) u.natAbs (10 ^ (-e).toNat))

/-- `_normalize_parsed_items` -/
def normalize (items : List Element) : Dict :=
  items.foldl (fun d el =>
    let name := match el.obis with
      | [_, _, c, dd, e, _] => fieldName c dd e
      | _ => ""
    match el.content with
    | .str s => d.set name (.str s)
    | .dt t => d.set name (.dt t)
    | .num (some u) e => d.set name (numVal u e)
    | .num none _ => d) [(field_METER_MANUFACTURER, Val.str (Py.ofString "Aidon"))]

/-- `decode_notification_body` -/
def decodeBody (s : List Nat) : Out :=
  ((notificationBody s).bind fun items r => .ok (normalize items) r).toOut

/-- `decode_frame_content` -/
def decodeFrame (s : List Nat) : Out :=
  ((llc notificationBody s).bind fun p r => .ok (normalize p.2) r).toOut

end Amshan.Aidon
