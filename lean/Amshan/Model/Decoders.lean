import Amshan.Model.Aidon
import Amshan.Model.Kaifa
import Amshan.Model.Kamstrup
import Amshan.Model.P1Parse
import Amshan.Model.AutoDecoder
import Amshan.Model.Hdlc
import Amshan.Model.Wire
/-
  The seven decoder functions of AutoDecoder.payload_decoder_functions, the concrete AutoDecoder
  (decode_message_payload / decode_message) and canonical rendering of decoder results.
-/
namespace Amshan.Dec
open Amshan.Gen Amshan.Cosem Amshan.Auto

def ofOut : Out → Except PyExc Dict
  | .dict d => .ok d
  | .construct => .error .constructSoft
  | .exc e => .error e

def decoderByName (name : String) : Option (Decoder (List Nat) Dict) :=
  match name with
  | "Aidon_frame" => some (fun p => ofOut (Aidon.decodeFrame p))
  | "Kaifa_frame" => some (fun p => ofOut (Kaifa.decodeFrame p))
  | "Kamstrup_frame" => some (fun p => ofOut (Kamstrup.decodeFrame p))
  | "P1" => some P1Parse.decodeContent
  | "Aidon_notification_body" => some (fun p => ofOut (Aidon.decodeBody p))
  | "Kaifa_notification_body" => some (fun p => ofOut (Kaifa.decodeBody p))
  | "Kamstrup_notification_body" => some (fun p => ofOut (Kamstrup.decodeBody p))
  | _ => none

/-- `AutoDecoder.payload_decoder_functions`, in the order read from the source -/
def decoders : List (Decoder (List Nat) Dict) := decoderOrder.filterMap decoderByName

def caught : PyExc → Bool := caughtBy caughtPayload

/-- `decode_message_payload` -/
def stepPayload (prev : Option Nat) (p : List Nat) : Except PyExc (Option Nat × Option Dict) :=
  step decoders caught prev p

/-- the messages `decode_message` can be given -/
inductive Message where
  | hdlc (f : Hdlc.Frame)
  | dlms (b : List Nat)
  | p1 (r : P1.Readout)
  deriving Repr, Inhabited

def Message.payload : Message → Option (List Nat)
  | .hdlc f => f.payload
  | .dlms b => some b
  | .p1 r => some r.payload

/-- decoders as `decode_message` uses them: for a P1 readout the "P1" entry decodes the readout
    with its identification line -/
def decodersFor (m : Message) : List (Decoder (List Nat) Dict) :=
  decoderOrder.filterMap fun name =>
    match name, m with
    | "P1", .p1 r => some (fun _ => P1Parse.decodeReadout r)
    | _, _ => decoderByName name

/-- `decode_message` -/
def stepMessage (prev : Option Nat) (m : Message) : Except PyExc (Option Nat × Option Dict) :=
  match m.payload with
  | none => .ok (prev, none)
  | some p => if p.isEmpty then .ok (prev, none) else step (decodersFor m) (caughtBy caughtMessage) prev p

/-! ### rendering -/
open Amshan.Wire

def renderDT (d : DT) : String :=
  String.intercalate "-" [toString d.year, toString d.month, toString d.day, toString d.hour, toString d.minute,
    toString d.second, toString d.micro, optInt d.tz]

def renderVal : Val → String
  | .int z => "i" ++ toString z
  | .flt f => "f" ++ Flt.render f
  | .str s => "s" ++ hexOfOctets s
  | .dt d => "d" ++ renderDT d
  | .obj k => "o" ++ k

def insertSorted (kv : String × String) : List (String × String) → List (String × String)
  | [] => [kv]
  | x :: xs => if kv.1 < x.1 then kv :: x :: xs else x :: insertSorted kv xs

def renderDict (d : Dict) : String :=
  let kvs := d.foldl (fun acc (k, v) => insertSorted (k, renderVal v) acc) []
  "{" ++ String.intercalate "," (kvs.map fun (k, v) => k ++ "=" ++ v) ++ "}"

def renderResult : Except PyExc Dict → String
  | .ok d => renderDict d
  | .error e => e.name

end Amshan.Dec
