import Amshan.Generated
import Amshan.Model.PyStr
/-
  Model of han/obis.py: `to_obis_tupple` (deterministic equivalent of `re.match` with the combined
  STANDARD|REDUCED pattern, pinned in Props/C20.lean), `Obis.to_reduced_str`, `__str__`, `__eq__`,
  `__hash__`, `to_group_cdr_str`.  Strings are code-point lists (ASCII input only; `\d` on
  non-ASCII digits is not modelled).
-/
namespace Amshan.Obis
open Amshan.Py

abbrev Groups := Option Nat × Option Nat × Nat × Nat × Option Nat × Option Nat

/-- greedy `\d{0,3}` : the maximal digit prefix, at most three characters -/
def digits03 (s : List Nat) : List Nat × List Nat :=
  match s with
  | a :: b :: c :: r =>
    if isDigit a then
      if isDigit b then
        if isDigit c then ([a, b, c], r) else ([a, b], c :: r)
      else ([a], b :: c :: r)
    else ([], s)
  | [a, b] => if isDigit a then (if isDigit b then ([a, b], []) else ([a], [b])) else ([], s)
  | [a] => if isDigit a then ([a], []) else ([], s)
  | [] => ([], [])

/-- `\d{0,3}` followed by the literal `c` (no shorter digit run can succeed: the next character
    would be a digit) -/
def digitsThen (s : List Nat) (c : Nat) : Option (List Nat × List Nat) :=
  match digits03 s with
  | (d, x :: r) => if x == c then some (d, r) else none
  | (_, []) => none

/-- the six captured groups of a match, as text (`none` = group did not participate) -/
structure Match where
  reduced : Bool
  a : Option (List Nat)
  b : Option (List Nat)
  c : List Nat
  d : List Nat
  e : Option (List Nat)
  f : Option (List Nat)
  deriving Repr, DecidableEq, Inhabited

/-- alternative `(?P<STANDARD>…)` -/
def matchStandard (s : List Nat) : Option Match := do
  let (a, s) ← digitsThen s 46
  let (b, s) ← digitsThen s 46
  let (c, s) ← digitsThen s 46
  let (d, s) ← digitsThen s 46
  let (e, s) ← digitsThen s 46
  let (f, _) := digits03 s
  pure { reduced := false, a := some a, b := some b, c := c, d := d, e := some e, f := some f }

/-- alternative `(?P<REDUCED>…)` -/
def matchReduced (s : List Nat) : Option Match :=
  let (a, s) := match digitsThen s 45 with
    | some (a, r) => (some a, r)
    | none => (none, s)
  let (b, s) := match digitsThen s 58 with
    | some (b, r) => (some b, r)
    | none => (none, s)
  match digitsThen s 46 with
  | none => none
  | some (c, s) =>
    let (d, s) := digits03 s
    let (e, s) := match s with
      | 46 :: r => let (e, r') := digits03 r; (some e, r')
      | _ => (none, s)
    let f := match s with
      | 42 :: r => some (digits03 r).1
      | _ => none
    some { reduced := true, a := a, b := b, c := c, d := d, e := e, f := f }

/-- `_obis_pattern.match(obis_code)` : STANDARD is tried first -/
def reMatch (s : List Nat) : Option Match :=
  match matchStandard s with
  | some m => some m
  | none => matchReduced s

/-- `int(text)` for a captured group (digits only, possibly empty → ValueError) -/
def intOfDigits (t : List Nat) : Except PyExc Nat :=
  if t.isEmpty then .error .valueError else .ok (t.foldl (fun acc c => acc * 10 + (c - 48)) 0)

/-- `int(g) if g else None` -/
def optInt (g : Option (List Nat)) : Except PyExc (Option Nat) :=
  match g with
  | none => .ok none
  | some t => if t.isEmpty then .ok none else (intOfDigits t).map some

/-- `to_obis_tupple(obis_code)` -/
def parse (s : List Nat) : Except PyExc Groups :=
  match reMatch s with
  | none => .error .valueError
  | some m =>
    if m.reduced then do
      -- `if match.group("REDUCED")` is truthy: a REDUCED match is never empty (it contains '.')
      let a ← optInt m.a
      let b ← optInt m.b
      let c ← intOfDigits m.c
      let d ← intOfDigits m.d
      let e ← optInt m.e
      let f ← optInt m.f
      pure (a, b, c, d, e, f)
    else do
      let a ← intOfDigits (m.a.getD [])
      let b ← intOfDigits (m.b.getD [])
      let c ← intOfDigits m.c
      let d ← intOfDigits m.d
      let e ← intOfDigits (m.e.getD [])
      let f ← optInt m.f
      pure (some a, some b, c, d, some e, f)

/-- decimal text of a natural number, as `f"{n}"` -/
def showNat (n : Nat) : List Nat :=
  if n < 10 then [48 + n]
  else if n < 100 then [48 + n / 10, 48 + n % 10]
  else if n < 1000 then [48 + n / 100, 48 + n / 10 % 10, 48 + n % 10]
  else (Nat.repr n).toList.map Char.toNat

/-- `f"{x}"` for `Optional[int]` -/
def showOpt : Option Nat → List Nat
  | some n => showNat n
  | none => [78, 111, 110, 101]   -- "None"

def truthy : Option Nat → Bool
  | some n => n != 0
  | none => false

/-- `Obis.to_reduced_str` -/
def toReducedStr (g : Groups) : List Nat :=
  let (a, b, c, d, e, f) := g
  (if truthy a then showOpt a ++ [45] else []) ++
  (if truthy b then showOpt b ++ [58] else []) ++
  showNat c ++ [46] ++ showNat d ++
  (if truthy e then [46] ++ showOpt e else []) ++
  (if truthy f then [42] ++ showOpt f else [])

/-- `Obis.__str__` : `all(self._groups)` -/
def toStr (g : Groups) : List Nat :=
  let (a, b, c, d, e, f) := g
  if truthy a && truthy b && c != 0 && d != 0 && truthy e && truthy f then
    showOpt a ++ [46] ++ showOpt b ++ [46] ++ showNat c ++ [46] ++ showNat d ++ [46] ++ showOpt e ++ [46] ++ showOpt f
  else toReducedStr g

/-- `to_group_cdr_str` -/
def cdeStr (g : Groups) : List Nat :=
  let (_, _, c, d, e, _) := g
  showNat c ++ [46] ++ showNat d ++ [46] ++ showOpt e

/-- `Obis.__eq__(other)` for another `Obis` -/
def eqObis (g h : Groups) : Bool := decide (g = h)

/-- `Obis.__eq__(other)` for a string: parse first, `False` on ValueError -/
def eqStr (g : Groups) (s : List Nat) : Bool :=
  match parse s with
  | .ok h => decide (g = h)
  | .error _ => false

/-- `__hash__` = hash of the group tuple (modelled as the tuple itself) -/
def hashKey (g : Groups) : Groups := g

end Amshan.Obis
