import Amshan.Model.Fcs
/-
  Model of han/hdlc.py: HdlcFrameHeader, HdlcFrame, HdlcFrameReader, _ReaderBuffer.

  Two presentations of the reader:
  * `read` / `loop`  — buffer level, function by function as in the source (needed for C19, C06);
  * `stepOctet` / `run` — one octet at a time (used by most theorems).
  `Lemmas/HdlcRun.lean` proves them equal (that proof *is* the chunk-independence mechanism).

  Not modelled: logging; the cached `_is_header_good` (never observable); the content of the
  buffer before the read position (only its length, `Buf.consumed`).
-/
namespace Amshan.Hdlc
open Amshan.Gen

structure Cfg where
  stuffing : Bool
  abort : Bool
  deriving Repr, DecidableEq, Inhabited

/-! ### HdlcFrameHeader / HdlcFrame -/

/-- the `while True` loop of `_get_address`, on the octets from `position` on. -/
def getAddressFrom : List Nat → Option (List Nat)
  | [] => none
  | c :: cs => if c % 2 = 1 then some [c] else (getAddressFrom cs).map (c :: ·)

/-- `HdlcFrameHeader._get_address(position)` -/
def getAddress (d : List Nat) (pos : Nat) : Option (List Nat) :=
  if d.length > pos then getAddressFrom (d.drop pos) else none

/-- `destination_address` -/
def destAddr (d : List Nat) : Option (List Nat) :=
  if d.length ≥ 2 then getAddress d 2 else none

/-- `source_address` -/
def srcAddr (d : List Nat) : Option (List Nat) :=
  match destAddr d with
  | some dst => getAddress d (2 + dst.length)
  | none => none

/-- `_get_control_field_position` -/
def controlPos (d : List Nat) : Option Nat :=
  match destAddr d with
  | some dst =>
    match srcAddr d with
    | some src => some (2 + dst.length + src.length)
    | none => none
  | none => none

structure Frame where
  /-- `_frame_data` -/
  data : List Nat
  /-- `_ffc._crc_value` -/
  crc : Nat
  /-- `_header._control_position` (cached once found) -/
  ctlPos : Option Nat
  deriving Repr, DecidableEq, Inhabited

def Frame.empty : Frame := { data := [], crc := fcsInit, ctlPos := none }

/-- `HdlcFrame.append(byte)` : data, running FCS register, `header.update()` -/
def Frame.append (f : Frame) (b : Nat) : Frame :=
  let data := f.data ++ [b]
  { data := data
    crc := Fcs.next f.crc b
    ctlPos := match f.ctlPos with
      | some p => some p
      | none => if data.length > 3 then controlPos data else none }

def Frame.len (f : Frame) : Nat := f.data.length

/-- `header.frame_format` -/
def Frame.frameFormat (f : Frame) : Option Nat :=
  match f.data with
  | a :: b :: _ => some ((a <<< 8) ||| b)
  | _ => none

/-- `header.frame_length` (11 bits) -/
def Frame.frameLength (f : Frame) : Option Nat := f.frameFormat.map (· &&& 0x7FF)

/-- `header.frame_format_type` -/
def Frame.formatType (f : Frame) : Option Nat := f.frameFormat.map (fun x => (x >>> 12) &&& 0xF)

/-- `header.segmentation` -/
def Frame.segmentation (f : Frame) : Option Bool := f.frameFormat.map (fun x => ((x >>> 11) &&& 1) == 1)

def Frame.dest (f : Frame) : Option (List Nat) := destAddr f.data
def Frame.src (f : Frame) : Option (List Nat) := srcAddr f.data

/-- `header.control` -/
def Frame.control (f : Frame) : Option Nat :=
  match f.ctlPos with
  | some p => if f.len > p then f.data[p]? else none
  | none => none

/-- `header.header_check_sequence` -/
def Frame.hcs (f : Frame) : Option Nat :=
  match f.ctlPos with
  | some p =>
    if f.len > p + 2 then
      match f.data[p + 1]?, f.data[p + 2]? with
      | some a, some b => some ((a <<< 8) ||| b)
      | _, _ => none
    else none
  | none => none

/-- `header.information_position` -/
def Frame.infoPos (f : Frame) : Option Nat := f.ctlPos.map (· + 3)

/-- `frame_check_sequence` -/
def Frame.fcsField (f : Frame) : Option Nat :=
  match f.infoPos with
  | some ip =>
    if f.len ≥ ip then
      match f.data[f.len - 2]?, f.data[f.len - 1]? with
      | some a, some b => some ((a <<< 8) ||| b)
      | _, _ => none
    else none
  | none => none

/-- `payload` : `_frame_data[info_position:-2]` -/
def Frame.payload (f : Frame) : Option (List Nat) :=
  match f.infoPos with
  | some ip => if f.len > ip then some (sliceNegEnd f.data ip 2) else none
  | none => none

def Frame.isGoodFfc (f : Frame) : Bool := Fcs.isGood f.crc

/-- `is_expected_length` : `header.frame_length == len(self)` (`None == int` is False) -/
def Frame.isExpectedLength (f : Frame) : Bool := f.frameLength == some f.len

/-- `is_valid` -/
def Frame.isValid (f : Frame) : Bool := f.isGoodFfc && f.isExpectedLength

/-! ### HdlcFrameReader: the part of the state that does not concern the input buffer -/

structure Core where
  /-- `_unescape_next` -/
  unescapeNext : Bool
  /-- `_raw_frame_data` -/
  raw : List Nat
  /-- `_frame` (`none` = hunt mode) -/
  frame : Option Frame
  deriving Repr, DecidableEq, Inhabited

def Core.init : Core := { unescapeNext := false, raw := [], frame := none }

/-- what `_read_next` asks the read loop to do next -/
inductive Act where
  | cont      -- nothing
  | complete  -- `frame_complete = True`
  | hunt      -- `_goto_hunt_mode()` was called: the buffer is trimmed to the next flag
  deriving Repr, DecidableEq, Inhabited

def notFlag (x : Nat) : Bool := x != flagOctet

/-- `_start_frame` -/
def startFrame (_c : Core) : Core := { unescapeNext := false, raw := [], frame := some Frame.empty }

/-- `_goto_hunt_mode`, without the buffer trimming (which `loop` performs on `Act.hunt`) -/
def gotoHunt (c : Core) : Core := { c with frame := none, unescapeNext := false }

/-- `_append_to_frame(current)`; `f` is the current frame (`assert self._frame is not None`) -/
def appendToFrame (cfg : Cfg) (c : Core) (f : Frame) (x : Nat) : Core :=
  let raw := c.raw ++ [x]
  if cfg.stuffing then
    if c.unescapeNext then
      { unescapeNext := false, raw := raw, frame := some (f.append (x ^^^ escXor)) }
    else if x = escOctet then
      { unescapeNext := true, raw := raw, frame := some f }
    else
      { unescapeNext := false, raw := raw, frame := some (f.append x) }
  else
    { c with raw := raw, frame := some (f.append x) }

/-- `_handle_flag_sequence` -/
def handleFlag (cfg : Cfg) (c : Core) : Core × Act :=
  match c.frame with
  | none => (startFrame c, .cont)
  | some f =>
    if f.len = 0 then ({ c with raw := [], unescapeNext := false }, .cont)
    else if f.hcs.isNone then (gotoHunt c, .hunt)
    else if cfg.abort && decide (c.raw.length > 1) && (c.raw.getLast? == some escOctet) then
      (gotoHunt c, .hunt)
    else if cfg.stuffing then (c, .complete)
    else if f.isExpectedLength then (c, .complete)
    else
      let c1 := appendToFrame cfg c f flagOctet
      match c1.frame with
      | some f1 => if f1.len > maxFrameLen then (gotoHunt c1, .hunt) else (c1, .cont)
      | none => (c1, .cont)

/-- `_read_next`, for the popped octet `x` -/
def readNext (cfg : Cfg) (c : Core) (x : Nat) : Core × Act :=
  if x = flagOctet then handleFlag cfg c
  else
    match c.frame with
    | none => (c, .cont)
    | some f =>
      let c1 := appendToFrame cfg c f x
      match c1.frame with
      | some f1 => if f1.len > maxFrameLen then (gotoHunt c1, .hunt) else (c1, .cont)
      | none => (c1, .cont)

/-! ### one octet at a time -/

/-- consume one input octet; returns the frames completed by it (at most one) -/
def stepOctet (cfg : Cfg) (c : Core) (x : Nat) : Core × List Frame :=
  match readNext cfg c x with
  | (c1, .cont) => (c1, [])
  | (c1, .hunt) => (c1, [])
  | (c1, .complete) => (startFrame c1, c1.frame.toList)

def run (cfg : Cfg) (c : Core) : List Nat → Core × List Frame
  | [] => (c, [])
  | x :: xs =>
    let r1 := stepOctet cfg c x
    let r2 := run cfg r1.1 xs
    (r2.1, r1.2 ++ r2.2)

/-! ### buffer level, as in the source -/

structure Buf where
  /-- `_buffer_pos`: octets kept in the bytearray before the read position -/
  consumed : Nat
  /-- `_buffer[_buffer_pos:]` -/
  inp : List Nat
  deriving Repr, DecidableEq, Inhabited

def Buf.empty : Buf := { consumed := 0, inp := [] }
def Buf.size (b : Buf) : Nat := b.consumed + b.inp.length
def Buf.extend (b : Buf) (chunk : List Nat) : Buf := { b with inp := b.inp ++ chunk }
/-- `trim_buffer_to_current_position` -/
def Buf.trimToPos (b : Buf) : Buf := { b with consumed := 0 }
/-- `trim_buffer_to_flag_or_end` -/
def Buf.trimToFlagOrEnd (b : Buf) : Buf := { consumed := 0, inp := b.inp.dropWhile notFlag }

theorem length_dropWhile_le (p : Nat → Bool) (l : List Nat) : (l.dropWhile p).length ≤ l.length := by
  induction l with
  | nil => simp
  | cons a t ih =>
    simp only [List.dropWhile]
    split
    · simp only [List.length_cons]; omega
    · simp

/-- the `while self._buffer.is_available:` loop of `read()` -/
def loop (cfg : Cfg) (c : Core) (b : Buf) (out : List Frame) : Core × Buf × List Frame :=
  match _h : b.inp with
  | [] => (c, b, out)
  | x :: rest =>
    let b1 : Buf := { consumed := b.consumed + 1, inp := rest }   -- `pop()`
    match readNext cfg c x with
    | (c1, .cont) => loop cfg c1 b1 out
    | (c1, .hunt) => loop cfg c1 b1.trimToFlagOrEnd out
    | (c1, .complete) => loop cfg (startFrame c1) b1.trimToPos (out ++ c1.frame.toList)
termination_by b.inp.length
decreasing_by
  all_goals simp_wf
  all_goals (try simp only [_h, Buf.trimToPos, Buf.trimToFlagOrEnd, List.length_cons])
  all_goals first
    | omega
    | (have := length_dropWhile_le notFlag rest; omega)

structure Reader where
  core : Core
  buf : Buf
  deriving Repr, DecidableEq, Inhabited

def Reader.init : Reader := { core := Core.init, buf := Buf.empty }

/-- `HdlcFrameReader.read(data_chunk)` -/
def read (cfg : Cfg) (r : Reader) (chunk : List Nat) : Reader × List Frame :=
  let b0 := r.buf.extend chunk
  let b1 := if r.core.frame.isNone then b0.trimToFlagOrEnd else b0
  let res := loop cfg r.core b1 []
  ({ core := res.1, buf := res.2.1.trimToPos }, res.2.2)

/-- a sequence of `read()` calls; per-call results -/
def readAll (cfg : Cfg) (r : Reader) : List (List Nat) → Reader × List (List Frame)
  | [] => (r, [])
  | ch :: chs =>
    let r1 := read cfg r ch
    let r2 := readAll cfg r1.1 chs
    (r2.1, r1.2 :: r2.2)

/-- logical size retained by the reader object (C19) -/
def Reader.size (r : Reader) : Nat :=
  r.buf.size + r.core.raw.length + (match r.core.frame with | some f => f.len | none => 0)

end Amshan.Hdlc
