def hello := "world"
