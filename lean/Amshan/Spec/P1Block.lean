import Amshan.Model.Basic
/-
  Specification side of C11: the syntax of an IEC 62056-21 data block (data sets `address(value*unit)…`,
  several per line, blank lines, LF or CR LF line ends) and its rendering.
-/
namespace Amshan.P1BlockSpec

structure ValueDesc where
  value : List Nat
  unit : Option (List Nat)
  deriving Repr, DecidableEq, Inhabited

structure DataSetDesc where
  address : List Nat
  values : List ValueDesc        -- 1..n
  deriving Repr, DecidableEq, Inhabited

/-- a line: data sets back to back, then the line end (`crlf` or just LF) -/
structure LineDesc where
  sets : List DataSetDesc        -- empty = blank line
  crlf : Bool
  deriving Repr, DecidableEq, Inhabited

/-- characters allowed in addresses, values and units: printable except ( ) * / ! -/
def plainChar (c : Nat) : Bool := 32 < c && c ≤ 126 && c != 40 && c != 41 && c != 42 && c != 47 && c != 33

def renderValue (v : ValueDesc) : List Nat :=
  [40] ++ v.value ++ (match v.unit with | some u => [42] ++ u | none => []) ++ [41]

def renderSet (d : DataSetDesc) : List Nat := d.address ++ d.values.flatMap renderValue

def renderLine (l : LineDesc) : List Nat := l.sets.flatMap renderSet ++ (if l.crlf then [13, 10] else [10])

def render (b : List LineDesc) : List Nat := b.flatMap renderLine

def ValueDesc.WF (v : ValueDesc) : Prop :=
  v.value.all plainChar = true ∧ (match v.unit with | some u => u.all plainChar = true | none => True)

def DataSetDesc.WF (d : DataSetDesc) : Prop :=
  d.address ≠ [] ∧ d.address.all plainChar = true ∧ d.values ≠ [] ∧ ∀ v ∈ d.values, v.WF

def LineDesc.WF (l : LineDesc) : Prop := ∀ d ∈ l.sets, d.WF

end Amshan.P1BlockSpec
