import Amshan.Model.Protocol
/-
  Specification side of C13, stated in terms of each candidate reader's OWN message stream
  (`Rd.feedAll`): which reader is selected, at which chunk, and what must be on the queue.
-/
namespace Amshan.ProtoSpec
open Amshan.Proto

/-- messages candidate `i` reports in chunk `k` when it is fed the whole chunk sequence -/
def msgsAt (cands : List Rd) (chunks : List (List Nat)) (i k : Nat) : List Msg :=
  match cands[i]? with
  | some r => (r.feedAll chunks).getD k []
  | none => []

/-- first candidate (in list order) reporting a valid message in chunk `k` -/
def firstValidCand (cands : List Rd) (chunks : List (List Nat)) (k : Nat) : Option Nat :=
  (List.range cands.length).find? (fun i => (msgsAt cands chunks i k).any (·.valid))

/-- the selection: earliest chunk in which some candidate reports a valid message, then the first
    such candidate in list order -/
def selection (cands : List Rd) (chunks : List (List Nat)) : Option (Nat × Nat) :=
  (List.range chunks.length).findSome? (fun k => (firstValidCand cands chunks k).map (fun i => (k, i)))

/-- the messages of the selected reader from the selection chunk on -/
def forwarded (cands : List Rd) (chunks : List (List Nat)) : List Msg :=
  match selection cands chunks with
  | some (k, i) =>
    match cands[i]? with
    | some r => ((r.feedAll chunks).drop k).flatten
    | none => []
  | none => []

/-- non-empty payload of a valid message -/
def goodPayload (m : Msg) : Option (List Nat) :=
  if m.valid then
    match m.payload with
    | some p => if p.isEmpty then none else some p
    | none => none
  else none

end Amshan.ProtoSpec
