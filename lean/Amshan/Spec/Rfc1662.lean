import Amshan.Model.Basic
/-
  Specification: the bit-serial FCS-16 of RFC 1662 (appendix C): generator polynomial
  x^16 + x^12 + x^5 + 1, reflected (0x8408), initial value 0xFFFF, bits of each octet processed
  least-significant first, result complemented.  No table, nothing taken from the repository.
-/
namespace Amshan.Rfc1662

def poly : Nat := 0x8408

/-- shift one message bit (`bit ∈ {0,1}`) into the register. -/
def stepBit (crc bit : Nat) : Nat :=
  if (crc ^^^ bit) % 2 = 1 then (crc >>> 1) ^^^ poly else crc >>> 1

/-- shift the `n` low-order bits of `byte` into the register, least significant first. -/
def stepBits : Nat → Nat → Nat → Nat
  | 0, crc, _ => crc
  | n + 1, crc, byte => stepBits n (stepBit crc (byte % 2)) (byte / 2)

/-- one octet -/
def stepSerial (crc byte : Nat) : Nat := stepBits 8 crc byte

/-- the register after a message (before complementing) -/
def register (bs : List Nat) : Nat := bs.foldl stepSerial 0xFFFF

/-- the FCS-16 of a message -/
def fcs16 (bs : List Nat) : Nat := register bs ^^^ 0xFFFF

end Amshan.Rfc1662
