import Amshan.Model.Cosem
/-
  Specification side of C07–C10: how COSEM date-times, typed values and the Aidon / Kaifa / Kamstrup
  push lists are laid out on the wire (encoders of well-formed descriptors) and which dictionary a
  decoder must return for them.  Tags are the Blue Book's (not taken from the repository).
-/
namespace Amshan.ListSpec
open Amshan.Cosem

/-! ### COSEM date-time (12 octets + length octet) -/

structure DateTimeDesc where
  year : Nat
  month : Nat
  day : Nat
  dow : Nat
  hour : Nat
  minute : Nat
  second : Nat
  hundredths : Option Nat      -- none = 0xFF (not specified)
  deviation : Option Int       -- minutes, none = 0x8000 (not specified)
  status : Nat
  deriving Repr, DecidableEq, Inhabited

def dev16 (d : Option Int) : Nat :=
  match d with
  | none => 0x8000
  | some v => if v < 0 then (65536 + v).toNat else v.toNat

def encDateTime (d : DateTimeDesc) : List Nat :=
  [0x0C, d.year / 256, d.year % 256, d.month, d.day, d.dow, d.hour, d.minute, d.second,
   (match d.hundredths with | some h => h | none => 0xFF),
   dev16 d.deviation / 256, dev16 d.deviation % 256, d.status]

def DateTimeDesc.Valid (d : DateTimeDesc) : Prop :=
  1 ≤ d.year ∧ d.year ≤ 9999 ∧ 1 ≤ d.month ∧ d.month ≤ 12 ∧ 1 ≤ d.day ∧ d.day ≤ daysInMonth d.year d.month ∧
  d.dow < 256 ∧ d.hour ≤ 23 ∧ d.minute ≤ 59 ∧ d.second ≤ 59 ∧
  (match d.hundredths with | some h => h ≤ 99 | none => True) ∧
  (match d.deviation with | some v => -720 ≤ v ∧ v ≤ 720 | none => True) ∧ d.status < 256

instance (d : DateTimeDesc) : Decidable d.Valid := by
  unfold DateTimeDesc.Valid
  cases d.hundredths <;> cases d.deviation <;> infer_instance

/-- the instant the meter sent -/
def expectedDT (d : DateTimeDesc) : DT :=
  { year := d.year, month := d.month, day := d.day, hour := d.hour, minute := d.minute, second := d.second,
    micro := (match d.hundredths with | some h => h * 10000 | none => 0),
    tz := d.deviation.map (fun v => -v) }

/-! ### typed values -/

def be16 (v : Nat) : List Nat := [v / 256 % 256, v % 256]
def be32 (v : Nat) : List Nat := [v / 16777216 % 256, v / 65536 % 256, v / 256 % 256, v % 256]
def twos16 (v : Int) : Nat := if v < 0 then (65536 + v).toNat else v.toNat
def twos8 (v : Int) : Nat := if v < 0 then (256 + v).toNat else v.toNat

def printable (s : List Nat) : Prop := ∀ c ∈ s, 32 ≤ c ∧ c ≤ 126
instance (s : List Nat) : Decidable (printable s) := by unfold printable; infer_instance

/-- 7-bit ASCII, control characters and NUL included (what an Aidon visible-string may carry verbatim) -/
def ascii7 (s : List Nat) : Prop := ∀ c ∈ s, c < 128
instance (s : List Nat) : Decidable (ascii7 s) := by unfold ascii7; infer_instance

def Obis6 (o : List Nat) : Prop := o.length = 6 ∧ ∀ b ∈ o, b < 256
instance (o : List Nat) : Decidable (Obis6 o) := by unfold Obis6; infer_instance

def encObis (o : List Nat) : List Nat := [9, 6] ++ o

/-- APDU date-time forms -/
inductive ApduClock where
  | null                         -- 00
  | tagged (d : DateTimeDesc)    -- 09 0C …
  | untagged (d : DateTimeDesc)  -- 0C …
  deriving Repr, DecidableEq, Inhabited

def encApduClock : ApduClock → List Nat
  | .null => [0]
  | .tagged d => [9] ++ encDateTime d
  | .untagged d => encDateTime d

/-- LLC header (dsap ssap control), APDU tag, long-invoke-id-and-priority -/
structure Header where
  llc : List Nat       -- three octets
  tag : Nat
  invoke : List Nat    -- four octets
  clock : ApduClock
  deriving Repr, DecidableEq, Inhabited

def Header.WF (h : Header) : Prop :=
  h.llc.length = 3 ∧ h.invoke.length = 4 ∧
  (match h.clock with | .null => True | .tagged d => d.Valid | .untagged d => d.Valid)

def encHeader (h : Header) : List Nat := h.llc ++ [h.tag] ++ h.invoke ++ encApduClock h.clock

/-! ### Aidon -/

inductive RegType where
  | u32 | s16 | u16
  deriving Repr, DecidableEq, Inhabited

inductive AidonElem where
  | text (obis : List Nat) (s : List Nat)
  | clock (obis : List Nat) (d : DateTimeDesc)
  | reg (obis : List Nat) (ty : RegType) (value : Int) (scaler : Int) (unit : Nat)
  deriving Repr, DecidableEq, Inhabited

def encReg (ty : RegType) (v : Int) : List Nat :=
  match ty with
  | .u32 => [6] ++ be32 v.toNat
  | .s16 => [16] ++ be16 (twos16 v)
  | .u16 => [18] ++ be16 v.toNat

def regInRange (ty : RegType) (v : Int) : Prop :=
  match ty with
  | .u32 => 0 ≤ v ∧ v < 4294967296
  | .s16 => -32768 ≤ v ∧ v < 32768
  | .u16 => 0 ≤ v ∧ v < 65536

instance (ty : RegType) (v : Int) : Decidable (regInRange ty v) := by unfold regInRange; cases ty <;> infer_instance

def encAidonElem : AidonElem → List Nat
  | .text o s => [2, 2] ++ encObis o ++ [10, s.length] ++ s
  | .clock o d => [2, 2] ++ encObis o ++ [9] ++ encDateTime d
  | .reg o ty v sc u => [2, 3] ++ encObis o ++ encReg ty v ++ [2, 2, 15, twos8 sc, 22, u]

def AidonElem.WF : AidonElem → Prop
  | .text o s => Obis6 o ∧ ascii7 s ∧ s.length ≤ 255
  | .clock o d => Obis6 o ∧ d.Valid
  | .reg o ty v sc u => Obis6 o ∧ regInRange ty v ∧ -128 ≤ sc ∧ sc ≤ 127 ∧ u < 256

def encAidonBody (es : List AidonElem) : List Nat := [1, es.length] ++ es.flatMap encAidonElem

def obisName (o : List Nat) : String :=
  match o with
  | [_, _, c, d, e, _] => fieldName c d e
  | _ => ""

/-- register × 10^scaler: the integer itself when that is integral-and-equal, otherwise the
    correctly rounded double (`Flt.ofRat` rounds to nearest, ties to even) -/
def scaledValue (v : Int) (sc : Int) : Val :=
  if sc = 0 ∨ v = 0 then .int v
  else if sc > 0 then .flt (Flt.ofRat (decide (v < 0)) (v.natAbs * 10 ^ sc.toNat) 1)
  else .flt (Flt.ofRat (decide (v < 0)) v.natAbs (10 ^ (-sc).toNat))

def aidonExpected (es : List AidonElem) : Dict :=
  es.foldl (fun d el =>
    match el with
    | .text o s => d.set (obisName o) (.str s)
    | .clock o t => d.set (obisName o) (.dt (expectedDT t))
    | .reg o _ v sc _ => d.set (obisName o) (scaledValue v sc)) [("meter_manufacturer", Val.str (Py.ofString "Aidon"))]

/-! ### Kaifa -/

inductive KVal where
  | text (s : List Nat)        -- octet string 09 len …
  | u32 (v : Nat)              -- 06 …
  | clock (d : DateTimeDesc)   -- 09 0C …
  deriving Repr, DecidableEq, Inhabited

def encKVal : KVal → List Nat
  | .text s => [9, s.length] ++ s
  | .u32 v => [6] ++ be32 v
  | .clock d => [9] ++ encDateTime d

def KVal.WF : KVal → Prop
  | .text s => printable s ∧ s.length ≤ 255
  | .u32 v => v < 4294967296
  | .clock d => d.Valid

/-- positional (bare value) list -/
def encKaifaValues (vs : List KVal) : List Nat := [2, vs.length] ++ vs.flatMap encKVal

/-- OBIS-tagged list: 2·k fields -/
def encKaifaObis (es : List (List Nat × KVal)) : List Nat :=
  [2, 2 * es.length] ++ es.flatMap (fun p => encObis p.1 ++ encKVal p.2)

/-- correctly rounded register / 10^k -/
def divPow10 (v : Nat) (k : Nat) : Val := .flt (Flt.ofRat false v (10 ^ k))

/-- documented scaling: currents /1000, voltages /10, everything else unchanged -/
def kaifaScaled (name : String) (v : Nat) : Val :=
  if name = "current_l1" ∨ name = "current_l2" ∨ name = "current_l3" then divPow10 v 3
  else if name = "voltage_l1" ∨ name = "voltage_l2" ∨ name = "voltage_l3" then divPow10 v 1
  else .int v

def kaifaVal (name : String) : KVal → Val
  | .text s => .str s
  | .u32 v => kaifaScaled name v
  | .clock d => .dt (expectedDT d)

/-- the documented positional layouts (Norwegian HAN specification, Kaifa): lists 1, 2 (one and three phase),
    3 (one and three phase) -/
def kaifaLayout (n : Nat) : Option (List String) :=
  let l3three := ["list_ver_id", "meter_id", "meter_type", "active_power_import", "active_power_export",
    "reactive_power_import", "reactive_power_export", "current_l1", "current_l2", "current_l3",
    "voltage_l1", "voltage_l2", "voltage_l3", "meter_datetime", "active_power_import_total",
    "active_power_export_total", "reactive_power_import_total", "reactive_power_export_total"]
  let l3single := l3three.take 8 ++ [l3three.getD 10 ""] ++ l3three.drop 13
  if n = 1 then some ["active_power_import"]
  else if n = 9 then some (l3single.take 9)
  else if n = 13 then some (l3three.take 13)
  else if n = 14 then some l3single
  else if n = 18 then some l3three
  else none

/-- a positional list is well typed: texts in the three id positions, a clock in the clock position,
    32-bit registers elsewhere; the version id is not 6 characters long (it would look like an OBIS
    code to the OBIS-tagged grammar, which is tried first) -/
def kaifaPosOk (name : String) : KVal → Prop
  | .text s => (name = "list_ver_id" ∧ s.length ≠ 6) ∨ name = "meter_id" ∨ name = "meter_type"
  | .u32 _ => name ≠ "list_ver_id" ∧ name ≠ "meter_id" ∧ name ≠ "meter_type" ∧ name ≠ "meter_datetime"
  | .clock _ => name = "meter_datetime"

def KaifaValuesWF (vs : List KVal) : Prop :=
  ∃ names, kaifaLayout vs.length = some names ∧ (∀ v ∈ vs, v.WF) ∧
    ∀ i (h : i < vs.length), kaifaPosOk (names.getD i "") vs[i]

def kaifaValuesExpected (apdu : Option DT) (vs : List KVal) : Dict :=
  let d0 : Dict := [("meter_manufacturer", Val.str (Py.ofString "Kaifa"))]
  let d1 := match apdu with | some t => d0.set "meter_datetime" (.dt t) | none => d0
  let names := (kaifaLayout vs.length).getD []
  (List.zip names vs).foldl (fun d p => d.set p.1 (kaifaVal p.1 p.2)) d1

def kaifaObisExpected (es : List (List Nat × KVal)) : Dict :=
  es.foldl (fun d p => d.set (obisName p.1) (kaifaVal (obisName p.1) p.2))
    [("meter_manufacturer", Val.str (Py.ofString "Kaifa"))]

/-! ### Kamstrup -/

inductive KamVal where
  | text (s : List Nat)        -- visible string 0A len …
  | u32 (v : Nat)
  | u16 (v : Nat)
  | clock (d : DateTimeDesc)   -- 09 0C …
  deriving Repr, DecidableEq, Inhabited

def encKamVal : KamVal → List Nat
  | .text s => [10, s.length] ++ s
  | .u32 v => [6] ++ be32 v
  | .u16 v => [18] ++ be16 v
  | .clock d => [9] ++ encDateTime d

def KamVal.WF : KamVal → Prop
  | .text s => printable s ∧ s.length ≤ 255
  | .u32 v => v < 4294967296
  | .u16 v => v < 65536
  | .clock d => d.Valid

/-- an OBIS-tagged element followed by `pad` null-data octets -/
structure KamElem where
  obis : List Nat
  value : KamVal
  pad : Nat
  deriving Repr, DecidableEq, Inhabited

structure KamList where
  lenOctet : Nat            -- the structure's length octet (ignored by the decoder)
  version : List Nat        -- list-version string
  versionPad : Nat
  elems : List KamElem
  deriving Repr, DecidableEq, Inhabited

def encKamList (l : KamList) : List Nat :=
  [2, l.lenOctet] ++ [10, l.version.length] ++ l.version ++ List.replicate l.versionPad 0 ++
    l.elems.flatMap (fun e => encObis e.obis ++ encKamVal e.value ++ List.replicate e.pad 0)

/-- the OBIS code's C.D.E is one the decoder knows (others are a KeyError in the decoder), and a
    clock value appears exactly under the clock code -/
def kamKnown (o : List Nat) : Prop :=
  match o with
  | [_, _, c, d, e, _] => (Amshan.Gen.obisNameMap.lookup (cdeText c d e)).isSome
  | _ => False

instance (o : List Nat) : Decidable (kamKnown o) := by
  unfold kamKnown; split <;> infer_instance

def KamElem.WF (e : KamElem) : Prop :=
  Obis6 e.obis ∧ e.value.WF ∧ kamKnown e.obis ∧
  (match e.value with | .clock _ => obisName e.obis = "meter_datetime" | _ => obisName e.obis ≠ "meter_datetime")

def KamList.WF (l : KamList) : Prop :=
  l.lenOctet < 256 ∧ printable l.version ∧ l.version.length ≤ 255 ∧ ∀ e ∈ l.elems, e.WF

/-- meter type number of a list: the text value under OBIS 1.1.96.1.1.255 (first occurrence) -/
def kamMeterType (l : KamList) : Option (List Nat) :=
  match l.elems.find? (fun e => e.obis = [1, 1, 96, 1, 1, 255]) with
  | some e => (match e.value with | .text s => some s | _ => none)
  | none => none

def kamIsCt (l : KamList) : Bool :=
  match kamMeterType l with
  | some s => [54, 56, 53].isPrefixOf s       -- "685"
  | none => false

/-- documented scaling by full OBIS code: currents /100 (CT meters /1000), energies ×10 -/
def kamScaled (ct : Bool) (o : List Nat) (v : Nat) : Val :=
  if o = [1, 1, 31, 7, 0, 255] ∨ o = [1, 1, 51, 7, 0, 255] ∨ o = [1, 1, 71, 7, 0, 255] then
    divPow10 v (if ct then 3 else 2)
  else if o = [1, 1, 1, 8, 0, 255] ∨ o = [1, 1, 2, 8, 0, 255] ∨ o = [1, 1, 3, 8, 0, 255] ∨ o = [1, 1, 4, 8, 0, 255] then
    .int (v * 10)
  else .int v

def kamVal (ct : Bool) (o : List Nat) : KamVal → Val
  | .text s => .str s
  | .u32 v => kamScaled ct o v
  | .u16 v => kamScaled ct o v
  | .clock d => .dt (expectedDT d)

def kamExpected (l : KamList) : Dict :=
  l.elems.foldl (fun d e => d.set (obisName e.obis) (kamVal (kamIsCt l) e.obis e.value))
    [("meter_manufacturer", Val.str (Py.ofString "Kamstrup")), ("list_ver_id", Val.str l.version)]

end Amshan.ListSpec
