import Amshan.Model.Basic
/-
  Specification side of C20: how OBIS codes are written (IEC 62056-61 reduced ID and the six-part
  dotted form) and what "contains a digit-dot-digit sequence" means.
-/
namespace Amshan.ObisSpec

def isDigit (c : Nat) : Bool := 48 ≤ c && c ≤ 57

/-- decimal text of n (n < 1000) without leading zeros -/
def dec (n : Nat) : List Nat :=
  if n < 10 then [48 + n]
  else if n < 100 then [48 + n / 10, 48 + n % 10]
  else [48 + n / 100, 48 + n / 10 % 10, 48 + n % 10]

/-- reduced form  [A-][B:]C.D[.E][*F] -/
def reduced (a b : Option Nat) (c d : Nat) (e f : Option Nat) : List Nat :=
  (match a with | some a => dec a ++ [45] | none => []) ++
  (match b with | some b => dec b ++ [58] | none => []) ++
  dec c ++ [46] ++ dec d ++
  (match e with | some e => [46] ++ dec e | none => []) ++
  (match f with | some f => [42] ++ dec f | none => [])

/-- six-part dotted form  A.B.C.D.E.F -/
def standard (a b c d e f : Nat) : List Nat :=
  dec a ++ [46] ++ dec b ++ [46] ++ dec c ++ [46] ++ dec d ++ [46] ++ dec e ++ [46] ++ dec f

/-- the string contains a digit, a dot and a digit in a row -/
def hasDigitDotDigit : List Nat → Bool
  | a :: b :: c :: rest => (isDigit a && b == 46 && isDigit c) || hasDigitDotDigit (b :: c :: rest)
  | _ => false

def optLe (x : Option Nat) (n : Nat) : Prop := match x with | some v => v ≤ n | none => True

instance (x : Option Nat) (n : Nat) : Decidable (optLe x n) := by unfold optLe; split <;> infer_instance

end Amshan.ObisSpec
