import Amshan.Model.Basic
import Amshan.Spec.Rfc1662
/-
  Specification side of the HDLC properties (C01 C02 C16): what a well-formed frame is
  (ISO/IEC 13239 frame format type 3 as used by DLMS), how it appears on the wire, what "intact"
  means, and what it means for frames to be carved out of a stream.
  Nothing here is taken from the repository (constants are the standard's).
-/
namespace Amshan.HdlcSpec
open Amshan.Rfc1662

def flag : Nat := 0x7E
def esc : Nat := 0x7D

/-- an HDLC address field: 1..n octets, every octet but the last even, the last odd -/
def addrWF : List Nat → Bool
  | [] => false
  | [x] => x % 2 == 1
  | x :: xs => x % 2 == 0 && addrWF xs

/-- FCS of `bs`, low octet first, as transmitted -/
def fcsLE (bs : List Nat) : List Nat := [fcs16 bs % 256, fcs16 bs / 256]

structure FrameDesc where
  fmt : Nat          -- 4-bit format type
  seg : Bool         -- segmentation bit
  dst : List Nat
  src : List Nat
  ctl : Nat
  info : List Nat
  deriving Repr, DecidableEq, Inhabited

namespace FrameDesc

/-- octets up to and including the control field -/
def headLen (d : FrameDesc) : Nat := 2 + d.dst.length + d.src.length + 1

/-- announced frame length: header + HCS, and information + FCS when there is information -/
def totalLen (d : FrameDesc) : Nat :=
  d.headLen + 2 + (if d.info.isEmpty then 0 else d.info.length + 2)

def format (d : FrameDesc) : Nat := d.fmt * 4096 + (if d.seg then 2048 else 0) + d.totalLen

/-- header without check sequence -/
def head (d : FrameDesc) : List Nat :=
  [d.format / 256, d.format % 256] ++ d.dst ++ d.src ++ [d.ctl]

/-- the octets of the frame between the flags -/
def encode (d : FrameDesc) : List Nat :=
  let h := d.head ++ fcsLE d.head
  if d.info.isEmpty then h else h ++ d.info ++ fcsLE (h ++ d.info)

def WF (d : FrameDesc) : Prop :=
  d.fmt < 16 ∧ addrWF d.dst = true ∧ addrWF d.src = true ∧ d.ctl < 256 ∧
  Octets d.dst ∧ Octets d.src ∧ Octets d.info ∧ d.totalLen ≤ 2047

instance (d : FrameDesc) : Decidable d.WF := by unfold WF; infer_instance

end FrameDesc

/-- RFC 1662 octet stuffing of the flag and escape octets -/
def stuff : List Nat → List Nat
  | [] => []
  | b :: bs => if b = flag ∨ b = esc then esc :: (b ^^^ 0x20) :: stuff bs else b :: stuff bs

/-- inverse transformation; a trailing lone escape octet is dropped -/
def unstuff : List Nat → List Nat
  | [] => []
  | [b] => if b = esc then [] else [b]
  | b :: c :: rest => if b = esc then (c ^^^ 0x20) :: unstuff rest else b :: unstuff (c :: rest)

def onWire (stuffing : Bool) (d : FrameDesc) : List Nat :=
  if stuffing then stuff d.encode else d.encode

/-- Domain of C02 for a configuration: with stuffing every well-formed frame; without it the header
    (through the HCS) contains no flag, and with abort detection no escape octet stands directly
    before a flag octet or the frame end. -/
def escBeforeFlagOrEnd : List Nat → Bool
  | [] => false
  | [b] => b == esc
  | b :: c :: rest => (b == esc && c == flag) || escBeforeFlagOrEnd (c :: rest)

def InDomain (stuffing abort : Bool) (d : FrameDesc) : Prop :=
  stuffing = true ∨
    (flag ∉ d.encode.take (d.headLen + 2) ∧ (abort = true → escBeforeFlagOrEnd d.encode = false))

instance (s a : Bool) (d : FrameDesc) : Decidable (InDomain s a d) := by unfold InDomain; infer_instance

/-- a clean stream: flag-free noise, then each frame preceded by `fill ≥ 1` flags, then `closing ≥ 1`
    flags -/
def wire (stuffing : Bool) (noise : List Nat) (fs : List (FrameDesc × Nat)) (closing : Nat) : List Nat :=
  noise ++ (fs.flatMap fun p => List.replicate p.2 flag ++ onWire stuffing p.1) ++ List.replicate closing flag

/-- C01: a frame is intact when its length field equals its octet count and its last two octets are
    the FCS-16 of the preceding ones, low octet first. -/
def Intact (d : List Nat) : Prop :=
  (match d with
   | a :: b :: _ => ((a <<< 8 ||| b) &&& 0x7FF) = d.length
   | _ => False) ∧
  ∃ m t0 t1, d = m ++ [t0, t1] ∧ t0 = fcs16 m % 256 ∧ t1 = fcs16 m / 256

/-- C01 framing: `Carve input segs` — the segments occur contiguously in the input, each between two
    flag octets, in stream order, without sharing any octet (a closing flag may be the opening flag
    of the next segment). -/
inductive Carve : List Nat → List (List Nat) → Prop
  | nil (rest : List Nat) : Carve rest []
  | cons (junk seg rest : List Nat) (segs : List (List Nat)) :
      Carve (flag :: rest) segs →
      Carve (junk ++ flag :: seg ++ flag :: rest) (seg :: segs)

/-- what the frame octets are in terms of the raw octets between the two flags -/
def decode (stuffing : Bool) (seg : List Nat) : List Nat := if stuffing then unstuff seg else seg

end Amshan.HdlcSpec
