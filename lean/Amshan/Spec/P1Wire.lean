import Amshan.Model.Basic
/-
  Specification side of the P1 (IEC 62056-21 mode D) properties C04 C05 C16 C19:
  CRC-16/ARC, checksum text, well-formed readouts and their wire encoding.
  Nothing here is taken from the repository.
-/
namespace Amshan.P1Spec

/-- CRC-16/ARC (polynomial x^16+x^15+x^2+1 reflected = 0xA001, initial value 0, no final xor),
    bit-serial, least significant bit first -/
def crcShift (crc : Nat) : Nat := if crc % 2 = 1 then (crc / 2) ^^^ 0xA001 else crc / 2

def crcShifts : Nat → Nat → Nat
  | 0, crc => crc
  | n + 1, crc => crcShifts n (crcShift crc)

def crc16Arc (bs : List Nat) : Nat := bs.foldl (fun crc b => crcShifts 8 (crc ^^^ b)) 0

def hexVal? (c : Nat) : Option Nat :=
  if 48 ≤ c ∧ c ≤ 57 then some (c - 48)
  else if 65 ≤ c ∧ c ≤ 70 then some (c - 55)
  else if 97 ≤ c ∧ c ≤ 102 then some (c - 87)
  else none

/-- the text after '!' is a checksum with value `v`: exactly four hex digits (either case),
    optionally followed by CR LF or LF -/
def IsChecksumText (t : List Nat) (v : Nat) : Prop :=
  ∃ a b c d ta tb tc td term, t = [a, b, c, d] ++ term ∧
    hexVal? a = some ta ∧ hexVal? b = some tb ∧ hexVal? c = some tc ∧ hexVal? d = some td ∧
    v = ((ta * 16 + tb) * 16 + tc) * 16 + td ∧ (term = [] ∨ term = [10] ∨ term = [13, 10])

def hexUpper (n : Nat) : Nat := if n < 10 then 48 + n else 55 + n
def hexLower (n : Nat) : Nat := if n < 10 then 48 + n else 87 + n

/-- four hex digits of a 16-bit value -/
def hex4 (lower : Bool) (v : Nat) : List Nat :=
  let h := if lower then hexLower else hexUpper
  [h (v / 4096 % 16), h (v / 256 % 16), h (v / 16 % 16), h (v % 16)]

def isUpper (c : Nat) : Bool := 65 ≤ c && c ≤ 90
def isAlpha (c : Nat) : Bool := (65 ≤ c && c ≤ 90) || (97 ≤ c && c ≤ 122)
def isDigit (c : Nat) : Bool := 48 ≤ c && c ≤ 57
def isWord (c : Nat) : Bool := isAlpha c || isDigit c || c == 95
def isPrintable (c : Nat) : Bool := 32 ≤ c && c ≤ 126

structure ReadoutDesc where
  /-- manufacturer FLAG id: three letters, the first two upper case -/
  man : List Nat
  /-- baud-rate identification digit -/
  baud : Nat
  /-- escape sequences: each word character `w` is sent as backslash `w` -/
  escs : List Nat
  /-- identification: up to 16 printable characters except '/' and '!' -/
  ident : List Nat
  /-- data lines (without their CR LF) -/
  lines : List (List Nat)
  /-- `some lower` : a checksum follows '!' (hex digits in lower case when `lower`) -/
  checksum : Option Bool
  deriving Repr, DecidableEq, Inhabited

namespace ReadoutDesc

def identLine (d : ReadoutDesc) : List Nat :=
  [47] ++ d.man ++ [d.baud] ++ d.escs.flatMap (fun w => [92, w]) ++ d.ident ++ [13, 10]

/-- everything from '/' through '!' -/
def body (d : ReadoutDesc) : List Nat :=
  d.identLine ++ d.lines.flatMap (· ++ [13, 10]) ++ [33]

def encode (d : ReadoutDesc) : List Nat :=
  d.body ++ (match d.checksum with | some lower => hex4 lower (crc16Arc d.body) | none => []) ++ [13, 10]

/-- the bytes strictly between the identification line and '!' -/
def payload (d : ReadoutDesc) : List Nat := d.lines.flatMap (· ++ [13, 10])

def dataChar (c : Nat) : Bool := isPrintable c && c != 33 && c != 47

/-- identification does not begin with what would be read as one more escape sequence, and does
    not end with a space (the identification line is stripped before it is matched) -/
def identOk (i : List Nat) : Bool :=
  i.length ≤ 16 && i.all dataChar &&
  (match i with | 92 :: w :: _ => !isWord w | _ => true) &&
  (i.getLast? != some 32)

def WF (d : ReadoutDesc) : Prop :=
  (match d.man with | [a, b, c] => isUpper a && isUpper b && isAlpha c | _ => false) = true ∧
  isDigit d.baud = true ∧ d.escs.all isWord = true ∧ identOk d.ident = true ∧
  (∀ l ∈ d.lines, l.all dataChar = true)

instance (d : ReadoutDesc) : Decidable d.WF := by unfold WF; infer_instance

end ReadoutDesc

end Amshan.P1Spec
