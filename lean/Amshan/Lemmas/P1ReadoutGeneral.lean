import Amshan.Lemmas.P1Readout
/-
  Lemmas for Props/C04General: `is_valid` of an ARBITRARY readout object, on raw bytes.
    * `str.strip()` and the C white-space skip of `int()` : canonical decomposition
      `s = w1 ++ strip s ++ w2` (generic in the white-space set: `stripWith`);
    * `int(text, 16)` : the model `Py.intBase16` accepts exactly the texts of the grammar `IsPyHexInt`
      (C white space 32, 9..13, optional sign, optional 0x / 0X prefix with one optional underscore, hex
      digits with single underscores strictly between digits); 0x1C..0x1F are NOT skipped by `int()`;
    * `int(text.strip(), 16)` (what `expected_checksum` computes): the same grammar with the white space
      of `str.strip()` (32, 9..13, 0x1C..0x1F) around the number, `IsEndHexInt`;
    * the expected checksum of any readout as a function of the text after '!';
    * the identification line of any readout;
    * `is_valid = True` as the conjunction of its three parts.
-/
namespace Amshan.P1L
open Amshan.Gen Amshan.P1 Amshan.P1Spec Amshan.Py

/-! ### `strip` -/

theorem dropWhile_head_not (p : Nat → Bool) : ∀ (l : List Nat) (x : Nat) (t : List Nat),
    l.dropWhile p = x :: t → p x = false := by
  intro l
  induction l with
  | nil => intro x t h; cases h
  | cons a l ih =>
    intro x t h
    rw [List.dropWhile_cons] at h
    split at h
    · exact ih x t h
    · rename_i hp
      simp only [List.cons.injEq] at h
      rw [← h.1]
      simpa using hp

theorem exists_snoc (c : List Nat) (h : c ≠ []) : ∃ u y, c = u ++ [y] := by
  cases hr : c.reverse with
  | nil =>
    have : c = [] := by simpa using hr
    exact absurd this h
  | cons y ur =>
    refine ⟨ur.reverse, y, ?_⟩
    have := congrArg List.reverse hr
    simpa using this

/-- `str.strip()` (`strip`) and the C white-space skip of `int()` / `float()` (`stripC`) are the same
    function of the white-space set -/
def stripWith (p : Nat → Bool) (s : List Nat) : List Nat := rstripWith p (s.dropWhile p)

theorem strip_eq_stripWith (s : List Nat) : strip s = stripWith isStrSpace s := rfl
theorem stripC_eq_stripWith (s : List Nat) : stripC s = stripWith isBytesSpace s := rfl

/-- no white space (of the set `p`) at either end (or empty) -/
def TrimmedW (p : Nat → Bool) (c : List Nat) : Prop :=
  (∀ x t, c = x :: t → p x = false) ∧ (∀ x u, c = u ++ [x] → p x = false)

theorem trimmedW_nil (p : Nat → Bool) : TrimmedW p [] := by
  constructor
  · intro x t h; cases h
  · intro x u h
    have := congrArg List.length h
    simp at this

/-- stripping cuts a run of white space off either end and nothing else -/
theorem stripWith_decomp (p : Nat → Bool) (s : List Nat) : ∃ w1 w2, s = w1 ++ stripWith p s ++ w2 ∧
    w1.all p = true ∧ w2.all p = true ∧ TrimmedW p (stripWith p s) := by
  have hrest : s.dropWhile p = stripWith p s ++ ((s.dropWhile p).reverse.takeWhile p).reverse := by
    have := List.takeWhile_append_dropWhile (p := p) (l := (s.dropWhile p).reverse)
    have h2 := congrArg List.reverse this
    rw [List.reverse_append, List.reverse_reverse] at h2
    unfold stripWith rstripWith
    exact h2.symm
  refine ⟨s.takeWhile p, ((s.dropWhile p).reverse.takeWhile p).reverse, ?_,
    takeWhile_all _ _, ?_, ?_, ?_⟩
  · rw [List.append_assoc, ← hrest, List.takeWhile_append_dropWhile]
  · rw [List.all_reverse]; exact takeWhile_all _ _
  · intro x t hc
    rw [hc] at hrest
    exact dropWhile_head_not p s x _ hrest
  · intro x u hc
    have : (s.dropWhile p).reverse.dropWhile p = x :: u.reverse := by
      have h3 : stripWith p s = ((s.dropWhile p).reverse.dropWhile p).reverse := rfl
      rw [h3] at hc
      have := congrArg List.reverse hc
      simpa using this
    exact dropWhile_head_not p _ x _ this

theorem stripWith_of_decomp (p : Nat → Bool) (w1 c w2 : List Nat) (h1 : w1.all p = true) (h2 : w2.all p = true)
    (hc : TrimmedW p c) : stripWith p (w1 ++ c ++ w2) = c := by
  unfold stripWith
  rw [List.append_assoc, dropWhile_append_all _ _ _ h1]
  cases c with
  | nil =>
    rw [List.nil_append, dropWhile_all _ _ h2]
    rfl
  | cons x t =>
    have hx := hc.1 x t rfl
    have hd : (x :: t ++ w2).dropWhile p = x :: t ++ w2 := by
      simp [hx]
    rw [hd]
    obtain ⟨u, y, huy⟩ := exists_snoc (x :: t) (by simp)
    have hy := hc.2 y u huy
    rw [huy]
    exact rstripWith_concat p u w2 y hy h2

theorem stripWith_idem (p : Nat → Bool) (s : List Nat) : stripWith p (stripWith p s) = stripWith p s := by
  obtain ⟨_, _, _, _, _, ht⟩ := stripWith_decomp p s
  have := stripWith_of_decomp p [] (stripWith p s) [] rfl rfl ht
  simpa using this

theorem stripWith_eq_nil_iff (p : Nat → Bool) (s : List Nat) : stripWith p s = [] ↔ s.all p = true := by
  constructor
  · intro h
    obtain ⟨w1, w2, hs, h1, h2, _⟩ := stripWith_decomp p s
    rw [h, List.append_nil] at hs
    rw [hs, List.all_append, h1, h2]
    rfl
  · intro h
    have := stripWith_of_decomp p s [] [] h rfl (trimmedW_nil p)
    simpa using this

/-! #### the two instances -/

/-- no `str.strip()` white space at either end (or empty) -/
def Trimmed (c : List Nat) : Prop := TrimmedW isStrSpace c

theorem trimmed_nil : Trimmed [] := trimmedW_nil _

/-- `strip` cuts a run of white space off either end and nothing else -/
theorem strip_decomp (s : List Nat) : ∃ w1 w2, s = w1 ++ strip s ++ w2 ∧
    w1.all isStrSpace = true ∧ w2.all isStrSpace = true ∧ Trimmed (strip s) :=
  stripWith_decomp isStrSpace s

theorem strip_of_decomp (w1 c w2 : List Nat) (h1 : w1.all isStrSpace = true) (h2 : w2.all isStrSpace = true)
    (hc : Trimmed c) : strip (w1 ++ c ++ w2) = c :=
  stripWith_of_decomp isStrSpace w1 c w2 h1 h2 hc

theorem strip_idem (s : List Nat) : strip (strip s) = strip s := stripWith_idem isStrSpace s

theorem strip_eq_nil_iff (s : List Nat) : strip s = [] ↔ s.all isStrSpace = true :=
  stripWith_eq_nil_iff isStrSpace s

/-- text without `str.strip()` white space at its ends has no C white space there either -/
theorem trimmedW_bytes_of_trimmed (c : List Nat) (h : Trimmed c) : TrimmedW isBytesSpace c :=
  ⟨fun x t hx => not_isBytesSpace_of_not_isStrSpace x (h.1 x t hx),
   fun x u hx => not_isBytesSpace_of_not_isStrSpace x (h.2 x u hx)⟩

/-- after `str.strip()` the white-space skip of `int()` finds nothing to remove -/
theorem stripC_strip (s : List Nat) : stripC (strip s) = strip s := by
  obtain ⟨_, _, _, _, _, ht⟩ := strip_decomp s
  have := stripWith_of_decomp isBytesSpace [] (strip s) [] rfl rfl (trimmedW_bytes_of_trimmed _ ht)
  rw [stripC_eq_stripWith]
  simpa using this

/-! ### `int(text, 16)` -/

/-- hexadecimal digits, single underscores allowed strictly between digits; `ds` = the digit values -/
inductive HexDigits : List Nat → List Nat → Prop
  | one (c t : Nat) : hexVal? c = some t → HexDigits [c] [t]
  | cons (c t : Nat) (cs ts : List Nat) : hexVal? c = some t → HexDigits cs ts → HexDigits (c :: cs) (t :: ts)
  | consU (c t : Nat) (cs ts : List Nat) : hexVal? c = some t → HexDigits cs ts →
      HexDigits (c :: 95 :: cs) (t :: ts)

/-- value of a digit string, most significant digit first -/
def hexValue (ds : List Nat) : Nat := ds.foldl (fun a d => a * 16 + d) 0

/-- the number grammar of `int(text, 16)` between two runs of white space of the set `sp`: an optional
    sign, an optional `0x` / `0X` prefix which may be followed by ONE underscore, hexadecimal digits
    with single underscores strictly between them -/
def IsHexIntWith (sp : Nat → Bool) (t : List Nat) (v : Int) : Prop :=
  ∃ w1 sgn pre body w2 ds, t = w1 ++ sgn ++ pre ++ body ++ w2 ∧
    w1.all sp = true ∧ w2.all sp = true ∧
    (sgn = [] ∨ sgn = [43] ∨ sgn = [45]) ∧
    (pre = [] ∨ pre = [48, 120] ∨ pre = [48, 88] ∨ pre = [48, 120, 95] ∨ pre = [48, 88, 95]) ∧
    HexDigits body ds ∧ v = (if sgn = [45] then -(hexValue ds : Int) else (hexValue ds : Int))

/-- **the texts `int(text, 16)` accepts, with their value** (CPython's grammar, on ASCII text): C white
    space (`Py_ISSPACE`: 32, 9..13 - NOT the separators 0x1C..0x1F, which `str.strip()` removes but
    `int()` on an all-ASCII `str` does not skip), an optional sign, an optional `0x` / `0X` prefix which
    may be followed by ONE underscore, hexadecimal digits with single underscores strictly between them,
    C white space -/
def IsPyHexInt (t : List Nat) (v : Int) : Prop := IsHexIntWith isBytesSpace t v

/-- **the texts `int(text.strip(), 16)` accepts** - the composite the library applies to the text
    after '!' (`expected_checksum`: `int(end[1:].strip(), base=16)`): the same grammar, but the white
    space around the number is that of `str.strip()` (32, 9..13 and 0x1C..0x1F), because it has been
    removed before `int()` sees the text -/
def IsEndHexInt (t : List Nat) (v : Int) : Prop := IsHexIntWith isStrSpace t v

/-- whatever `int()` accepts on its own the composite accepts too (C white space is `str.strip()`
    white space) -/
theorem isEndHexInt_of_isPyHexInt (t : List Nat) (v : Int) (h : IsPyHexInt t v) : IsEndHexInt t v := by
  obtain ⟨w1, sgn, pre, body, w2, ds, ht, h1, h2, rest⟩ := h
  refine ⟨w1, sgn, pre, body, w2, ds, ht, ?_, ?_, rest⟩
  · rw [List.all_eq_true] at h1 ⊢
    exact fun x hx => isStrSpace_of_isBytesSpace x (h1 x hx)
  · rw [List.all_eq_true] at h2 ⊢
    exact fun x hx => isStrSpace_of_isBytesSpace x (h2 x hx)

theorem hexVal_of_hexDigitVal (c t : Nat) (h : hexDigitVal? c = some t) : hexVal? c = some t := by
  unfold hexDigitVal? Py.isDigit at h
  simp only [Bool.and_eq_true, decide_eq_true_eq] at h
  unfold hexVal?
  split at h
  · rename_i h1
    simp only [Option.some.injEq] at h
    rw [if_pos h1, h]
  · rename_i h1
    split at h
    · rename_i h2
      simp only [Option.some.injEq] at h
      rw [if_neg h1, if_neg (by omega), if_pos h2, h]
    · split at h
      · rename_i h2 h3
        simp only [Option.some.injEq] at h
        rw [if_neg h1, if_pos h3, h]
      · cases h

theorem hexVal_facts (c t : Nat) (h : hexVal? c = some t) :
    c ≠ 95 ∧ c ≠ 43 ∧ c ≠ 45 ∧ c ≠ 120 ∧ c ≠ 88 ∧ isStrSpace c = false := by
  have := hexVal_range c t h
  refine ⟨by omega, by omega, by omega, by omega, by omega, hexVal_not_space c t h⟩

theorem hexDigits_head (cs ds : List Nat) (h : HexDigits cs ds) :
    ∃ c t cs', cs = c :: cs' ∧ hexVal? c = some t := by
  cases h with
  | one c t hc => exact ⟨c, t, [], rfl, hc⟩
  | cons c t cs ts hc _ => exact ⟨c, t, cs, rfl, hc⟩
  | consU c t cs ts hc _ => exact ⟨c, t, 95 :: cs, rfl, hc⟩

theorem hexDigits_last (cs ds : List Nat) (h : HexDigits cs ds) :
    ∀ x u, cs = u ++ [x] → ∃ t, hexVal? x = some t := by
  induction h with
  | one c t hc =>
    intro x u hu
    have : x = c := by
      cases u with
      | nil => simpa using hu.symm
      | cons a u' =>
        have := congrArg List.length hu
        simp at this
    rw [this]; exact ⟨t, hc⟩
  | cons c t cs ts hc hcs ih =>
    intro x u hu
    cases u with
    | nil =>
      simp only [List.nil_append, List.cons.injEq] at hu
      obtain ⟨_, _, _, hh, _⟩ := hexDigits_head cs ts hcs
      rw [hh] at hu; cases hu.2
    | cons a u' =>
      simp only [List.cons_append, List.cons.injEq] at hu
      exact ih x u' hu.2
  | consU c t cs ts hc hcs ih =>
    intro x u hu
    cases u with
    | nil => simp at hu
    | cons a u' =>
      simp only [List.cons_append, List.cons.injEq] at hu
      cases u' with
      | nil =>
        simp only [List.nil_append, List.cons.injEq] at hu
        obtain ⟨_, _, _, hh, _⟩ := hexDigits_head cs ts hcs
        rw [hh] at hu; cases hu.2.2
      | cons b u'' =>
        simp only [List.cons_append, List.cons.injEq] at hu
        exact ih x u'' hu.2.2

/-- the digit loop on a well-formed digit string (whatever the flags: it starts with a digit) -/
theorem hexLoop_of_digits (cs ds : List Nat) (h : HexDigits cs ds) (acc : Nat) (pu any : Bool) :
    hexDigitsLoop cs acc pu any = some (ds.foldl (fun a d => a * 16 + d) acc) := by
  induction h generalizing acc pu any with
  | one c t hc =>
    rw [hexLoop_step c t _ _ _ _ hc]
    simp [hexDigitsLoop]
  | cons c t cs ts hc _ ih =>
    rw [hexLoop_step c t _ _ _ _ hc, ih]
    rfl
  | consU c t cs ts hc _ ih =>
    rw [hexLoop_step c t _ _ _ _ hc]
    rw [hexDigitsLoop]
    simp only [beq_self_eq_true, if_true, Bool.false_or, Bool.not_true, Bool.false_eq_true, if_false]
    rw [ih]
    rfl

/-- … and nothing else makes the digit loop succeed -/
theorem hexLoop_some (cs : List Nat) : ∀ (acc : Nat) (pu any : Bool) (n : Nat),
    hexDigitsLoop cs acc pu any = some n →
      (cs = [] ∧ n = acc ∧ pu = false ∧ any = true) ∨
      (∃ ds, HexDigits cs ds ∧ n = ds.foldl (fun a d => a * 16 + d) acc) ∨
      (∃ cs' ds, cs = 95 :: cs' ∧ pu = false ∧ any = true ∧ HexDigits cs' ds ∧
        n = ds.foldl (fun a d => a * 16 + d) acc) := by
  induction cs with
  | nil =>
    intro acc pu any n h
    rw [hexDigitsLoop] at h
    split at h
    · cases h
    · rename_i hc
      simp only [Option.some.injEq] at h
      simp only [Bool.or_eq_true, Bool.not_eq_true', not_or, Bool.not_eq_true, Bool.not_eq_false] at hc
      exact Or.inl ⟨rfl, h.symm, hc.1, hc.2⟩
  | cons c cs ih =>
    intro acc pu any n h
    rw [hexDigitsLoop] at h
    split at h
    · rename_i hc95
      have hc : c = 95 := by simpa using hc95
      split at h
      · cases h
      · rename_i hflags
        simp only [Bool.or_eq_true, Bool.not_eq_true', not_or, Bool.not_eq_true, Bool.not_eq_false] at hflags
        rcases ih acc true any n h with ⟨_, _, hpu, _⟩ | ⟨ds, hds, hn⟩ | ⟨_, _, _, hpu, _⟩
        · cases hpu
        · exact Or.inr (Or.inr ⟨cs, ds, by rw [hc], hflags.1, hflags.2, hds, hn⟩)
        · cases hpu
    · split at h
      · rename_i t ht
        have hv := hexVal_of_hexDigitVal c t ht
        rcases ih (acc * 16 + t) false true n h with ⟨hnil, hn, _, _⟩ | ⟨ds, hds, hn⟩ | ⟨cs', ds, hcs, _, _, hds, hn⟩
        · exact Or.inr (Or.inl ⟨[t], by rw [hnil]; exact .one c t hv, by rw [hn]; rfl⟩)
        · exact Or.inr (Or.inl ⟨t :: ds, .cons c t cs ds hv hds, by rw [hn]; rfl⟩)
        · exact Or.inr (Or.inl ⟨t :: ds, by rw [hcs]; exact .consU c t cs' ds hv hds, by rw [hn]; rfl⟩)
      · cases h

/-- the part of `int(text, 16)` after the white space has been skipped -/
def intCore16 (s : List Nat) : Except PyExc Int :=
  match hexDigitsLoop (prefixPart (signPart s).2) 0 false false with
  | some v => .ok (if (signPart s).1 then -(v : Int) else (v : Int))
  | none => .error .valueError

theorem intBase16_core (s : List Nat) : intBase16 s = intCore16 (stripC s) := rfl

/-- `int(text.strip(), 16)`: after `str.strip()` the white-space skip of `int()` removes nothing.
    (`int(text.strip(), 16) = int(text, 16)` does NOT hold: "1F\x1c" is accepted by the left side only.) -/
theorem intBase16_strip (s : List Nat) : intBase16 (strip s) = intCore16 (strip s) := by
  rw [intBase16_core, stripC_strip]

/-- a white-space set that contains no character of the number grammar -/
def SpOk (sp : Nat → Bool) : Prop :=
  sp 43 = false ∧ sp 45 = false ∧ sp 48 = false ∧ ∀ c t, hexVal? c = some t → sp c = false

theorem spOk_str : SpOk isStrSpace :=
  ⟨by decide, by decide, by decide, hexVal_not_space⟩

theorem spOk_bytes : SpOk isBytesSpace :=
  ⟨by decide, by decide, by decide, fun c t h => not_isBytesSpace_of_not_isStrSpace c (hexVal_not_space c t h)⟩

/-- the number part accepts the texts of the grammar, whatever the white-space set … -/
theorem intCore16_of_grammar (sp : Nat → Bool) (hsp : SpOk sp) (t : List Nat) (v : Int) (h : IsHexIntWith sp t v) :
    intCore16 (stripWith sp t) = .ok v := by
  obtain ⟨w1, sgn, pre, body, w2, ds, ht, h1, h2, hsgn, hpre, hbody, hv⟩ := h
  obtain ⟨c0, t0, body', hb0, hc0⟩ := hexDigits_head body ds hbody
  have f0 := hexVal_facts c0 t0 hc0
  -- the core is trimmed
  have hcore : TrimmedW sp (sgn ++ pre ++ body) := by
    constructor
    · intro x tl hx
      rcases hsgn with rfl | rfl | rfl
      · rcases hpre with rfl | rfl | rfl | rfl | rfl
        · simp only [List.nil_append, hb0, List.cons.injEq] at hx
          rw [← hx.1]; exact hsp.2.2.2 c0 t0 hc0
        all_goals
          simp only [List.nil_append, List.cons_append, List.cons.injEq] at hx
          rw [← hx.1]; exact hsp.2.2.1
      · simp only [List.cons_append, List.nil_append, List.cons.injEq] at hx
        rw [← hx.1]; exact hsp.1
      · simp only [List.cons_append, List.nil_append, List.cons.injEq] at hx
        rw [← hx.1]; exact hsp.2.1
    · intro x u hx
      obtain ⟨ub, yb, hub⟩ := exists_snoc body (by rw [hb0]; simp)
      obtain ⟨tl, htl⟩ := hexDigits_last body ds hbody yb ub hub
      have hlast := hsp.2.2.2 yb tl htl
      rw [hub, ← List.append_assoc] at hx
      have := List.append_inj_right' hx (by simp)
      simp only [List.cons.injEq, and_true] at this
      rw [← this]; exact hlast
  have hs : stripWith sp t = sgn ++ pre ++ body := by
    rw [ht]
    have : w1 ++ sgn ++ pre ++ body ++ w2 = w1 ++ (sgn ++ pre ++ body) ++ w2 := by
      simp only [List.append_assoc]
    rw [this]
    exact stripWith_of_decomp sp w1 _ w2 h1 h2 hcore
  -- the prefix part
  have hp : prefixPart (pre ++ body) = body := by
    rcases hpre with rfl | rfl | rfl | rfl | rfl
    · rw [List.nil_append, hb0]
      cases body' with
      | nil =>
        unfold prefixPart
        split
        · rename_i heq; simp at heq
        · rfl
      | cons b r =>
        apply prefixPart_plain
        intro _
        have hbx : b ≠ 120 ∧ b ≠ 88 := by
          rw [hb0] at hbody
          cases hbody with
          | cons _ _ _ _ _ hrest =>
            obtain ⟨c1, t1, _, hh, hc1⟩ := hexDigits_head _ _ hrest
            simp only [List.cons.injEq] at hh
            have := hexVal_facts c1 t1 hc1
            rw [hh.1]; exact ⟨this.2.2.2.1, this.2.2.2.2.1⟩
          | consU _ _ _ _ _ _ => exact ⟨by decide, by decide⟩
        simp [hbx.1, hbx.2]
    · rw [hb0]
      simp only [List.cons_append, List.nil_append, prefixPart]
      have : c0 ≠ 95 := f0.1
      simp
      split
      · rename_i heq; simp only [List.cons.injEq] at heq; exact absurd heq.1 this
      · rfl
    · rw [hb0]
      simp only [List.cons_append, List.nil_append, prefixPart]
      have : c0 ≠ 95 := f0.1
      simp
      split
      · rename_i heq; simp only [List.cons.injEq] at heq; exact absurd heq.1 this
      · rfl
    · simp [prefixPart]
    · simp [prefixPart]
  have hhead : ∀ r, pre ++ body = r → ∃ a r', r = a :: r' ∧ a ≠ 43 ∧ a ≠ 45 := by
    intro r hr
    rcases hpre with rfl | rfl | rfl | rfl | rfl
    · rw [List.nil_append, hb0] at hr
      exact ⟨c0, body', hr.symm, f0.2.1, f0.2.2.1⟩
    all_goals exact ⟨48, _, hr.symm, by decide, by decide⟩
  rw [hs]
  unfold intCore16
  have hloop := hexLoop_of_digits body ds hbody 0 false false
  rcases hsgn with rfl | rfl | rfl
  · obtain ⟨a, r', hr, ha1, ha2⟩ := hhead _ rfl
    rw [List.nil_append, hr, signPart_plain a r' ha1 ha2]
    simp only
    rw [← hr, hp, hloop, hv]
    simp [hexValue]
  · have : signPart ([43] ++ pre ++ body) = (false, pre ++ body) := by
      simp [signPart]
    rw [this]
    simp only
    rw [hp, hloop, hv]
    simp [hexValue]
  · have : signPart ([45] ++ pre ++ body) = (true, pre ++ body) := by
      simp [signPart]
    rw [this]
    simp only
    rw [hp, hloop, hv]
    simp [hexValue]

/-- … and only those -/
theorem grammar_of_intCore16 (sp : Nat → Bool) (t : List Nat) (v : Int) (h : intCore16 (stripWith sp t) = .ok v) :
    IsHexIntWith sp t v := by
  obtain ⟨w1, w2, hs, h1, h2, _⟩ := stripWith_decomp sp t
  unfold intCore16 at h
  split at h
  · rename_i n hn
    simp only [Except.ok.injEq] at h
    -- the sign
    have hsign : ∃ sgn r, stripWith sp t = sgn ++ r ∧ (sgn = [] ∨ sgn = [43] ∨ sgn = [45]) ∧
        signPart (stripWith sp t) = (decide (sgn = [45]), r) := by
      unfold signPart
      split
      · rename_i r heq; exact ⟨[43], r, heq, Or.inr (Or.inl rfl), rfl⟩
      · rename_i r heq; exact ⟨[45], r, heq, Or.inr (Or.inr rfl), rfl⟩
      · exact ⟨[], stripWith sp t, rfl, Or.inl rfl, rfl⟩
    obtain ⟨sgn, r, hr, hsgn, hsp⟩ := hsign
    rw [hsp] at hn h
    simp only at hn h
    -- the prefix
    have hpre : ∃ pre body, r = pre ++ body ∧
        (pre = [] ∨ pre = [48, 120] ∨ pre = [48, 88] ∨ pre = [48, 120, 95] ∨ pre = [48, 88, 95]) ∧
        prefixPart r = body := by
      unfold prefixPart
      split
      · rename_i x r2
        split
        · rename_i hx
          have hx' : x = 120 ∨ x = 88 := by simpa using hx
          split
          · rename_i r3
            rcases hx' with rfl | rfl
            · exact ⟨[48, 120, 95], r3, rfl, Or.inr (Or.inr (Or.inr (Or.inl rfl))), rfl⟩
            · exact ⟨[48, 88, 95], r3, rfl, Or.inr (Or.inr (Or.inr (Or.inr rfl))), rfl⟩
          · rcases hx' with rfl | rfl
            · exact ⟨[48, 120], r2, rfl, Or.inr (Or.inl rfl), rfl⟩
            · exact ⟨[48, 88], r2, rfl, Or.inr (Or.inr (Or.inl rfl)), rfl⟩
        · exact ⟨[], _, rfl, Or.inl rfl, rfl⟩
      · exact ⟨[], r, rfl, Or.inl rfl, rfl⟩
    obtain ⟨pre, body, hrb, hpre, hpp⟩ := hpre
    rw [hpp] at hn
    rcases hexLoop_some body 0 false false n hn with ⟨_, _, _, hany⟩ | ⟨ds, hds, hnds⟩ | ⟨_, _, _, _, hany, _⟩
    · cases hany
    · refine ⟨w1, sgn, pre, body, w2, ds, ?_, h1, h2, hsgn, hpre, hds, ?_⟩
      · rw [hs, hr, hrb]; simp only [List.append_assoc]
      · rw [← h]
        have : n = hexValue ds := hnds
        rw [this]
        by_cases h45 : sgn = [45]
        · simp [h45]
        · simp [h45]
    · cases hany
  · cases h

/-- `Py.intBase16` accepts the texts of the grammar … -/
theorem intBase16_of_grammar (t : List Nat) (v : Int) (h : IsPyHexInt t v) : intBase16 t = .ok v := by
  rw [intBase16_core, stripC_eq_stripWith]
  exact intCore16_of_grammar isBytesSpace spOk_bytes t v h

/-- … and only those -/
theorem grammar_of_intBase16 (t : List Nat) (v : Int) (h : intBase16 t = .ok v) : IsPyHexInt t v := by
  rw [intBase16_core, stripC_eq_stripWith] at h
  exact grammar_of_intCore16 isBytesSpace t v h

/-- **`int(text, 16)` succeeds with value `v` exactly on the texts of the grammar** -/
theorem intBase16_ok_iff (t : List Nat) (v : Int) : intBase16 t = .ok v ↔ IsPyHexInt t v :=
  ⟨grammar_of_intBase16 t v, intBase16_of_grammar t v⟩

/-- **`int(text.strip(), 16)` succeeds with value `v` exactly on the texts of the same grammar with
    `str.strip()` white space around the number** -/
theorem intBase16_strip_ok_iff (t : List Nat) (v : Int) : intBase16 (strip t) = .ok v ↔ IsEndHexInt t v := by
  rw [intBase16_strip, strip_eq_stripWith]
  exact ⟨grammar_of_intCore16 isStrSpace t v, intCore16_of_grammar isStrSpace spOk_str t v⟩

/-- four hex digits with an optional line end are in the grammar -/
theorem isPyHexInt_of_checksumText (t : List Nat) (v : Nat) (h : IsChecksumText t v) : IsPyHexInt t (v : Int) := by
  obtain ⟨a, b, c, d, ta, tb, tc, td, term, hte, ha, hb, hc, hd, hv, hterm⟩ := h
  refine ⟨[], [], [], [a, b, c, d], term, [ta, tb, tc, td], by rw [hte]; rfl, rfl,
    (by rcases hterm with h | h | h <;> subst h <;> decide),
    Or.inl rfl, Or.inl rfl, .cons a ta _ _ ha (.cons b tb _ _ hb (.cons c tc _ _ hc (.one d td hd))), ?_⟩
  rw [hv]
  simp [hexValue]

/-! ### the expected checksum of any readout -/

/-- `expected_checksum` as a function of the text after '!' -/
theorem expectedChecksum_general (r : Readout) (ab : List Nat) (hd : r.bytes.drop r.endPos = 33 :: ab) :
    r.expectedChecksum =
      if ab.all (· < 128) then
        (if ab.all isStrSpace then .ok none
         else match intBase16 (strip ab) with
           | .ok v => .ok (some v)
           | .error e => .error e)
      else .error .unicodeError := by
  unfold Readout.expectedChecksum Readout.endLine
  rw [hd]
  by_cases hasc : ab.all (· < 128) = true
  · have hdec : decodeAscii (33 :: ab) = .ok (33 :: ab) := by
      unfold decodeAscii
      simp only [List.all_cons, hasc, Bool.and_true]
      rfl
    rw [hdec, if_pos hasc]
    obtain ⟨w1, w2, hs, h1, h2, htr⟩ := strip_decomp ab
    by_cases hsp : ab.all isStrSpace = true
    · rw [if_pos hsp]
      simp only [bind, Except.bind, pure, Except.pure]
      rw [strip_single 33 ab (by decide) hsp]
      simp
    · rw [if_neg hsp]
      have hne : strip ab ≠ [] := fun hnil => hsp ((strip_eq_nil_iff ab).1 hnil)
      obtain ⟨u, y, huy⟩ := exists_snoc (strip ab) hne
      have hy := htr.2 y u huy
      have hstr : strip (33 :: ab) = 33 :: (w1 ++ u) ++ [y] := by
        have := strip_core 33 y (w1 ++ u) w2 (by decide) hy h2
        rw [← this]
        congr 1
        rw [hs, huy]
        simp only [List.cons_append, List.append_assoc]
      simp only [bind, Except.bind, pure, Except.pure]
      rw [hstr]
      have hlen : (33 :: (w1 ++ u) ++ [y]).length > 1 := by simp; omega
      rw [if_pos hlen]
      have hdrop : (33 :: (w1 ++ u) ++ [y]).drop 1 = w1 ++ strip ab ++ [] := by
        rw [huy]; simp
      rw [hdrop, strip_of_decomp w1 (strip ab) [] h1 rfl htr]
      cases intBase16 (strip ab) <;> rfl
  · have hdec : decodeAscii (33 :: ab) = .error .unicodeError := by
      unfold decodeAscii
      simp only [List.all_cons, hasc, Bool.and_false]
      rfl
    rw [hdec, if_neg hasc]
    rfl

/-! ### the identification line of any readout -/

theorem identLine_ok_iff (r : Readout) (m : IdentMatch) : r.identLine = .ok m ↔
    (∀ x ∈ r.bytes.take r.dataPos, x < 128) ∧ identMatch (strip (r.bytes.take r.dataPos)) = some m := by
  unfold Readout.identLine
  by_cases hasc : (r.bytes.take r.dataPos).all (· < 128) = true
  · have hdec : decodeAscii (r.bytes.take r.dataPos) = .ok (r.bytes.take r.dataPos) := by
      unfold decodeAscii; rw [if_pos hasc]
    have hall : ∀ x ∈ r.bytes.take r.dataPos, x < 128 := by
      simpa [List.all_eq_true] using hasc
    rw [hdec]
    simp only [bind, Except.bind, pure, Except.pure]
    cases hm : identMatch (strip (r.bytes.take r.dataPos)) with
    | none => simp
    | some m' =>
      simp only [Except.ok.injEq, Option.some.injEq]
      exact ⟨fun h => ⟨hall, h⟩, fun h => h.2⟩
  · have hdec : decodeAscii (r.bytes.take r.dataPos) = .error .unicodeError := by
      unfold decodeAscii; rw [if_neg hasc]
    rw [hdec]
    simp only [bind, Except.bind]
    constructor
    · intro h; cases h
    · intro h
      exfalso
      apply hasc
      simpa [List.all_eq_true] using h.1

/-! ### `is_valid = True`, exactly -/

theorem isValid_true_iff (r : Readout) : r.isValid = .ok true ↔
    (∃ expected, r.expectedChecksum = .ok expected ∧ mismatch r expected = false) ∧
    (∃ m, r.identLine = .ok m) ∧ (∀ ch ∈ r.payload, ch ≤ 0x80) := by
  constructor
  · intro h
    cases hexp : r.expectedChecksum with
    | error e => rw [isValid_of_err r e hexp] at h; simp at h
    | ok expected =>
      rw [isValid_of_ok r expected hexp] at h
      cases hmm : mismatch r expected with
      | true => rw [hmm] at h; simp at h
      | false =>
        rw [hmm] at h
        cases hi : r.identLine with
        | error e =>
          rw [hi] at h
          simp [identLine_err r e hi] at h
        | ok m =>
          rw [hi] at h
          refine ⟨⟨expected, rfl, hmm⟩, ⟨m, rfl⟩, ?_⟩
          simp only [if_false, Bool.false_eq_true, Except.ok.injEq, List.all_eq_true, Bool.not_eq_true',
            decide_eq_false_iff_not] at h
          intro ch hch
          have := h ch hch
          omega
  · rintro ⟨⟨expected, hexp, hmm⟩, ⟨m, hi⟩, hp⟩
    exact isValid_of_parts r expected m hexp hmm hi hp

end Amshan.P1L
