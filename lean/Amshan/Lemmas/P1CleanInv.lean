import Amshan.Lemmas.P1CleanIdent
/-
  C05: the invariant tying the reader state to the rest of a clean stream, for every chunking.
  `Trace raw hunt Ls outs` : feeding the complete lines `Ls` to a reader in state `(raw, hunt)`
  delivers exactly `outs`, never trips the size guard, and in hunt mode every line starts a readout.
-/
namespace Amshan.P1
open Amshan.Gen Amshan.P1Spec

def Trace : List Nat → Bool → List (List Nat) → List Readout → Prop
  | raw, hunt, [], outs => outs = [] ∧ (hunt = true → raw = []) ∧ raw.length ≤ p1Guard
  | raw, hunt, l :: Ls, outs =>
    IsLine l ∧ (hunt = true → raw = [] ∧ ∃ t, l = 47 :: t) ∧ raw.length + l.length ≤ p1Guard ∧
    ∃ raw1 hunt1 ro outs', handleLine raw hunt l = .ok (raw1, hunt1, ro) ∧
      outs = ro.toList ++ outs' ∧ Trace raw1 hunt1 Ls outs'

/-! ### the trace of a clean stream -/

theorem trace_data (el : List Nat) (tl : List Nat) (hel : el = 33 :: tl) (hell : IsLine el)
    (Lc : List (List Nat)) (outs : List Readout) (ro : Readout) (hc : Trace [] true Lc outs)
    (Ld : List (List Nat)) : ∀ (raw : List Nat), (∀ l ∈ Ld, IsDataLine l) →
    raw.length + Ld.flatten.length + el.length ≤ p1Guard →
    Readout.make (raw ++ Ld.flatten ++ el) = .ok ro →
    Trace raw false (Ld ++ el :: Lc) (ro :: outs) := by
  induction Ld with
  | nil =>
    intro raw _ hsz hm
    simp only [List.flatten_nil, List.append_nil, List.length_nil, Nat.add_zero] at hsz hm
    refine ⟨hell, (fun h => (by cases h)), hsz, [], true, some ro, outs, ?_, rfl, hc⟩
    subst hel
    exact handleLine_end _ _ _ hm
  | cons l Ld ih =>
    intro raw hd hsz hm
    have hl := hd l (by simp)
    obtain ⟨c, t, hlc, hc33, _⟩ := hl.head
    simp only [List.flatten_cons, List.length_append] at hsz
    refine ⟨hl.isLine, (fun h => (by cases h)), by omega, raw ++ l, false, none, ro :: outs, ?_, rfl, ?_⟩
    · rw [hlc]; exact handleLine_data _ _ _ hc33
    · apply ih (raw ++ l) (fun l' m => hd l' (List.mem_cons_of_mem _ m))
      · simp only [List.length_append]; omega
      · rw [← hm]; simp

theorem trace_readout (d : ReadoutDesc) (h : d.WF) (hsz : d.encode.length ≤ p1Guard)
    (Lc : List (List Nat)) (outs : List Readout) (hc : Trace [] true Lc outs) :
    Trace [] true (dlines d ++ Lc) (expectedReadout d :: outs) := by
  have henc := encode_eq d
  simp only [dlines, List.flatten_cons, List.flatten_append, List.flatten_nil, List.append_nil]
    at henc
  have hsz' : d.identLine.length + (dataLines d).flatten.length + (endLine d).length ≤ p1Guard := by
    rw [henc] at hsz; simp only [List.length_append] at hsz; omega
  refine ⟨isLine_identLine d h, fun _ => ⟨rfl, _, identLine_eq d⟩, by simp only [List.length_nil]; omega,
    d.identLine, false, none, expectedReadout d :: outs, handleLine_identLine d h, rfl, ?_⟩
  have := trace_data (endLine d) _ rfl (isLine_endLine d) Lc outs (expectedReadout d) hc
    (dataLines d) d.identLine (isDataLine_of_mem d h) hsz'
    (by rw [← make_encode d h, henc]; simp)
  simpa using this

theorem trace_stream (ds : List ReadoutDesc) (hds : ∀ d ∈ ds, d.WF ∧ d.encode.length ≤ p1Guard) :
    Trace [] true (ds.flatMap dlines) (ds.map expectedReadout) := by
  induction ds with
  | nil => exact ⟨rfl, fun _ => rfl, by simp⟩
  | cons d ds ih =>
    simp only [List.flatMap_cons, List.map_cons]
    exact trace_readout d (hds d (by simp)).1 (hds d (by simp)).2 _ _
      (ih (fun d' m => hds d' (List.mem_cons_of_mem _ m)))

theorem flatten_stream (ds : List ReadoutDesc) :
    (ds.flatMap dlines).flatten = ds.flatMap ReadoutDesc.encode := by
  induction ds with
  | nil => rfl
  | cons d ds ih => simp only [List.flatMap_cons, List.flatten_append, ih, encode_eq]

/-! ### consequences of a trace -/

theorem trace_head (raw : List Nat) (Ls : List (List Nat)) (outs : List Readout)
    (h : Trace raw true Ls outs) : Ls.flatten = [] ∨ ∃ t, Ls.flatten = 47 :: t := by
  cases Ls with
  | nil => left; rfl
  | cons l Ls =>
    obtain ⟨_, hh, _⟩ := h
    obtain ⟨_, t, ht⟩ := hh rfl
    right; exact ⟨t ++ Ls.flatten, by simp [ht]⟩

theorem trace_hunt_raw (raw : List Nat) (Ls : List (List Nat)) (outs : List Readout)
    (h : Trace raw true Ls outs) : raw = [] := by
  cases Ls with
  | nil => exact h.2.1 rfl
  | cons l Ls => exact (h.2.1 rfl).1

/-- a prefix of `[]` or of a string starting with '/' is not changed by the hunt-mode trim -/
theorem trim_prefix (X Y F : List Nat) (h : X ++ Y = F) (hF : F = [] ∨ ∃ t, F = 47 :: t) :
    X.dropWhile notStart = X := by
  cases X with
  | nil => rfl
  | cons x X' =>
    rcases hF with hF | ⟨t, hF⟩
    · rw [hF] at h; cases h
    · rw [hF] at h
      simp only [List.cons_append, List.cons.injEq] at h
      rw [h.1]
      simp [List.dropWhile, notStart, p1Start]

theorem dropWhile_notStart_nil (l : List Nat) (h : 47 ∉ l) : l.dropWhile notStart = [] := by
  induction l with
  | nil => rfl
  | cons a t ih =>
    have ha : notStart a = true := by rw [notStart_iff]; intro e; exact h (by simp [e])
    simp only [List.dropWhile, ha, ih (fun m => h (List.mem_cons_of_mem _ m))]

theorem dropWhile_notStart_append (l s : List Nat) (h : 47 ∉ l) :
    (l ++ s).dropWhile notStart = s.dropWhile notStart := by
  induction l with
  | nil => rfl
  | cons a t ih =>
    have ha : notStart a = true := by rw [notStart_iff]; intro e; exact h (by simp [e])
    simp only [List.cons_append, List.dropWhile, ha, ih (fun m => h (List.mem_cons_of_mem _ m))]

/-- the pending octets never exceed the guard on a clean stream -/
theorem trace_bound (raw : List Nat) (hunt : Bool) (Ls : List (List Nat)) (outs : List Readout)
    (h : Trace raw hunt Ls outs) (inp rest : List Nat) (hn : 10 ∉ inp)
    (he : inp ++ rest = Ls.flatten) : inp.length + raw.length ≤ p1Guard := by
  cases Ls with
  | nil =>
    simp only [List.flatten_nil, List.append_eq_nil_iff] at he
    rw [he.1]; simp only [List.length_nil, Nat.zero_add]; exact h.2.2
  | cons l Ls =>
    obtain ⟨⟨body, hl, hb⟩, _, hsz, _⟩ := h
    rw [List.flatten_cons, hl, List.append_assoc] at he
    obtain ⟨q, hq⟩ := nolf_prefix inp rest body _ hn hb he
    rw [hl, hq] at hsz
    simp only [List.length_append] at hsz
    omega

/-! ### the clean invariant -/

/-- mid-stream: the unread partial line followed by the rest of the stream is a sequence of
    complete lines with a trace from the current state -/
def InvC (r : Reader) (rest : List Nat) (outs : List Readout) : Prop :=
  ∃ Ls, Trace r.raw r.hunt Ls outs ∧ 10 ∉ r.buf.inp ∧ r.buf.inp ++ rest = Ls.flatten

/-- `InvC`, or hunting through bytes without a start character (`t`) that precede a clean stream -/
def Inv (r : Reader) (rest : List Nat) (outs : List Readout) : Prop :=
  (∃ t Ls, r.hunt = true ∧ r.raw = [] ∧ 47 ∉ r.buf.inp ∧ 47 ∉ t ∧ rest = t ++ Ls.flatten ∧
    Trace [] true Ls outs) ∨ InvC r rest outs

theorem loop_trace (Ls : List (List Nat)) : ∀ (raw : List Nat) (hunt : Bool) (outs : List Readout)
    (X rest' : List Nat) (c : Nat) (out : List Readout),
    Trace raw hunt Ls outs → X ++ rest' = Ls.flatten →
    ∃ r' o1 o2, loop ⟨c, X⟩ raw hunt out = .ok (r', out ++ o1) ∧ outs = o1 ++ o2 ∧
      InvC r' rest' o2 := by
  induction Ls with
  | nil =>
    intro raw hunt outs X rest' c out ht he
    simp only [List.flatten_nil, List.append_eq_nil_iff] at he
    obtain ⟨rfl, rfl⟩ := he
    exact ⟨⟨⟨c, []⟩, raw, hunt⟩, [], outs, by rw [loop_nolf _ _ _ _ _ (by simp)]; simp, rfl, [], ht,
      by simp, rfl⟩
  | cons l Ls ih =>
    intro raw hunt outs X rest' c out ht he
    rcases split_lf X with hX | ⟨b2, X2, hX, hb2⟩
    · exact ⟨⟨⟨c, X⟩, raw, hunt⟩, [], outs, by rw [loop_nolf _ _ _ _ _ hX]; simp, rfl, l :: Ls, ht,
        hX, he⟩
    · obtain ⟨⟨body, hl, hb⟩, _, _, raw1, hunt1, ro, outs', hh, ho, ht'⟩ := ht
      subst hX
      rw [List.flatten_cons, hl] at he
      have he' : b2 ++ 10 :: (X2 ++ rest') = body ++ 10 :: Ls.flatten := by
        simpa using he
      obtain ⟨e1, e2⟩ := first_lf_unique _ _ _ _ hb2 hb he'
      subst e1
      rw [hl] at hh
      obtain ⟨r', o1, o2, h1, h2, h3⟩ := ih raw1 hunt1 outs' X2 rest' (c + b2.length + 1)
        (out ++ ro.toList) ht' e2
      refine ⟨r', ro.toList ++ o1, o2, ?_, ?_, h3⟩
      · rw [loop_line _ _ _ _ _ _ hb2 _ _ _ hh, h1, List.append_assoc]
      · rw [ho, h2, List.append_assoc]

/-! ### read -/

theorem read_over (r : Reader) (chunk : List Nat) (h : r.buf.inp.length + r.raw.length > p1Guard) :
    read r chunk = loop ⟨0, chunk.dropWhile notStart⟩ [] true [] := by
  simp [read, Buf.trimToPos, h, Buf.extend, Buf.empty, Buf.trimToFlagOrEnd]

theorem read_hunt (r : Reader) (chunk : List Nat) (h : r.buf.inp.length + r.raw.length ≤ p1Guard)
    (hh : r.hunt = true) :
    read r chunk = loop ⟨0, (r.buf.inp ++ chunk).dropWhile notStart⟩ r.raw true [] := by
  have : ¬ (r.buf.inp.length + r.raw.length > p1Guard) := by omega
  simp [read, Buf.trimToPos, this, Buf.extend, Buf.trimToFlagOrEnd, hh]

theorem read_nohunt (r : Reader) (chunk : List Nat) (h : r.buf.inp.length + r.raw.length ≤ p1Guard)
    (hh : r.hunt = false) :
    read r chunk = loop ⟨0, r.buf.inp ++ chunk⟩ r.raw false [] := by
  have : ¬ (r.buf.inp.length + r.raw.length > p1Guard) := by omega
  simp [read, Buf.trimToPos, this, Buf.extend, hh]

/-- hunting: the chunk (trimmed to its first '/') against `t` followed by a clean stream -/
theorem tstep (t : List Nat) (Ls : List (List Nat)) (outs : List Readout) (chunk rest' : List Nat)
    (ht : 47 ∉ t) (he : chunk ++ rest' = t ++ Ls.flatten) (htr : Trace [] true Ls outs) :
    ∃ r' o1 o2, loop ⟨0, chunk.dropWhile notStart⟩ [] true [] = .ok (r', o1) ∧ outs = o1 ++ o2 ∧
      Inv r' rest' o2 := by
  rcases List.append_eq_append_iff.mp he with ⟨a', h1, h2⟩ | ⟨c', h1, h2⟩
  · have hc : 47 ∉ chunk := fun m => ht (by rw [h1]; exact List.mem_append_left _ m)
    rw [dropWhile_notStart_nil _ hc, loop_nolf _ _ _ _ _ (by simp)]
    refine ⟨_, [], outs, rfl, rfl, Or.inl ⟨a', Ls, rfl, rfl, by simp, ?_, h2, htr⟩⟩
    exact fun m => ht (by rw [h1]; exact List.mem_append_right _ m)
  · rw [h1, dropWhile_notStart_append _ _ ht, trim_prefix c' rest' _ h2.symm (trace_head _ _ _ htr)]
    obtain ⟨r', o1, o2, h3, h4, h5⟩ := loop_trace Ls [] true outs c' rest' 0 [] htr h2.symm
    exact ⟨r', o1, o2, by simpa using h3, h4, Or.inr h5⟩

/-- one `read()` call on a clean stream -/
theorem inv_step (r : Reader) (chunk rest' : List Nat) (outs : List Readout)
    (h : Inv r (chunk ++ rest') outs) :
    ∃ r' o1 o2, read r chunk = .ok (r', o1) ∧ outs = o1 ++ o2 ∧ Inv r' rest' o2 := by
  rcases h with ⟨t, Ls, hh, hr, hi, ht, he, htr⟩ | ⟨Ls, htr, hn, he⟩
  · by_cases hov : r.buf.inp.length + r.raw.length > p1Guard
    · rw [read_over r chunk hov]
      exact tstep t Ls outs chunk rest' ht he htr
    · rw [read_hunt r chunk (by omega) hh, dropWhile_notStart_append _ _ hi, hr]
      exact tstep t Ls outs chunk rest' ht he htr
  · have hb := trace_bound _ _ _ _ htr _ _ hn he
    rw [← List.append_assoc] at he
    have key : read r chunk = loop ⟨0, r.buf.inp ++ chunk⟩ r.raw r.hunt [] := by
      cases hh : r.hunt with
      | true =>
        rw [hh] at htr
        rw [read_hunt r chunk hb hh, trim_prefix _ rest' _ he (trace_head _ _ _ htr)]
      | false => rw [read_nohunt r chunk hb hh]
    obtain ⟨r', o1, o2, h3, h4, h5⟩ := loop_trace Ls r.raw r.hunt outs _ rest' 0 [] htr he
    exact ⟨r', o1, o2, by rw [key]; simpa using h3, h4, Or.inr h5⟩

theorem isLine_flatten_ne (l : List Nat) (Ls : List (List Nat)) (h : IsLine l) :
    10 ∈ (l :: Ls).flatten := by
  obtain ⟨body, rfl, _⟩ := h
  simp

theorem inv_nil (r : Reader) (outs : List Readout) (h : Inv r [] outs) : outs = [] := by
  rcases h with ⟨t, Ls, _, _, _, _, he, htr⟩ | ⟨Ls, htr, hn, he⟩
  · cases Ls with
    | nil => exact htr.1
    | cons l Ls =>
      have := isLine_flatten_ne l Ls htr.1
      have h0 : t ++ (l :: Ls).flatten = [] := he.symm
      simp only [List.append_eq_nil_iff] at h0
      rw [h0.2] at this; cases this
  · cases Ls with
    | nil => exact htr.1
    | cons l Ls =>
      have := isLine_flatten_ne l Ls htr.1
      rw [← he, List.append_nil] at this
      exact absurd this hn

/-- all `read()` calls on a clean stream -/
theorem readAll_inv (chunks : List (List Nat)) : ∀ (r : Reader) (outs : List Readout),
    Inv r chunks.flatten outs →
    ∃ r' os, readAll r chunks = .ok (r', os) ∧ os.flatten = outs := by
  induction chunks with
  | nil =>
    intro r outs h
    exact ⟨r, [], rfl, (inv_nil r outs h).symm⟩
  | cons ch chs ih =>
    intro r outs h
    rw [List.flatten_cons] at h
    obtain ⟨r1, o1, o2, h1, h2, h3⟩ := inv_step r ch _ outs h
    obtain ⟨r2, os, h4, h5⟩ := ih r1 o2 h3
    refine ⟨r2, o1 :: os, ?_, ?_⟩
    · simp only [readAll, h1, h4]
    · rw [List.flatten_cons, h5, h2]

/-- the invariant at the start of a clean stream that follows `t` (no start character) -/
theorem inv_clean_start (r : Reader) (hh : r.hunt = true) (hr : r.raw = []) (hi : 47 ∉ r.buf.inp)
    (t : List Nat) (ht : 47 ∉ t) (ds : List ReadoutDesc)
    (hds : ∀ d ∈ ds, d.WF ∧ d.encode.length ≤ p1Guard) :
    Inv r (t ++ ds.flatMap ReadoutDesc.encode) (ds.map expectedReadout) :=
  Or.inl ⟨t, ds.flatMap dlines, hh, hr, hi, ht, by rw [flatten_stream], trace_stream ds hds⟩

end Amshan.P1
