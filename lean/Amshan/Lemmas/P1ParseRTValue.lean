import Amshan.Lemmas.P1ParseRTTerm
open Amshan Amshan.Gen Amshan.Cosem Amshan.P1Parse Amshan.P1BlockSpec Amshan.Py
namespace Amshan.P1ParseRT

/-! ### characters -/

theorem plainChar_facts {c : Nat} (h : plainChar c = true) :
    c ≠ 40 ∧ c ≠ 41 ∧ c ≠ 42 ∧ 32 < c ∧ c ≤ 126 := by
  simp only [plainChar, Bool.and_eq_true, decide_eq_true_eq, bne_iff_ne, ne_eq] at h
  omega

theorem all_plain {xs : List Nat} (h : xs.all plainChar = true) :
    ∀ c ∈ xs, c ≠ 40 ∧ c ≠ 41 ∧ c ≠ 42 ∧ 32 < c ∧ c ≤ 126 := by
  intro c hc
  exact plainChar_facts (List.all_eq_true.mp h c hc)

/-! ### find, slice on concatenations -/

theorem find_append {mid rest : List Nat} {c : Nat} (h : ∀ x ∈ mid, x ≠ c) :
    find (mid ++ c :: rest) c = some mid.length := by
  unfold find
  have : (mid ++ c :: rest).takeWhile (· != c) = mid := by
    induction mid with
    | nil => simp
    | cons a t ih =>
      have ha : a ≠ c := h a (by simp)
      have := ih (fun x hx => h x (by simp [hx]))
      simp [ha, this]
  simp only [this, List.length_append, List.length_cons]
  rw [if_pos (by omega)]

theorem findFrom_append {line pre mid rest : List Nat} {c : Nat} (hl : line = pre ++ (mid ++ c :: rest))
    (h : ∀ x ∈ mid, x ≠ c) : findFrom line c pre.length = some (pre.length + mid.length) := by
  subst hl
  unfold findFrom
  rw [List.drop_left, find_append h]
  simp [Nat.add_comm]

theorem slice_append {line pre mid rest : List Nat} (hl : line = pre ++ (mid ++ rest)) :
    slice line pre.length (pre.length + mid.length) = mid := by
  subst hl
  unfold slice
  rw [← List.append_assoc, List.take_left' (by simp), List.drop_left]

theorem getElem?_append_cons {line pre rest : List Nat} {c : Nat} (hl : line = pre ++ c :: rest) :
    line[pre.length]? = some c := by
  subst hl; simp

theorem getElem?_append_head {line pre rest : List Nat} (hl : line = pre ++ rest) :
    line[pre.length]? = rest.head? := by
  subst hl; cases rest <;> simp

/-! ### splitOn / parseValue -/

theorem splitOn_go_no (s cur : List Nat) (c : Nat) (h : ∀ x ∈ s, x ≠ c) :
    splitOn.go c s cur = [cur.reverse ++ s] := by
  induction s generalizing cur with
  | nil => simp [splitOn.go]
  | cons a t ih =>
    have ha : a ≠ c := h a (by simp)
    unfold splitOn.go
    simp only [beq_iff_eq, ha, if_false]
    rw [ih _ (fun x hx => h x (by simp [hx]))]
    simp

theorem splitOn_go_one (s u cur : List Nat) (c : Nat) (h : ∀ x ∈ s, x ≠ c) (hu : ∀ x ∈ u, x ≠ c) :
    splitOn.go c (s ++ c :: u) cur = [cur.reverse ++ s, u] := by
  induction s generalizing cur with
  | nil =>
    simp only [List.nil_append, List.append_nil]
    unfold splitOn.go
    simp only [beq_self_eq_true, if_true]
    rw [splitOn_go_no _ _ _ hu]
    simp
  | cons a t ih =>
    have ha : a ≠ c := h a (by simp)
    simp only [List.cons_append]
    unfold splitOn.go
    simp only [beq_iff_eq, ha, if_false]
    rw [ih _ (fun x hx => h x (by simp [hx]))]
    simp

def conv (v : ValueDesc) : DataSetValue := ⟨v.value, v.unit⟩
def convSet (d : DataSetDesc) : DataSet := ⟨d.address, d.values.map fun v => ⟨v.value, v.unit⟩⟩

/-- the text between the parentheses -/
def valueBody (v : ValueDesc) : List Nat := v.value ++ (match v.unit with | some u => [42] ++ u | none => [])

theorem renderValue_eq (v : ValueDesc) : renderValue v = 40 :: (valueBody v ++ [41]) := by
  cases v with
  | mk val unit => cases unit <;> simp [renderValue, valueBody]

theorem renderValue_length (v : ValueDesc) : (renderValue v).length = (valueBody v).length + 2 := by
  simp [renderValue_eq]

theorem valueBody_no41 {v : ValueDesc} (h : v.WF) : ∀ x ∈ valueBody v, x ≠ 41 := by
  obtain ⟨h1, h2⟩ := h
  intro x hx
  unfold valueBody at hx
  rw [List.mem_append] at hx
  rcases hx with hx | hx
  · exact (all_plain h1 x hx).2.1
  · cases hu : v.unit with
    | none => rw [hu] at hx; simp at hx
    | some u =>
      rw [hu] at hx h2
      simp only [List.cons_append, List.nil_append, List.mem_cons] at hx
      rcases hx with hx | hx
      · omega
      · exact (all_plain h2 x hx).2.1

theorem parseValue_body {v : ValueDesc} (h : v.WF) : parseValue (valueBody v) = .ok (conv v) := by
  obtain ⟨h1, h2⟩ := h
  have hv : ∀ x ∈ v.value, x ≠ 42 := fun x hx => (all_plain h1 x hx).2.2.1
  unfold parseValue valueBody splitOn conv
  cases hu : v.unit with
  | none =>
    simp only [List.append_nil]
    rw [splitOn_go_no _ _ _ hv]
    simp
  | some u =>
    rw [hu] at h2
    have hu' : ∀ x ∈ u, x ≠ 42 := fun x hx => (all_plain h2 x hx).2.2.1
    simp only [List.cons_append, List.nil_append]
    rw [splitOn_go_one _ _ _ _ hv hu']
    simp

/-! ### one value -/

theorem valuesLoop_step {line pre rest : List Nat} {v : ValueDesc} (hl : line = pre ++ (renderValue v ++ rest))
    (hw : v.WF) (fuel : Nat) (acc : List DataSetValue) (it : Nat) :
    valuesLoop line (fuel + 1) pre.length acc it =
      if rest = [] then .ok (none, acc ++ [conv v], it + 1)
      else if rest.head? != some 40 then .ok (some (pre.length + (renderValue v).length), acc ++ [conv v], it + 1)
      else valuesLoop line fuel (pre.length + (renderValue v).length) (acc ++ [conv v]) (it + 1) := by
  have hl1 : line = pre ++ 40 :: (valueBody v ++ 41 :: rest) := by
    rw [hl, renderValue_eq]; simp
  have h40 : line[pre.length]? = some 40 := getElem?_append_cons hl1
  have hl2 : line = pre ++ ((40 :: valueBody v) ++ 41 :: rest) := by rw [hl1]; simp
  have hfind : findFrom line 41 pre.length = some (pre.length + (valueBody v).length + 1) := by
    rw [findFrom_append hl2 (by
      intro x hx
      simp only [List.mem_cons] at hx
      rcases hx with hx | hx
      · omega
      · exact valueBody_no41 hw x hx)]
    simp [Nat.add_assoc]
  have hl3 : line = (pre ++ [40]) ++ (valueBody v ++ 41 :: rest) := by rw [hl1]; simp
  have hslice : slice line (pre.length + 1) (pre.length + (valueBody v).length + 1) = valueBody v := by
    rw [show pre.length + (valueBody v).length + 1 = (pre ++ [40]).length + (valueBody v).length by
      simp only [List.length_append, List.length_cons, List.length_nil]; omega,
      show pre.length + 1 = (pre ++ [40]).length by simp]
    exact slice_append hl3
  have hl4 : line = (pre ++ renderValue v) ++ rest := by rw [hl]; simp
  have hnext : pre.length + (valueBody v).length + 1 + 1 = pre.length + (renderValue v).length := by
    rw [renderValue_length]; omega
  have hhead : line[pre.length + (renderValue v).length]? = rest.head? := by
    have := getElem?_append_head hl4
    simpa using this
  have hlen : line.length = pre.length + (renderValue v).length + rest.length := by
    rw [hl4]; simp only [List.length_append]
  rw [valuesLoop]
  simp only [h40, bne_self_eq_false, Bool.false_eq_true, if_false, hfind, hslice, parseValue_body hw, hnext, hhead]
  by_cases hr : rest = []
  · subst hr
    simp only [List.length_nil, Nat.add_zero] at hlen
    simp [hlen]
  · have : rest.length ≠ 0 := by
      intro h; exact hr (List.length_eq_zero_iff.mp h)
    have hne : ¬ (pre.length + (renderValue v).length = line.length) := by omega
    simp only [hne, hr, if_false]

end Amshan.P1ParseRT
