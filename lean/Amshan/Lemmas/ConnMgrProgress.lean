import Amshan.Props.C17
import Amshan.Lemmas.ConnMgrPacingInv
/-
  Lemmas for the progress theorems of C17 (Props/C17Progress.lean): a rank that every step of the
  manager's own tasks (and every factory result) decreases until the next `attempt`, and the
  machinery for infinite runs.
-/
namespace Amshan.ConnMgr
open Amshan.BackOff
set_option linter.unusedSimpArgs false   -- one simp set serves all branches of `next`

/-- number of connection attempts made so far -/
def attempts (s : S) : Nat := s.log.countP (fun x => x.2 == Ev.attempt)

/-- upper bound on the number of task steps / factory results still needed before the next attempt
    (clock advances not counted), for a manager that is not closing and holds no live connection -/
def rank (s : S) : Nat :=
  match s.lpc, s.t, s.conn with
  | .start, _, _ => 3
  | .w1, .created, _ => 2
  | .w1, .sleeping _, _ => 1
  | .w1, .inFactory, _ => 4
  | .w1, .finished, none => 3
  | .w1, .finished, some _ => 4
  | .w2, _, _ => 3
  | _, _, _ => 0

theorem progress_step {md th sl : Nat} (s s' : S) (l : Label) (hr : Reach md th sl s)
    (hc : s.closing = false) (hl : s.lpc ≠ .exited) (hlive : s.live = [])
    (hlab : l = .lRun ∨ l = .tRun ∨ l = .factoryOk ∨ l = .factoryFail ∨ l = .lose)
    (hs : next s l = some s') :
    attempts s' = attempts s + 1 ∨ (l = .factoryOk ∧ s.t = .inFactory ∧ s'.live ≠ []) ∨
      (s'.closing = false ∧ s'.lpc ≠ .exited ∧ s'.live = [] ∧ attempts s' = attempts s ∧ rank s' < rank s ∧
        (s.t ≠ .inFactory → s'.t ≠ .inFactory)) := by
  have hi := reach_inv hr
  obtain ⟨h1,h2,h3,h4,h5,h5',h6,h7,h8,h9,h10⟩ := hi
  obtain ⟨now, closing, conn, lpc, t, cancelReq, backoff, breaker, nextId, live, doneSet, waiters, log⟩ := s
  simp only at h1 h2 h3 h4 h5 h5' h6 h7 h8 h9 h10 hc hl hlive
  subst hc; subst hlive
  rcases hlab with rfl | rfl | rfl | rfl | rfl
  · cases lpc <;> cases conn <;> simp [next, topLogic, S.emit, closeTransport] at hs hl
    all_goals first
      | (subst hs; simp_all [attempts, rank]; done)
      | (obtain ⟨hc, hs⟩ := hs; subst hs; simp_all [attempts, rank]; done)
      | skip
  · cases lpc <;> cases t <;> cases cancelReq <;> simp [next, afterSleep, S.emit] at hs hl
    all_goals first
      | (subst hs; simp_all [attempts, rank]; done)
      | (obtain ⟨hc, hs⟩ := hs; subst hs; simp_all [attempts, rank]; done)
      | (split at hs <;> simp at hs <;> subst hs <;> simp_all [attempts, rank]; done)
      | skip
  · simp [next, S.emit] at hs
    obtain ⟨⟨ht, hc⟩, hs⟩ := hs; subst hs; subst ht; subst hc
    simp
  · simp [next, S.emit] at hs
    obtain ⟨⟨ht, hc⟩, hs⟩ := hs; subst hs; subst ht; subst hc
    cases lpc <;> simp_all [attempts, rank]
  · cases conn <;> simp [next, S.emit] at hs

/-- a step other than close() leaves `closing` clear -/
theorem closing_stays_clear (s s' : S) (l : Label) (hs : next s l = some s') (hl : l ≠ .close)
    (hc : s.closing = false) : s'.closing = false := by
  obtain ⟨now, closing, conn, lpc, t, cancelReq, backoff, breaker, nextId, live, doneSet, waiters, log⟩ := s
  simp only at hc
  subst hc
  cases l with
  | lRun =>
    cases lpc <;> cases conn <;> simp [next, topLogic, S.emit, closeTransport] at hs
    all_goals first
      | (subst hs; rfl)
      | (obtain ⟨_, hs⟩ := hs; subst hs; rfl)
  | tRun =>
    cases t <;> cases cancelReq <;> simp [next, afterSleep, S.emit] at hs
    all_goals first
      | (subst hs; rfl)
      | (obtain ⟨_, hs⟩ := hs; subst hs; rfl)
      | (split at hs <;> simp at hs <;> subst hs <;> rfl)
  | factoryOk =>
    simp [next, S.emit] at hs
    obtain ⟨_, hs⟩ := hs; subst hs; rfl
  | factoryFail =>
    simp [next, S.emit] at hs
    obtain ⟨_, hs⟩ := hs; subst hs; rfl
  | lose =>
    cases conn <;> simp [next, S.emit] at hs
    obtain ⟨_, hs⟩ := hs; subst hs; rfl
  | close => exact absurd rfl hl
  | tick d =>
    simp [next] at hs
    subst hs; rfl

theorem attempts_mono (s s' : S) (l : Label) (hs : next s l = some s') : attempts s ≤ attempts s' := by
  obtain ⟨_, _, _, _, ⟨evs, he, _⟩, _⟩ := next_frame s s' l hs
  simp [attempts, he, List.countP_append]

/-- the `lose` step empties `live`; the connect task is finished at that point -/
theorem lose_empties_live {md th sl : Nat} (s s' : S) (hr : Reach md th sl s)
    (hs : next s .lose = some s') : s'.live = [] ∧ s'.t = .finished := by
  have hi := reach_inv hr
  obtain ⟨h1,h2,h3,h4,h5,h5',h6,h7,h8,h9,h10⟩ := hi
  obtain ⟨now, closing, conn, lpc, t, cancelReq, backoff, breaker, nextId, live, doneSet, waiters, log⟩ := s
  simp only at h1 h3
  cases conn <;> simp [next, S.emit] at hs
  obtain ⟨hc, hs⟩ := hs; subst hs
  refine ⟨?_, (h3 _ rfl).1⟩
  rcases h1 with h0 | ⟨c, hl, hcc⟩
  · simp [h0]
  · simp at hcc; subst hcc; simp [hl]

/-- a pending timer can be waited out: advance the clock to the wake-up time, then the task runs and
    calls the factory -/
theorem sleeping_path (s : S) (u : Nat) (ht : s.t = .sleeping u) (hc : s.closing = false)
    (hcr : s.cancelReq = false) :
    ∃ s', runLabels s [.tick (u - s.now), .tRun] = some s' ∧ attempts s' = attempts s + 1 := by
  obtain ⟨now, closing, conn, lpc, t, cancelReq, backoff, breaker, nextId, live, doneSet, waiters, log⟩ := s
  simp only at ht hc hcr
  subst ht; subst hc; subst hcr
  have : u ≤ now + (u - now) := by omega
  simp [runLabels, next, afterSleep, S.emit, this, attempts, List.countP_append]

/-- a path of at most `n + 1` transitions to the next attempt from a state of rank at most `n` -/
theorem path_to_attempt {md th sl : Nat} (n : Nat) : ∀ s : S, Reach md th sl s → s.closing = false → s.lpc ≠ .exited →
    s.live = [] → rank s ≤ n →
    ∃ ls s', runLabels s ls = some s' ∧ ls.length ≤ n + 1 ∧
      (∀ l ∈ ls, l = .lRun ∨ l = .tRun ∨ l = .factoryFail ∨ ∃ d, l = .tick d) ∧
      attempts s' = attempts s + 1 := by
  induction n with
  | zero =>
    intro s hr hc hl hlive hn
    -- rank 0 does not occur in such a state: every enabled step would have to decrease it
    have hi := reach_inv hr
    have hcr : s.cancelReq = false := by
      cases hcr : s.cancelReq with
      | false => rfl
      | true => exact absurd (hi.cancelEx hcr) hl
    rcases Amshan.C17.no_deadlock s hr hl with ⟨s1, h1⟩ | ⟨s1, h1⟩ | ⟨u, h1⟩ | h1 | ⟨_, c, _, h1⟩
    · rcases progress_step s s1 .lRun hr hc hl hlive (by simp) h1 with h | ⟨h, _⟩ | ⟨_, _, _, _, h, _⟩
      · exact ⟨[.lRun], s1, by simp [runLabels, h1], by simp, by simp, h⟩
      · cases h
      · omega
    · rcases progress_step s s1 .tRun hr hc hl hlive (by simp) h1 with h | ⟨h, _⟩ | ⟨_, _, _, _, h, _⟩
      · exact ⟨[.tRun], s1, by simp [runLabels, h1], by simp, by simp, h⟩
      · cases h
      · omega
    · exfalso
      have h7 := hi.pcStart; have h8 := hi.pcW2
      unfold rank at hn
      cases hlp : s.lpc <;> simp_all
    · exfalso
      have h7 := hi.pcStart; have h8 := hi.pcW2
      unfold rank at hn
      cases hlp : s.lpc <;> simp_all
    · rw [hlive] at h1; cases h1
  | succ n ih =>
    intro s hr hc hl hlive hn
    have hi := reach_inv hr
    have hcr : s.cancelReq = false := by
      cases hcr : s.cancelReq with
      | false => rfl
      | true => exact absurd (hi.cancelEx hcr) hl
    -- one enabled step `l`, then the induction hypothesis
    have one : ∀ (l : Label) (s1 : S), (l = .lRun ∨ l = .tRun ∨ l = .factoryFail) → next s l = some s1 →
        ∃ ls s', runLabels s ls = some s' ∧ ls.length ≤ n + 1 + 1 ∧
          (∀ l ∈ ls, l = .lRun ∨ l = .tRun ∨ l = .factoryFail ∨ ∃ d, l = .tick d) ∧
          attempts s' = attempts s + 1 := by
      intro l s1 hl1 h1
      have hlab : l = .lRun ∨ l = .tRun ∨ l = .factoryOk ∨ l = .factoryFail ∨ l = .lose := by
        rcases hl1 with h | h | h <;> simp [h]
      have hall : l = .lRun ∨ l = .tRun ∨ l = .factoryFail ∨ ∃ d, l = .tick d := by
        rcases hl1 with h | h | h <;> simp [h]
      rcases progress_step s s1 l hr hc hl hlive hlab h1 with h | ⟨h, _⟩ | ⟨h2, h3, h4, h5, h6, _⟩
      · refine ⟨[l], s1, by simp [runLabels, h1], by simp, ?_, h⟩
        intro l' hl'; simp at hl'; subst hl'; exact hall
      · rcases hl1 with h' | h' | h' <;> rw [h'] at h <;> cases h
      · obtain ⟨ls, s', hrun, hlen, hlabs, hatt⟩ :=
          ih s1 (Reach.step s s1 l hr h1) h2 h3 h4 (by omega)
        refine ⟨l :: ls, s', by simp [runLabels, h1, hrun], by simp; omega, ?_, by omega⟩
        intro l' hl'
        rcases List.mem_cons.1 hl' with h' | h'
        · subst h'; exact hall
        · exact hlabs l' h'
    rcases Amshan.C17.no_deadlock s hr hl with ⟨s1, h1⟩ | ⟨s1, h1⟩ | ⟨u, h1⟩ | h1 | ⟨_, c, _, h1⟩
    · exact one .lRun s1 (by simp) h1
    · exact one .tRun s1 (by simp) h1
    · obtain ⟨s', hrun, hatt⟩ := sleeping_path s u h1 hc hcr
      refine ⟨_, s', hrun, by simp, ?_, hatt⟩
      intro l hl'
      simp at hl'
      rcases hl' with h | h <;> simp [h]
    · have hen : ∃ s1, next s .factoryFail = some s1 := by
        simp [next, h1, hcr]
      obtain ⟨s1, h1'⟩ := hen
      exact one .factoryFail s1 (by simp) h1'
    · rw [hlive] at h1; cases h1

/-! ### infinite runs -/

/-- an infinite run of the manager in a fair environment that never calls close() -/
structure FairRun (md th sl : Nat) where
  st : Nat → S
  lab : Nat → Label
  step : ∀ i, next (st i) (lab i) = some (st (i + 1))
  reach0 : Reach md th sl (st 0)
  open0 : (st 0).closing = false
  alive0 : (st 0).lpc ≠ .exited
  noClose : ∀ i, lab i ≠ .close
  loopRuns : ∀ i, (next (st i) .lRun).isSome → ∃ j, i ≤ j ∧ lab j = .lRun
  taskRuns : ∀ i, (next (st i) .tRun).isSome → ∃ j, i ≤ j ∧ lab j = .tRun
  clock : ∀ i T, ∃ j, i ≤ j ∧ T ≤ (st j).now
  factoryEnds : ∀ i, (st i).t = .inFactory → ∃ j, i ≤ j ∧ (lab j = .factoryOk ∨ lab j = .factoryFail)

namespace FairRun
variable {md th sl : Nat} (r : FairRun md th sl)

theorem core (i : Nat) : Reach md th sl (r.st i) ∧ (r.st i).closing = false ∧ (r.st i).lpc ≠ .exited := by
  induction i with
  | zero => exact ⟨r.reach0, r.open0, r.alive0⟩
  | succ i ih =>
    obtain ⟨h1, h2, h3⟩ := ih
    refine ⟨Reach.step _ _ _ h1 (r.step i), closing_stays_clear _ _ _ (r.step i) (r.noClose i) h2, ?_⟩
    intro he
    have := Amshan.C17.exits_only_when_closing _ _ _ h1 (r.step i) h3 he
    rw [h2] at this; cases this

theorem attempts_le {i j : Nat} (h : i ≤ j) : attempts (r.st i) ≤ attempts (r.st j) := by
  induction j with
  | zero => have : i = 0 := by omega
            subst this; exact Nat.le_refl _
  | succ j ih =>
    by_cases hij : i = j + 1
    · subst hij; exact Nat.le_refl _
    · exact Nat.le_trans (ih (by omega)) (attempts_mono _ _ _ (r.step j))

/-- if only the clock moves from `i` on, nothing but the clock changes -/
theorem only_ticks (i : Nat) (h : ∀ j, i ≤ j → ∃ d, r.lab j = .tick d) (j : Nat) (hj : i ≤ j) :
    (r.st j).t = (r.st i).t ∧ (r.st j).cancelReq = (r.st i).cancelReq := by
  induction j with
  | zero => have : i = 0 := by omega
            subst this; exact ⟨rfl, rfl⟩
  | succ j ih =>
    by_cases hij : i = j + 1
    · subst hij; exact ⟨rfl, rfl⟩
    · have hj' : i ≤ j := by omega
      obtain ⟨d, hd⟩ := h j hj'
      have hs := r.step j
      rw [hd] at hs
      simp only [next, Option.some.injEq] at hs
      rw [← hs]
      exact ih hj'

/-- in a fair run something other than a clock advance eventually happens while the manager is not
    closing and holds no live connection -/
theorem eventually_nontick (i : Nat) (hlive : (r.st i).live = []) :
    ∃ j, i ≤ j ∧ ¬ ∃ d, r.lab j = .tick d := by
  apply Classical.byContradiction
  intro hno
  have hall : ∀ j, i ≤ j → ∃ d, r.lab j = .tick d := by
    intro j hj
    apply Classical.byContradiction
    intro hn
    exact hno ⟨j, hj, hn⟩
  obtain ⟨hr, hc, hl⟩ := r.core i
  have hcr : (r.st i).cancelReq = false := by
    cases hcr : (r.st i).cancelReq with
    | false => rfl
    | true => exact absurd ((reach_inv hr).cancelEx hcr) hl
  rcases Amshan.C17.no_deadlock _ hr hl with ⟨s', h1⟩ | ⟨s', h1⟩ | ⟨u, h1⟩ | h1 | ⟨_, c, _, h1⟩
  · obtain ⟨j, hj, hlab⟩ := r.loopRuns i (by rw [h1]; rfl)
    obtain ⟨d, hd⟩ := hall j hj
    rw [hd] at hlab; cases hlab
  · obtain ⟨j, hj, hlab⟩ := r.taskRuns i (by rw [h1]; rfl)
    obtain ⟨d, hd⟩ := hall j hj
    rw [hd] at hlab; cases hlab
  · obtain ⟨j1, hj1, hnow⟩ := r.clock i u
    obtain ⟨ht, hcr'⟩ := r.only_ticks i hall j1 hj1
    rw [h1] at ht; rw [hcr] at hcr'
    have hen : (next (r.st j1) .tRun).isSome := by
      simp [next, hcr', ht, hnow]
    obtain ⟨j, hj, hlab⟩ := r.taskRuns j1 hen
    obtain ⟨d, hd⟩ := hall j (by omega)
    rw [hd] at hlab; cases hlab
  · obtain ⟨j, hj, hlab⟩ := r.factoryEnds i h1
    obtain ⟨d, hd⟩ := hall j hj
    rw [hd] at hlab; rcases hlab with hlab | hlab <;> cases hlab
  · rw [hlive] at h1; cases h1

/-- what can be said at a later point `j` about the point `i` where no connection is live -/
def Outcome (i j : Nat) : Prop :=
  attempts (r.st j) = attempts (r.st i) + 1 ∨ ((r.st j).live ≠ [] ∧ (r.st i).t = .inFactory) ∨
    ((r.st j).live = [] ∧ attempts (r.st j) = attempts (r.st i) ∧ rank (r.st j) < rank (r.st i) ∧
      ((r.st i).t ≠ .inFactory → (r.st j).t ≠ .inFactory))

/-- a step that is not a clock advance, taken while no connection is live -/
theorem step_nontick (i : Nat) (hlive : (r.st i).live = []) (hnt : ¬ ∃ d, r.lab i = .tick d) :
    r.Outcome i (i + 1) := by
  obtain ⟨hr, hc, hl⟩ := r.core i
  have hlab : r.lab i = .lRun ∨ r.lab i = .tRun ∨ r.lab i = .factoryOk ∨ r.lab i = .factoryFail ∨
      r.lab i = .lose := by
    have := r.noClose i
    cases hlj : r.lab i with
    | tick d => exact absurd ⟨d, hlj⟩ hnt
    | close => exact absurd hlj this
    | _ => simp
  rcases progress_step _ _ _ hr hc hl hlive hlab (r.step i) with h1 | ⟨_, h0, h1⟩ | ⟨_, _, h1, h2, h3, h4⟩
  · exact Or.inl h1
  · exact Or.inr (Or.inl ⟨h1, h0⟩)
  · exact Or.inr (Or.inr ⟨h1, h2, h3, h4⟩)

theorem rank_decreases_aux (n : Nat) : ∀ i, (r.st i).live = [] → (¬ ∃ d, r.lab (i + n) = .tick d) →
    ∃ j, i ≤ j ∧ r.Outcome i j := by
  induction n with
  | zero => intro i hlive hnt; exact ⟨i + 1, by omega, r.step_nontick i hlive hnt⟩
  | succ n ih =>
    intro i hlive hnt
    by_cases hti : ∃ d, r.lab i = .tick d
    · obtain ⟨d, hd⟩ := hti
      have hs := r.step i
      rw [hd] at hs
      simp only [next, Option.some.injEq] at hs
      have hlive' : (r.st (i + 1)).live = [] := by rw [← hs]; exact hlive
      have ha : attempts (r.st (i + 1)) = attempts (r.st i) := by rw [← hs]; rfl
      have hrk : rank (r.st (i + 1)) = rank (r.st i) := by rw [← hs]; rfl
      have ht : (r.st (i + 1)).t = (r.st i).t := by rw [← hs]
      obtain ⟨j', hj', hres⟩ := ih (i + 1) hlive' (by rw [Nat.add_right_comm, Nat.add_assoc] at *; exact hnt)
      refine ⟨j', by omega, ?_⟩
      unfold Outcome at hres ⊢
      rw [ha, hrk, ht] at hres
      exact hres
    · exact ⟨i + 1, by omega, r.step_nontick i hlive hti⟩

/-- from a point where no connection is live: a new attempt, or a live connection, or a smaller rank -/
theorem rank_decreases (i : Nat) (hlive : (r.st i).live = []) : ∃ j, i ≤ j ∧ r.Outcome i j := by
  obtain ⟨j, hj, hnt⟩ := r.eventually_nontick i hlive
  have : j = i + (j - i) := by omega
  rw [this] at hnt
  exact r.rank_decreases_aux (j - i) i hlive hnt

theorem progress_aux (n : Nat) : ∀ i, rank (r.st i) ≤ n → (r.st i).live = [] →
    ∃ j, i ≤ j ∧ (attempts (r.st j) = attempts (r.st i) + 1 ∨
      ((r.st j).live ≠ [] ∧ ∃ k, i ≤ k ∧ k ≤ j ∧ (r.st k).t = .inFactory ∧ attempts (r.st k) = attempts (r.st i))) := by
  induction n with
  | zero =>
    intro i hn hlive
    obtain ⟨j, hj, h1 | h1 | ⟨_, _, h1, _⟩⟩ := r.rank_decreases i hlive
    · exact ⟨j, hj, Or.inl h1⟩
    · exact ⟨j, hj, Or.inr ⟨h1.1, i, Nat.le_refl _, hj, h1.2, rfl⟩⟩
    · omega
  | succ n ih =>
    intro i hn hlive
    obtain ⟨j, hj, h1 | h1 | ⟨h0, ha, h1, _⟩⟩ := r.rank_decreases i hlive
    · exact ⟨j, hj, Or.inl h1⟩
    · exact ⟨j, hj, Or.inr ⟨h1.1, i, Nat.le_refl _, hj, h1.2, rfl⟩⟩
    · obtain ⟨j', hj', hres⟩ := ih j (by omega) h0
      rw [ha] at hres
      refine ⟨j', by omega, ?_⟩
      rcases hres with h | ⟨h, k, hk1, hk2, hk3, hk4⟩
      · exact Or.inl h
      · exact Or.inr ⟨h, k, by omega, hk2, hk3, hk4⟩

/-- the same when the connect task is not inside the factory: only a new attempt can come next -/
theorem progress_aux' (n : Nat) : ∀ i, rank (r.st i) ≤ n → (r.st i).live = [] → (r.st i).t ≠ .inFactory →
    ∃ j, i ≤ j ∧ attempts (r.st j) = attempts (r.st i) + 1 := by
  induction n with
  | zero =>
    intro i hn hlive hnf
    obtain ⟨j, hj, h1 | h1 | ⟨_, _, h1, _⟩⟩ := r.rank_decreases i hlive
    · exact ⟨j, hj, h1⟩
    · exact absurd h1.2 hnf
    · omega
  | succ n ih =>
    intro i hn hlive hnf
    obtain ⟨j, hj, h1 | h1 | ⟨h0, ha, h1, h2⟩⟩ := r.rank_decreases i hlive
    · exact ⟨j, hj, h1⟩
    · exact absurd h1.2 hnf
    · obtain ⟨j', hj', hres⟩ := ih j (by omega) h0 (h2 hnf)
      rw [ha] at hres
      exact ⟨j', by omega, hres⟩

/-- **progress**: from any point of a fair run, a new connection attempt is eventually made unless a
    connection becomes live first -/
theorem progress (i : Nat) :
    ∃ j, i ≤ j ∧ (attempts (r.st j) = attempts (r.st i) + 1 ∨ (r.st j).live ≠ []) := by
  by_cases hlive : (r.st i).live = []
  · obtain ⟨j, hj, h | h⟩ := r.progress_aux _ i (Nat.le_refl _) hlive
    · exact ⟨j, hj, Or.inl h⟩
    · exact ⟨j, hj, Or.inr h.1⟩
  · exact ⟨i, Nat.le_refl _, Or.inr hlive⟩

/-- if moreover every live connection is eventually lost, the number of attempts grows without bound -/
theorem unbounded_attempts
    (connDies : ∀ i, (r.st i).live ≠ [] → ∃ j, i ≤ j ∧ r.lab j = .lose) (N : Nat) :
    ∃ j, N ≤ attempts (r.st j) := by
  induction N with
  | zero => exact ⟨0, Nat.zero_le _⟩
  | succ N ih =>
    obtain ⟨j, hj⟩ := ih
    obtain ⟨j2, hj2, h | h⟩ := r.progress j
    · exact ⟨j2, by omega⟩
    · obtain ⟨j3, hj3, hl⟩ := connDies j2 h
      have hs := r.step j3
      rw [hl] at hs
      obtain ⟨hdead, hfin⟩ := lose_empties_live _ _ (r.core j3).1 hs
      obtain ⟨j4, hj4, ha⟩ := r.progress_aux' _ (j3 + 1) (Nat.le_refl _) hdead (by rw [hfin]; simp)
      have h1 : attempts (r.st j) ≤ attempts (r.st (j3 + 1)) := r.attempts_le (by omega)
      exact ⟨j4, by omega⟩

end FairRun

/-! ### a concrete fair run (witness for Props/C17Progress.lean) -/

/-- the fairness assumptions are jointly satisfiable, on a run with infinitely many attempts:
    max_delay 0 (no back-off), the factory always raises; from the state after connect_loop's first
    step the cycle `tRun (attempt), factoryFail, lRun, tick 1` repeats for ever. -/
def cycLab (i : Nat) : Label :=
  match i % 4 with
  | 0 => .tRun
  | 1 => .factoryFail
  | 2 => .lRun
  | _ => .tick 1

def cycSt : Nat → S
  | 0 => topLogic (S.init 0 5 5)
  | i + 1 => (next (cycSt i) (cycLab i)).getD (cycSt i)

def CycInv (i : Nat) (s : S) : Prop :=
  s.closing = false ∧ s.cancelReq = false ∧ s.conn = none ∧ s.live = [] ∧ s.backoff.maxDelay = 0 ∧
  s.breaker.sleepFlag = false ∧ s.lpc = .w1 ∧ s.now = i / 4 ∧
  (i % 4 = 0 → s.t = .created) ∧ (i % 4 = 1 → s.t = .inFactory) ∧ (i % 4 = 2 → s.t = .finished) ∧
  (i % 4 = 3 → s.t = .created)

theorem cyc_step (i : Nat) (s : S) (h : CycInv i s) :
    ∃ s', next s (cycLab i) = some s' ∧ CycInv (i + 1) s' := by
  obtain ⟨h1, h2, h3, h4, h5, h6, h7, h8, h9, h10, h11, h12⟩ := h
  obtain ⟨now, closing, conn, lpc, t, cancelReq, backoff, breaker, nextId, live, doneSet, waiters, log⟩ := s
  simp only at h1 h2 h3 h4 h5 h6 h7 h8 h9 h10 h11 h12
  subst h1; subst h2; subst h3; subst h4; subst h7
  have hm : i % 4 = 0 ∨ i % 4 = 1 ∨ i % 4 = 2 ∨ i % 4 = 3 := by omega
  rcases hm with hm | hm | hm | hm
  · have ht := h9 hm; subst ht
    have hg : getBackOffTime backoff breaker = 0 := by
      simp [getBackOffTime, Strategy.current, h5, h6]
    refine ⟨_, by simp [cycLab, hm, next, hg, afterSleep]; rfl, ?_⟩
    simp [CycInv, S.emit, h5, h6]
    omega
  · have ht := h10 hm; subst ht
    refine ⟨_, by simp [cycLab, hm, next]; rfl, ?_⟩
    simp [CycInv, S.emit, Strategy.failure, h5, h6]
    omega
  · have ht := h11 hm; subst ht
    refine ⟨_, by simp [cycLab, hm, next, topLogic]; rfl, ?_⟩
    simp [CycInv, h5, h6]
    omega
  · have ht := h12 hm; subst ht
    refine ⟨_, by simp [cycLab, hm, next]; rfl, ?_⟩
    simp [CycInv, h5, h6]
    omega

theorem cyc_inv (i : Nat) : CycInv i (cycSt i) := by
  induction i with
  | zero => simp [CycInv, cycSt, topLogic, S.init, Strategy.new]
  | succ i ih =>
    obtain ⟨s', h1, h2⟩ := cyc_step i _ ih
    simp only [cycSt, h1, Option.getD_some]
    exact h2

end Amshan.ConnMgr
