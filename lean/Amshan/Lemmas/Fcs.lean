import Amshan.Model.Fcs
import Amshan.Spec.Rfc1662
/-
  Helper lemmas for C03: the table-driven step equals the bit-serial RFC 1662 step, and the
  "good FCS" residue.  Route: the serial shift `f` is xor-linear; everything else follows from
  linearity plus 256-case evaluations.  No 2^16 enumeration.
-/
namespace Amshan.FcsLemmas
open Amshan.Gen Amshan.Rfc1662

/-- one serial shift of the register (message bit already xor-ed in) -/
def f (x : Nat) : Nat := if x % 2 = 1 then (x >>> 1) ^^^ poly else x >>> 1

def iter : Nat → Nat → Nat
  | 0, x => x
  | n + 1, x => iter n (f x)

theorem xor_eq_zero {a b : Nat} (h : a ^^^ b = 0) : a = b := by
  have : a ^^^ (a ^^^ b) = a := by rw [h, Nat.xor_zero]
  rw [← Nat.xor_assoc, Nat.xor_self, Nat.zero_xor] at this
  exact this.symm

theorem xor_mod2 (x y : Nat) : (x ^^^ y) % 2 = (x % 2 + y % 2) % 2 := by
  have h := Nat.testBit_xor x y 0
  simp only [Nat.testBit_zero] at h
  rcases Nat.mod_two_eq_zero_or_one x with hx | hx <;>
  rcases Nat.mod_two_eq_zero_or_one y with hy | hy <;>
  rcases Nat.mod_two_eq_zero_or_one (x ^^^ y) with hz | hz <;>
  simp_all

theorem f_lin (x y : Nat) : f (x ^^^ y) = f x ^^^ f y := by
  unfold f
  rw [xor_mod2, Nat.shiftRight_xor_distrib]
  rcases Nat.mod_two_eq_zero_or_one x with hx | hx <;>
  rcases Nat.mod_two_eq_zero_or_one y with hy | hy <;>
  simp [hx, hy]
  · ac_rfl
  · ac_rfl
  · have : poly ^^^ (y >>> 1 ^^^ poly) = y >>> 1 := by
      rw [Nat.xor_comm (y >>> 1), ← Nat.xor_assoc, Nat.xor_self, Nat.zero_xor]
    rw [Nat.xor_assoc, this]

theorem iter_lin (n x y : Nat) : iter n (x ^^^ y) = iter n x ^^^ iter n y := by
  induction n generalizing x y with
  | zero => rfl
  | succ n ih => simp only [iter, f_lin, ih]

theorem iter_add (m n x : Nat) : iter (m + n) x = iter n (iter m x) := by
  induction m generalizing x with
  | zero => simp [iter]
  | succ m ih => rw [Nat.succ_add]; simp only [iter, ih]

theorem f_zero : f 0 = 0 := by decide
theorem iter_zero (n : Nat) : iter n 0 = 0 := by
  induction n with
  | zero => rfl
  | succ n ih => simp only [iter, f_zero, ih]

theorem f_lt (x : Nat) (h : x < 65536) : f x < 65536 := by
  unfold f
  have h1 : x >>> 1 < 2 ^ 16 := by rw [Nat.shiftRight_eq_div_pow]; omega
  have hp : poly < 2 ^ 16 := by decide
  split
  · exact Nat.xor_lt_two_pow h1 hp
  · omega

theorem iter_lt (n x : Nat) (h : x < 65536) : iter n x < 65536 := by
  induction n generalizing x with
  | zero => exact h
  | succ n ih => exact ih _ (f_lt x h)

/-- `f` has trivial kernel on 16-bit values (bit 15 of the polynomial is set). -/
theorem f_ker (x : Nat) (h : x < 65536) (h0 : f x = 0) : x = 0 := by
  unfold f at h0
  have hs : x >>> 1 = x / 2 := by rw [Nat.shiftRight_eq_div_pow]
  split at h0
  · have := xor_eq_zero h0
    rw [hs] at this
    have hp : poly = 33800 := rfl
    omega
  · rw [hs] at h0; omega

theorem f_inj (x y : Nat) (hx : x < 65536) (hy : y < 65536) (h : f x = f y) : x = y := by
  have h1 : f (x ^^^ y) = 0 := by rw [f_lin, h, Nat.xor_self]
  have hlt : x ^^^ y < 2 ^ 16 := Nat.xor_lt_two_pow hx hy
  exact xor_eq_zero (f_ker _ hlt h1)

theorem iter_inj (n x y : Nat) (hx : x < 65536) (hy : y < 65536) (h : iter n x = iter n y) : x = y := by
  induction n generalizing x y with
  | zero => exact h
  | succ n ih => exact f_inj x y hx hy (ih _ _ (f_lt x hx) (f_lt y hy) h)

/-! ### the bit-serial specification in terms of `f` -/

theorem stepBit_eq (crc bit : Nat) (hb : bit < 2) : stepBit crc bit = f (crc ^^^ bit) := by
  unfold stepBit f
  have : (crc ^^^ bit) >>> 1 = crc >>> 1 := by
    rw [Nat.shiftRight_xor_distrib]
    have : bit >>> 1 = 0 := by rw [Nat.shiftRight_eq_div_pow]; omega
    rw [this, Nat.xor_zero]
  rw [this]

theorem f_xor_byte (crc byte : Nat) : f (crc ^^^ byte) = stepBit crc (byte % 2) ^^^ (byte / 2) := by
  rw [stepBit_eq _ _ (Nat.mod_lt _ (by decide))]
  have hb : byte = (byte % 2) ^^^ ((byte / 2) <<< 1) := by
    apply Nat.eq_of_testBit_eq
    intro i
    rw [Nat.testBit_xor]
    cases i with
    | zero =>
      simp only [Nat.testBit_zero, Nat.shiftLeft_eq]
      have : (byte / 2 * 2 ^ 1) % 2 = 0 := by omega
      rcases Nat.mod_two_eq_zero_or_one byte with h | h <;> simp [h, this]
    | succ i =>
      rw [Nat.testBit_shiftLeft]
      have h1 : (byte % 2).testBit (i + 1) = false := by
        apply Nat.testBit_lt_two_pow
        have : byte % 2 < 2 := Nat.mod_lt _ (by decide)
        have : 2 ≤ 2 ^ (i + 1) := by
          have := Nat.pow_le_pow_right (show 1 ≤ 2 by decide) (show 1 ≤ i + 1 by omega)
          simpa using this
        omega
      rw [h1]
      simp only [Bool.false_xor, ge_iff_le, Nat.le_add_left, decide_true, Nat.add_sub_cancel, Bool.true_and]
      rw [Nat.testBit_succ]
  have hf2 : f ((byte / 2) <<< 1) = byte / 2 := by
    unfold f
    have h0 : ((byte / 2) <<< 1) % 2 = 0 := by rw [Nat.shiftLeft_eq]; omega
    have h1 : ((byte / 2) <<< 1) >>> 1 = byte / 2 := by
      rw [Nat.shiftLeft_eq, Nat.shiftRight_eq_div_pow]; omega
    simp [h0, h1]
  conv => lhs; rw [hb, ← Nat.xor_assoc, f_lin, hf2]

theorem stepBits_eq (n crc byte : Nat) : stepBits n crc byte ^^^ (byte / 2 ^ n) = iter n (crc ^^^ byte) := by
  induction n generalizing crc byte with
  | zero => simp [stepBits, iter]
  | succ n ih =>
    simp only [stepBits, iter]
    rw [f_xor_byte, ← ih, Nat.div_div_eq_div_mul, Nat.pow_succ, Nat.mul_comm]

theorem stepSerial_eq (crc byte : Nat) (hb : byte < 256) : stepSerial crc byte = iter 8 (crc ^^^ byte) := by
  have := stepBits_eq 8 crc byte
  have h0 : byte / 2 ^ 8 = 0 := by
    apply Nat.div_eq_of_lt; simpa using hb
  rw [h0, Nat.xor_zero] at this
  exact this

/-! ### the table -/

theorem table_length : fcsTable.length = 256 := by decide +kernel

set_option maxRecDepth 8192 in
/-- the regenerated table is the RFC table: entry `i` = eight serial shifts of `i`. -/
theorem table_eq : fcsTable = (List.range 256).map (iter 8) := by decide +kernel

theorem table_get (i : Nat) (h : i < 256) : fcsTable.getD i 0 = iter 8 i := by
  rw [table_eq]
  simp [List.getD, h]

theorem f8_hi_all : (List.range 256).all (fun h => iter 8 (h * 256) == h) = true := by decide +kernel

theorem f8_hi (h : Nat) (hh : h < 256) : iter 8 (h * 256) = h := by
  have := f8_hi_all
  rw [List.all_eq_true] at this
  have := this h (List.mem_range.mpr hh)
  simpa using this

theorem split16 (x : Nat) : x = ((x >>> 8) * 256) ^^^ (x &&& 0xFF) := by
  apply Nat.eq_of_testBit_eq
  intro i
  rw [Nat.testBit_xor]
  have h256 : (256 : Nat) = 2 ^ 8 := rfl
  have hFF : (0xFF : Nat) = 2 ^ 8 - 1 := rfl
  rw [h256, ← Nat.shiftLeft_eq, Nat.testBit_shiftLeft, hFF, Nat.testBit_and, Nat.testBit_two_pow_sub_one,
    Nat.testBit_shiftRight]
  by_cases hi : i < 8
  · have : ¬ (i ≥ 8) := by omega
    simp [hi, this]
  · have h8 : i ≥ 8 := by omega
    have : 8 + (i - 8) = i := by omega
    simp [hi, h8, this]

theorem f8_split (x : Nat) (hx : x < 65536) : iter 8 x = (x >>> 8) ^^^ iter 8 (x &&& 0xFF) := by
  have hh : x >>> 8 < 256 := by rw [Nat.shiftRight_eq_div_pow]; omega
  conv => lhs; rw [split16 x]
  rw [iter_lin, f8_hi _ hh]

theorem and_ff_lt (x : Nat) : x &&& 0xFF < 256 := by
  have : (0xFF : Nat) = 2 ^ 8 - 1 := rfl
  rw [this, Nat.and_two_pow_sub_one_eq_mod]
  exact Nat.mod_lt _ (by decide)

/-- table-driven step = eight serial shifts of `r ^^^ b` -/
theorem next_eq_iter (r b : Nat) (hr : r < 65536) (hb : b < 256) : Fcs.next r b = iter 8 (r ^^^ b) := by
  unfold Fcs.next
  rw [table_get _ (and_ff_lt _)]
  have hx : r ^^^ b < 2 ^ 16 := Nat.xor_lt_two_pow hr (by omega)
  rw [f8_split _ hx, Nat.shiftRight_xor_distrib]
  have : b >>> 8 = 0 := by rw [Nat.shiftRight_eq_div_pow]; omega
  rw [this, Nat.xor_zero]

theorem next_lt (r b : Nat) (hr : r < 65536) (hb : b < 256) : Fcs.next r b < 65536 := by
  rw [next_eq_iter r b hr hb]
  exact iter_lt 8 _ (Nat.xor_lt_two_pow (n := 16) hr (by omega))

theorem feed_lt (r : Nat) (bs : List Nat) (hr : r < 65536) (h : Octets bs) : Fcs.feed r bs < 65536 := by
  induction bs generalizing r with
  | nil => exact hr
  | cons b bs ih =>
    simp only [Fcs.feed, List.foldl_cons]
    exact ih _ (next_lt r b hr (h b (by simp))) (fun x hx => h x (by simp [hx]))

theorem feed_append (r : Nat) (a b : List Nat) : Fcs.feed r (a ++ b) = Fcs.feed (Fcs.feed r a) b := by
  simp [Fcs.feed, List.foldl_append]

/-- two steps with trailer octets `t0`, `t1` = sixteen shifts of `r ^^^ (t0 + 256 t1)` -/
theorem two_steps (r t0 t1 : Nat) (hr : r < 65536) (h0 : t0 < 256) (h1 : t1 < 256) :
    Fcs.next (Fcs.next r t0) t1 = iter 16 (r ^^^ (t0 ^^^ (t1 * 256))) := by
  rw [next_eq_iter _ _ (next_lt r t0 hr h0) h1, next_eq_iter r t0 hr h0]
  rw [show (16 : Nat) = 8 + 8 from rfl, iter_add, ← Nat.xor_assoc, iter_lin 8 (r ^^^ t0), f8_hi t1 h1]

theorem good_const : iter 16 0xFFFF = fcsGood := by decide +kernel

theorem trailer_lt (t0 t1 : Nat) (h0 : t0 < 256) (h1 : t1 < 256) : t0 ^^^ (t1 * 256) < 65536 :=
  Nat.xor_lt_two_pow (n := 16) (by omega) (by omega)

theorem trailer_eq_add (t0 t1 : Nat) (h0 : t0 < 256) : t0 ^^^ (t1 * 256) = t0 + t1 * 256 := by
  have h256 : (256 : Nat) = 2 ^ 8 := rfl
  rw [Nat.xor_comm, Nat.add_comm, h256, Nat.mul_comm]
  apply Nat.eq_of_testBit_eq
  intro i
  rw [Nat.testBit_xor, Nat.testBit_two_pow_mul_add _ (by simpa using h0), Nat.testBit_two_pow_mul]
  by_cases hi : i < 8
  · have : ¬ (i ≥ 8) := by omega
    simp [hi, this]
  · have h8 : i ≥ 8 := by omega
    have : t0.testBit i = false := by
      apply Nat.testBit_lt_two_pow
      have := Nat.pow_le_pow_right (show 1 ≤ 2 by decide) h8
      omega
    simp [hi, h8, this]

end Amshan.FcsLemmas
