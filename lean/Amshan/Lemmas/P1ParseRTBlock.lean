import Amshan.Lemmas.P1ParseRTLine
open Amshan Amshan.Gen Amshan.Cosem Amshan.P1Parse Amshan.P1BlockSpec Amshan.Py
namespace Amshan.P1ParseRT

/-- the text of a line without its line end -/
def lineContent (l : LineDesc) : List Nat := l.sets.flatMap renderSet

def printable (c : Nat) : Prop := 32 < c ∧ c ≤ 126

theorem valueBody_printable {v : ValueDesc} (h : v.WF) : ∀ x ∈ valueBody v, printable x := by
  obtain ⟨h1, h2⟩ := h
  intro x hx
  unfold valueBody at hx
  rw [List.mem_append] at hx
  rcases hx with hx | hx
  · exact (all_plain h1 x hx).2.2.2
  · cases hu : v.unit with
    | none => rw [hu] at hx; simp at hx
    | some u =>
      rw [hu] at hx h2
      simp only [List.cons_append, List.nil_append, List.mem_cons] at hx
      rcases hx with hx | hx
      · subst hx; exact ⟨by omega, by omega⟩
      · exact (all_plain h2 x hx).2.2.2

theorem renderValue_printable {v : ValueDesc} (h : v.WF) : ∀ x ∈ renderValue v, printable x := by
  intro x hx
  rw [renderValue_eq] at hx
  simp only [List.mem_cons, List.mem_append, List.not_mem_nil, or_false] at hx
  rcases hx with hx | hx | hx
  · subst hx; exact ⟨by omega, by omega⟩
  · exact valueBody_printable h x hx
  · subst hx; exact ⟨by omega, by omega⟩

theorem renderSet_printable {d : DataSetDesc} (h : d.WF) : ∀ x ∈ renderSet d, printable x := by
  obtain ⟨_, h2, _, h4⟩ := h
  intro x hx
  unfold renderSet at hx
  rw [List.mem_append, List.mem_flatMap] at hx
  rcases hx with hx | ⟨v, hv, hx⟩
  · exact (all_plain h2 x hx).2.2.2
  · exact renderValue_printable (h4 v hv) x hx

theorem lineContent_printable {l : LineDesc} (h : l.WF) : ∀ x ∈ lineContent l, printable x := by
  intro x hx
  unfold lineContent at hx
  rw [List.mem_flatMap] at hx
  obtain ⟨d, hd, hx⟩ := hx
  exact renderSet_printable (h d hd) x hx

/-! ### splitLines of a rendered block -/

theorem splitLinesGo_printable (content : List Nat) (h : ∀ x ∈ content, printable x) :
    ∀ (rest cur : List Nat), splitLinesGo (content ++ rest) cur false = splitLinesGo rest (content.reverse ++ cur) false := by
  induction content with
  | nil => intro rest cur; rfl
  | cons c cs ih =>
    intro rest cur
    have hc := h c (by simp)
    unfold printable at hc
    have h10 : (c == 10) = false := by simp; omega
    have h13 : (c == 13) = false := by simp; omega
    have hb : isLineBreak c = false := by
      simp only [isLineBreak, Bool.or_eq_false_iff, beq_eq_false_iff_ne, ne_eq]
      omega
    rw [List.cons_append, splitLinesGo]
    simp only [h10, h13, hb, Bool.false_and, Bool.false_eq_true, if_false]
    rw [ih (fun x hx => h x (by simp [hx]))]
    simp

theorem splitLinesGo_renderLine {l : LineDesc} (h : l.WF) (rest : List Nat) :
    splitLinesGo (renderLine l ++ rest) [] false = lineContent l :: splitLinesGo rest [] false := by
  unfold renderLine
  rw [List.append_assoc]
  show splitLinesGo (lineContent l ++ _) [] false = _
  rw [splitLinesGo_printable _ (lineContent_printable h)]
  cases l.crlf with
  | true =>
    simp only [if_true, List.cons_append, List.nil_append, List.append_nil]
    rw [splitLinesGo]
    simp only [show ((13 : Nat) == 10) = false by decide, Bool.false_and, Bool.false_eq_true, if_false,
      beq_self_eq_true, if_true, List.reverse_reverse]
    rw [splitLinesGo]
    simp
  | false =>
    simp only [Bool.false_eq_true, if_false, List.cons_append, List.nil_append, List.append_nil]
    rw [splitLinesGo]
    simp [isLineBreak]

theorem splitLines_render (b : List LineDesc) (h : ∀ l ∈ b, l.WF) :
    splitLines (render b) = b.map lineContent := by
  unfold splitLines render
  induction b with
  | nil => simp [splitLinesGo]
  | cons l b ih =>
    rw [List.flatMap_cons, splitLinesGo_renderLine (h l (by simp)), ih (fun l hl => h l (by simp [hl]))]
    simp

/-! ### strip -/

theorem dropWhile_space_printable (s : List Nat) (h : ∀ x ∈ s, printable x) : s.dropWhile isStrSpace = s := by
  cases s with
  | nil => rfl
  | cons a t =>
    have ha := h a (by simp)
    unfold printable at ha
    have : isStrSpace a = false := by
      simp only [isStrSpace, Bool.or_eq_false_iff, Bool.and_eq_false_iff, beq_eq_false_iff_ne, ne_eq,
        decide_eq_false_iff_not]
      omega
    simp [this]

theorem strip_printable (s : List Nat) (h : ∀ x ∈ s, printable x) : strip s = s := by
  unfold strip rstripWith
  rw [dropWhile_space_printable s h, dropWhile_space_printable s.reverse (by simpa using h)]
  simp

/-! ### ASCII -/

theorem render_isAscii (b : List LineDesc) (h : ∀ l ∈ b, l.WF) : isAscii (render b) = true := by
  unfold isAscii render
  rw [List.all_eq_true]
  intro x hx
  rw [List.mem_flatMap] at hx
  obtain ⟨l, hl, hx⟩ := hx
  unfold renderLine at hx
  rw [List.mem_append] at hx
  rcases hx with hx | hx
  · have := lineContent_printable (h l hl) x hx
    unfold printable at this
    simp only [decide_eq_true_eq]; omega
  · cases hcr : l.crlf <;> rw [hcr] at hx <;> simp at hx <;> simp only [decide_eq_true_eq] <;> omega

/-! ### the whole block -/

theorem lineLoop_lineContent {l : LineDesc} (h : l.WF) (hne : l.sets ≠ []) :
    ∃ n, lineLoop (lineContent l) ((lineContent l).length + 1) 0 [] 0 = .ok (l.sets.map convSet, n) := by
  cases hs : l.sets with
  | nil => exact absurd hs hne
  | cons d ds =>
    have hl : lineContent l = [] ++ (d :: ds).flatMap renderSet := by simp [lineContent, hs]
    have := lineLoop_sets (lineContent l) ds d [] [] 0 ((lineContent l).length + 1) hl
      (by intro w hw; exact h w (by rw [hs]; exact hw)) (by rw [hl]; simp)
    simpa using this

theorem foldl_block (b : List LineDesc) (h : ∀ l ∈ b, l.WF) :
    ∀ (items : List DataSet) (iters : Nat),
      ∃ n, ((b.map lineContent).filter (fun l => !(strip l).isEmpty)).foldl lineStep (.ok (items, iters)) =
        .ok (items ++ (b.flatMap (·.sets)).map convSet, n) := by
  induction b with
  | nil => intro items iters; exact ⟨iters, by simp⟩
  | cons l b ih =>
    intro items iters
    have hl := h l (by simp)
    have ih' := ih (fun l hl => h l (by simp [hl]))
    by_cases hs : l.sets = []
    · have hc : lineContent l = [] := by simp [lineContent, hs]
      obtain ⟨n, hn⟩ := ih' items iters
      refine ⟨n, ?_⟩
      simp only [List.map_cons, hc, List.filter_cons, strip_nil, List.isEmpty_nil, Bool.not_true, Bool.false_eq_true,
        if_false, List.flatMap_cons, hs, List.nil_append]
      exact hn
    · have hstrip := strip_printable _ (lineContent_printable hl)
      have hcne : (lineContent l).isEmpty = false := by
        cases hd : l.sets with
        | nil => exact absurd hd hs
        | cons d ds =>
          have := renderSet_length_pos (hl d (by rw [hd]; simp))
          cases hc : lineContent l with
          | nil =>
            have : (lineContent l).length = 0 := by rw [hc]; rfl
            simp only [lineContent, hd, List.flatMap_cons, List.length_append] at this
            omega
          | cons a t => rfl
      obtain ⟨n1, hn1⟩ := lineLoop_lineContent hl hs
      obtain ⟨n, hn⟩ := ih' (items ++ l.sets.map convSet) (iters + n1)
      refine ⟨n, ?_⟩
      simp only [List.map_cons, List.filter_cons, hstrip, hcne, Bool.not_false, if_true, List.foldl_cons]
      have : lineStep (.ok (items, iters)) (lineContent l) = .ok (items ++ l.sets.map convSet, iters + n1) := by
        simp [lineStep, hn1]
      rw [this, hn]
      simp

theorem parseContent_render (b : List LineDesc) (h : ∀ l ∈ b, l.WF) :
    ∃ iters, parseContent (render b) = .ok ((b.flatMap (·.sets)).map convSet, iters) := by
  unfold parseContent
  rw [render_isAscii b h]
  simp only [Bool.not_true, Bool.false_eq_true, if_false]
  rw [parseDataBlock_eq, splitLines_render b h]
  obtain ⟨n, hn⟩ := foldl_block b h [] 0
  exact ⟨n, by simpa using hn⟩

end Amshan.P1ParseRT
