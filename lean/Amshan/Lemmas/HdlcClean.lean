import Amshan.Lemmas.HdlcCleanRun
import Amshan.Lemmas.HdlcCleanResync
import Amshan.Lemmas.HdlcCleanPlain
/-
  Umbrella for the clean-stream / resynchronisation lemmas of the HDLC reader (C02, C16):
  HdlcCleanCore  — canonical reader states `st`, single-octet steps, frame bodies
  HdlcCleanFrame — facts about `FrameDesc.encode` and the frame object built from its prefixes
  HdlcCleanRun   — one frame, the shifted stream, `clean_run` (C02 for `run`), lifting to `readAll`
  HdlcCleanResync— a flag from any state; `resync_stuffing_run` (C16 with stuffing)
  HdlcCleanPlain — `resync_plain_run` (C16 without stuffing)
-/
